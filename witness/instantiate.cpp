// Witness unit (E1): instantiates the two Encoder::encode<> templates, which only
// clients of the library instantiate, so that their bodies and CFGs exist in the
// fact base.  Nothing here is executed.
#include <asam_cmp/encoder.h>

#include <memory>
#include <vector>

namespace verif_witness
{
inline void instantiate(ASAM::CMP::Encoder& e,
                        std::vector<ASAM::CMP::Packet>& values,
                        std::vector<std::shared_ptr<ASAM::CMP::Packet>>& pointers,
                        const ASAM::CMP::DataContext& ctx)
{
    (void) e.encode(values.begin(), values.end(), ctx);
    (void) e.encode(pointers.begin(), pointers.end(), ctx);
}
}  // namespace verif_witness
