"""Driver behind /verif/check (see that file's docstring)."""
import argparse
import importlib
import json
import os
import sys
import time
import traceback

HERE = os.path.dirname(os.path.dirname(os.path.dirname(os.path.abspath(__file__))))
if HERE not in sys.path:
    sys.path.insert(0, HERE)

from . import build, facts, report  # noqa: E402
from .build import Broken  # noqa: E402


class Ctx:
    def __init__(self, prop, root, tier, seed, config="default", extra_flags=()):
        self.prop = prop
        self.root = os.path.realpath(root)
        self.tier = tier
        self.seed = seed
        self.config = config
        self.extra_flags = tuple(extra_flags)
        self._fb = {}

    def fb(self, config=None, extra_flags=None):
        config = self.config if config is None else config
        extra_flags = self.extra_flags if extra_flags is None else extra_flags
        k = (config, tuple(extra_flags))
        if k not in self._fb:
            self._fb[k] = facts.load(self.root, config, extra_flags)
        return self._fb[k]

    def ir(self):
        return build.ir_module(self.root)

    def spec(self, name):
        with open(os.path.join(HERE, "spec", name)) as fh:
            return json.load(fh)


def run_property(prop, root, tier="quick", seed=0, config="default", extra_flags=()):
    mod = importlib.import_module("rules." + prop.lower())
    ctx = Ctx(prop, root, tier, seed, config, extra_flags)
    res = mod.run(ctx)
    return ctx, res


# configurations analysed in addition by the thorough tier: packet.cpp has an `#ifdef _DEBUG` branch
EXTRA_CONFIGS = [("debug", ("-D_DEBUG",))]


def main():
    ap = argparse.ArgumentParser()
    ap.add_argument("prop")
    ap.add_argument("--tier", default=os.environ.get("VERIF_TIER", "quick"), choices=["quick", "thorough"])
    ap.add_argument("--root", default="/repo")
    ap.add_argument("--replay", default=None)
    ap.add_argument("--no-selftest", action="store_true")
    a = ap.parse_args()
    prop = a.prop.upper()
    seed = int(os.environ.get("VERIF_SEED", "0") or 0)
    t0 = time.time()
    try:
        ctx, res = run_property(prop, a.root, a.tier, seed)
        meta = ctx.fb().meta
        if a.replay:
            with open(a.replay) as fh:
                rep = json.load(fh)
            hits = [o for o in res.obligations if o["rule"] == rep["rule"] and o["key"] == rep["key"]]
            if not hits:
                print("replay: obligation %s %s no longer exists on this tree" % (rep["rule"], rep["key"]))
                return 2
            rc = 0
            for o in hits:
                print("replay %s %s at %s: %s — %s" % (o["rule"], o["key"], o["loc"], "holds" if o["ok"] else "VIOLATED",
                                                       o["detail"]))
                if not o["ok"]:
                    rc = 1
                    print("VIOLATION property=%s replay=%s" % (prop, a.replay))
            return rc
        extra_cov = {}
        if a.tier == "thorough":
            cfgs = []
            for cname, flags in EXTRA_CONFIGS:
                _, r2 = run_property(prop, a.root, a.tier, seed, cname, flags)
                have = {(o["rule"], o["key"]) for o in res.obligations}
                n_new = 0
                for o in r2.obligations:
                    if not o["ok"]:
                        res.bad(o["rule"], "[%s] %s" % (cname, o["key"]), o["loc"], "configuration %s (%s): %s" % (cname, " ".join(flags), o["detail"]))
                        n_new += 1
                cfgs.append({"config": cname, "flags": list(flags), "obligations": len(r2.obligations), "violations": n_new})
            extra_cov["extra_configurations"] = cfgs
            from . import crosscheck
            extra_cov["callgraph_crosscheck"] = crosscheck.run(ctx)
        selftest = None
        if a.tier == "thorough" and not a.no_selftest:
            from . import selftest as st
            selftest = st.run(prop, ctx, res)
        level = getattr(sys.modules["rules." + prop.lower()], "LEVEL", "other")
        rc = report.finish(res, a.tier, seed, t0, meta, level=level, selftest=selftest, extra_cov=extra_cov)
        if selftest is not None and selftest.get("failed"):
            print("ANALYSIS-BROKEN property=%s self-test failed on a known baseline tree: %s" % (prop, selftest["failed"]))
            return 2 if rc == 0 else rc
        build.prune_cache()
        return rc
    except Broken as e:
        return incomplete(prop, a, seed, t0, str(e))
    except Exception:
        traceback.print_exc()
        return incomplete(prop, a, seed, t0, "internal error")


def incomplete(prop, a, seed, t0, why):
    """The analysis stopped before all rules ran.  Violations already established are real and
    are reported (exit 1); without any, the run is analysis-broken (exit 2), never a pass."""
    partial = report.CURRENT.get(prop)
    print("ANALYSIS-BROKEN property=%s: %s" % (prop, why))
    if partial is not None and any(not o["ok"] for o in partial.obligations):
        partial.notes.append("analysis incomplete: %s — the violations below were established before it stopped" % why)
        partial.floors, partial.deficits = [], []
        try:
            meta = facts.load(os.path.realpath(a.root), "default", ()).meta
            level = getattr(sys.modules.get("rules." + prop.lower()), "LEVEL", "other")
            rc = report.finish(partial, a.tier, seed, t0, meta, level=level, selftest=None, extra_cov={"incomplete": why})
            return rc if rc != 0 else 2
        except Exception:
            traceback.print_exc()
    return 2

