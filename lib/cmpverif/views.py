"""View pairs (data pointer, length): linear reading of the pointer a getter returns."""
from . import facts, paths
from .facts import canon

NS = "ASAM::CMP::"


def view_syms(fb):
    def syms(x):
        if x.get("k") == "call":
            c = x.get("callee") or {}
            if c.get("nm") == "data" and "obj" in x and fb.is_payload_buffer(x["obj"]):
                return "D"
            if c.get("nm") == "size" and "obj" in x and fb.is_payload_buffer(x["obj"]):
                return "L"
            if c.get("name") in (NS + "Payload::getLength", "TECMP::Payload::getLength"):
                return "L"
            if c.get("name") in (NS + "Payload::getRawPayload", "TECMP::Payload::getRawPayload"):
                return "D"
            if (x.get("t") or {}).get("k") == "ptr" and c.get("inrepo") and facts.inline_accessor(fb, x) is None:
                return "C:" + canon(x)
        return None
    return syms


def pointer_rows(fb, ptrf):
    """Linear forms {D|C:<call>: 1, 1: k} of the non-null values the pointer getter returns (one per path)."""
    from rules.decoder_rules import _linear
    out = []
    for p in paths.enumerate_paths(ptrf):
        if p.end != "exit":
            continue
        v = paths.returned_value(p)
        if v is None or paths.is_null_value(v):
            continue
        form = _linear(ptrf, v, view_syms(fb))
        out.append((p, v, form))
    return out


