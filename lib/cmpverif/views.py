"""View pairs (data pointer, length): linear reading of the pointer a getter returns."""
from . import facts, paths
from .facts import canon

NS = "ASAM::CMP::"


def view_syms(fb):
    def syms(x):
        if x.get("k") == "call":
            c = x.get("callee") or {}
            if c.get("nm") == "data" and "obj" in x and fb.is_payload_buffer(x["obj"]):
                return "D"
            if c.get("nm") == "size" and "obj" in x and fb.is_payload_buffer(x["obj"]):
                return "L"
            if c.get("name") in (NS + "Payload::getLength", "TECMP::Payload::getLength"):
                return "L"
            if c.get("name") in (NS + "Payload::getRawPayload", "TECMP::Payload::getRawPayload"):
                return "D"
            if (x.get("t") or {}).get("k") == "ptr" and c.get("inrepo"):
                y = facts.inline_accessor(fb, x)
                if y is None:
                    return "C:" + canon(x)
                # inlinable, but only worth looking into when what it stands for can be read as base + offset; otherwise the call
                # itself is the (opaque) base — two uses of the same position helper still compare equal
                try:
                    f = ptr_form(fb, None, y, 4, _nosym=True)
                except Exception:
                    f = None
                if f is None:
                    return "C:" + canon(x)
        return None
    return syms


def ptr_form(fb, fn, e, depth=5, _nosym=False):
    """Byte-level linear form of a pointer expression: {base symbol: 1, 1: byte offset}.  Pointer arithmetic is scaled by the
    pointee size (`header + 1` is sizeof(Header) bytes on), casts between pointer types keep the address, one-line accessors
    (getHeader(), getRawPayload()) and single-definition locals stand for their expressions."""
    from rules.decoder_rules import _linear
    syms = view_syms(fb)
    x = e
    while isinstance(x, dict) and x.get("k") == "cast":
        x = x["e"]
    if not isinstance(x, dict) or depth < 0:
        return None
    s0 = syms(x)
    if s0:
        return {s0: 1, 1: 0}
    if x.get("k") == "ref" and x.get("dk") == "local":
        if fn is None:
            return None
        ds = facts.local_defs(fn).get(x["decl"], [])
        return ptr_form(fb, fn, ds[0], depth - 1) if len(ds) == 1 else None
    if x.get("k") == "call":
        y = facts.inline_accessor(fb, x)
        f = ptr_form(fb, fn, y, depth - 1) if y is not None else None
        if f is None and (x.get("t") or {}).get("k") == "ptr" and (x.get("callee") or {}).get("inrepo") and not x.get("args"):
            return {"C:" + canon(x): 1, 1: 0}  # a position helper of the class that is not a plain expression: an opaque base
        return f
    if x.get("k") == "un" and x.get("op") == "&":
        t = x["e"]
        while isinstance(t, dict) and t.get("k") == "cast":
            t = t["e"]
        if t.get("k") == "subscript":
            x = {"k": "bin", "op": "+", "l": t["base"], "r": t["idx"], "id": x.get("id")}
        elif t.get("k") == "call" and (t.get("callee") or {}).get("nm") == "operator[]" and "obj" in t and fb.is_payload_buffer(t["obj"]) and t.get("args"):
            f2 = _linear(fn, t["args"][0], syms)
            return None if f2 is None else dict({"D": 1}, **{k: v for k, v in f2.items()}) if "D" not in f2 else None
        else:
            return None
    if x.get("k") == "bin" and x.get("op") in ("+", "-"):
        l, r = x["l"], x["r"]
        lt = (facts.strip(l).get("t") or {})
        if lt.get("k") != "ptr":
            if x["op"] == "-":
                return None
            l, r = r, l
            lt = (facts.strip(l).get("t") or {})
        if lt.get("k") != "ptr":
            return None
        scale = lt.get("psize") or 1
        base = ptr_form(fb, fn, l, depth - 1)
        off = _linear(fn, r, syms)
        if base is None or off is None:
            return None
        out = dict(base)
        for k, v in off.items():
            out[k] = out.get(k, 0) + (v if x["op"] == "+" else -v) * scale
        return out
    return None


def pointer_rows(fb, ptrf):
    """Linear forms {D|C:<call>: 1, 1: k} of the non-null values the pointer getter returns (one per path)."""
    from rules.decoder_rules import _linear
    out = []
    for p in paths.enumerate_paths(ptrf):
        if p.end != "exit":
            continue
        v = paths.returned_value(p)
        if v is None or paths.is_null_value(v):
            continue
        form = ptr_form(fb, ptrf, v)
        out.append((p, v, form))
    return out


