"""G5 — table extraction by exhaustive evaluation over finite domains.

`ceval` is a tiny evaluator of side-effect-free integer functions (switch / if /
return / ?: / comparisons / logical, bitwise and arithmetic operators over
parameters, locals, enumerators and fields of *this).  It is used only to tabulate a
function over a *complete* finite domain (all enumerators of an enum, all 256 values
of a byte), which is exact; anything outside its vocabulary raises Unsupported.
"""
from .facts import strip, const_value


class Unsupported(Exception):
    pass


class OutOfTable(Unsupported):
    """a constant table is read at an index it does not have: the program itself has no defined value there"""


class _Return(Exception):
    def __init__(self, v):
        self.v = v


class _Break(Exception):
    pass


class _Continue(Exception):
    pass


def _wrap(v, t):
    if t is None:
        return v
    k = t.get("k")
    if k == "bool":
        return 1 if v else 0
    if k in ("int", "enum") and "bits" in t:
        b = t["bits"]
        v &= (1 << b) - 1
        if t.get("sg") and v >> (b - 1):
            v -= 1 << b
        return v
    return v


def ev(n, env):
    n = strip(n)
    k = n.get("k")
    b = env.get("__bind__")
    if b is not None:
        v = b(n)
        if v is not None:
            return v
    if "cv" in n and k not in ("assign", "cassign", "call"):
        return n["cv"]
    if "cvs" in n:
        return int(n["cvs"])
    if k == "ref":
        if n.get("dk") in ("param", "local"):
            if n["decl"] not in env:
                raise Unsupported("unbound %s" % n["decl"])
            return env[n["decl"]]
        if n.get("dk") == "staticlocal" and n.get("vconst") and ("static:" + n.get("name", "")) in env:
            return env["static:" + n["name"]]
        raise Unsupported("ref %s" % n.get("decl"))
    if k == "member" and n.get("dk") == "field" and strip(n["base"]).get("k") == "this":
        key = "this->" + n["name"]
        if key not in env:
            raise Unsupported("unbound field %s" % key)
        return env[key]
    if k == "member" and n.get("dk") == "field" and strip(n["base"]).get("k") == "ref":
        key = strip(n["base"])["decl"] + "." + n["name"]
        if key not in env:
            raise Unsupported("unbound field %s" % key)
        return env[key]
    if k == "cast":
        v = ev(n["e"], env)
        if n.get("ck") == "IntegralToBoolean":
            return 1 if v else 0
        return _wrap(v, n.get("t"))
    if k == "un" and n.get("op") not in ("pre++", "post++", "pre--", "post--"):
        op = n["op"]
        v = ev(n["e"], env)
        if op == "!":
            return 0 if v else 1
        if op == "~":
            return _wrap(~v, n.get("t"))
        if op == "-":
            return _wrap(-v, n.get("t"))
        if op == "+":
            return v
        raise Unsupported("unary %s" % op)
    if k == "bin":
        op = n["op"]
        if op == "&&":
            return 1 if (ev(n["l"], env) and ev(n["r"], env)) else 0
        if op == "||":
            return 1 if (ev(n["l"], env) or ev(n["r"], env)) else 0
        a, b = ev(n["l"], env), ev(n["r"], env)
        try:
            r = {"+": lambda: a + b, "-": lambda: a - b, "*": lambda: a * b, "&": lambda: a & b, "|": lambda: a | b,
                 "^": lambda: a ^ b, "<<": lambda: a << b, ">>": lambda: a >> b, "==": lambda: int(a == b),
                 "!=": lambda: int(a != b), "<": lambda: int(a < b), "<=": lambda: int(a <= b), ">": lambda: int(a > b),
                 ">=": lambda: int(a >= b), "/": lambda: int(a / b), "%": lambda: a - b * int(a / b)}[op]()
        except KeyError:
            raise Unsupported("binary %s" % op)
        except ZeroDivisionError:
            raise Unsupported("division by zero")
        return _wrap(r, n.get("t"))
    if k == "cond":
        return ev(n["a"], env) if ev(n["c"], env) else ev(n["b"], env)
    if k == "call" and env.get("__fb__") is not None and n.get("op") is None:
        # a side-effect-free in-repo helper (predicate on its arguments): evaluate its body
        g = env["__fb__"].resolve_call(n)
        on_this = "obj" in n and strip(n["obj"]).get("k") == "this" and (n.get("callee") or {}).get("const")
        while on_this is False and "obj" in n and strip(n["obj"]).get("k") == "cast":
            break
        if "obj" in n and not on_this:
            o = n["obj"]
            while isinstance(o, dict) and o.get("k") == "cast":
                o = o["e"]
            on_this = isinstance(o, dict) and o.get("k") == "this" and bool((n.get("callee") or {}).get("const"))
        if g is None or g.body is None or "obj" in n and not ((n.get("callee") or {}).get("static") or on_this):
            raise Unsupported("call %s" % (n.get("callee") or {}).get("name"))
        depth = env.get("__depth__", 0)
        if depth > 4:
            raise Unsupported("call depth")
        sub = {"__fb__": env["__fb__"], "__depth__": depth + 1}
        if on_this:
            # a const member called on the same object sees the same member values
            sub.update({k2: v2 for k2, v2 in env.items() if isinstance(k2, str) and k2.startswith("this->")})
        for prm, a in zip(g.params, n.get("args", [])):
            sub[prm["decl"]] = _wrap(ev(a, env), prm.get("t"))
        try:
            _exec(g.body, sub)
        except _Return as r:
            if r.v is None:
                raise Unsupported("void helper")
            return r.v
        raise Unsupported("helper %s returns nothing" % g.name)
    if k == "initlist":
        return [ev(x, env) for x in n.get("inits", [])]
    if k == "subscript":
        base, idx = ev(n["base"], env), ev(n["idx"], env)
        if isinstance(base, list) and isinstance(idx, int) and not (0 <= idx < len(base)):
            raise OutOfTable("index %d outside the %d-element constant table" % (idx, len(base)))
        if not isinstance(base, list) or not isinstance(idx, int):
            raise Unsupported("subscript outside a known constant array")
        return base[idx]
    if k == "un" and n.get("op") in ("pre++", "post++", "pre--", "post--"):
        l = strip(n["e"])
        if l.get("k") == "ref" and l.get("dk") == "local" and l["decl"] in env:
            old = env[l["decl"]]
            env[l["decl"]] = _wrap(old + (1 if "++" in n["op"] else -1), l.get("t"))
            return old if n["op"].startswith("post") else env[l["decl"]]
        raise Unsupported("increment of non-local")
    if k == "cassign":
        l = strip(n["l"])
        if l.get("k") == "ref" and l.get("dk") == "local" and l["decl"] in env:
            a, b = env[l["decl"]], ev(n["r"], env)
            op = n.get("op")
            try:
                r = {"+": lambda: a + b, "-": lambda: a - b, "*": lambda: a * b, "&": lambda: a & b, "|": lambda: a | b,
                     "^": lambda: a ^ b, "<<": lambda: a << b, ">>": lambda: a >> b}[op]()
            except KeyError:
                raise Unsupported("compound assignment %s" % op)
            env[l["decl"]] = _wrap(r, l.get("t"))
            return env[l["decl"]]
        raise Unsupported("compound assignment to non-local")
    if k == "assign":
        l = strip(n["l"])
        if l.get("k") == "ref" and l.get("dk") == "local":
            env[l["decl"]] = _wrap(ev(n["r"], env), l.get("t"))
            return env[l["decl"]]
        raise Unsupported("assignment to non-local")
    raise Unsupported("expression %s" % k)


def _exec(s, env):
    k = s.get("k")
    if k == "compound":
        for x in s.get("body", []):
            _exec(x, env)
    elif k == "return":
        raise _Return(ev(s["e"], env) if s.get("e") else None)
    elif k == "if":
        if ev(s["cond"], env):
            _exec(s["then"], env)
        elif "else" in s:
            _exec(s["else"], env)
    elif k == "decl":
        for v in s["vars"]:
            if isinstance(v.get("init"), dict):
                val = ev(v["init"], env)
                env[v["decl"]] = val if isinstance(val, list) else _wrap(val, v.get("t"))
                if v.get("static") and (v.get("t") or {}).get("const"):
                    env["static:" + v.get("name", "")] = env[v["decl"]]
    elif k == "switch":
        val = ev(s["cond"], env)
        body = s["body"].get("body", []) if s["body"].get("k") == "compound" else [s["body"]]
        # flatten labels: find the statement index to start from
        flat = []

        def flatten(x):
            if x.get("k") in ("case", "default"):
                flat.append(("label", x))
                flatten(x["sub"])
            else:
                flat.append(("stmt", x))
        for x in body:
            flatten(x)
        start = None
        for i, (kind, x) in enumerate(flat):
            if kind == "label" and x.get("k") == "case" and const_value(x["value"]) == val:
                start = i
                break
        if start is None:
            for i, (kind, x) in enumerate(flat):
                if kind == "label" and x.get("k") == "default":
                    start = i
                    break
        if start is None:
            return
        try:
            for kind, x in flat[start:]:
                if kind == "stmt":
                    _exec(x, env)
        except _Break:
            pass
    elif k == "break":
        raise _Break()
    elif k == "null":
        pass
    elif k in ("while", "for"):
        # concrete execution of a loop; the step budget keeps the evaluator total
        if "init" in s and isinstance(s["init"], dict):
            _exec(s["init"], env)
        steps = 0
        try:
            while True:
                if isinstance(s.get("cond"), dict) and not ev(s["cond"], env):
                    break
                steps += 1
                if steps > 4096:
                    raise Unsupported("loop does not finish within 4096 iterations")
                try:
                    _exec(s["body"], env)
                except _Continue:
                    pass
                if isinstance(s.get("inc"), dict):
                    ev(s["inc"], env)
        except _Break:
            pass
    elif k == "continue":
        raise _Continue()
    elif k in ("do", "rangefor", "try"):
        raise Unsupported("statement %s" % k)
    else:
        ev(s, env)


def ceval(fn, env):
    """Evaluate function body under env (decl id / 'this->field' -> int)."""
    e = dict(env)
    try:
        _exec(fn.body, e)
    except _Return as r:
        return r.v
    return None


def trace(fn, bind, interesting, env=None, fb=None):
    """Partial evaluation of fn's body with the selector expressions bound by `bind(node) -> int | None`
    and everything else unknown.  Returns the `interesting(call node)` calls that are executed, in
    order.  A branch whose condition cannot be decided from the selector is an error (Unsupported)
    when it contains an interesting call, and is skipped otherwise — so the result is exact."""
    from .facts import walk
    env = dict(env or {})
    env["__bind__"] = bind
    env["__fb__"] = fb if fb is not None else getattr(fn, "fb", None)  # side-effect-free in-repo helpers (classifiers) are evaluated
    out = []

    def has_interesting(s):
        return any(x.get("k") in ("call", "construct") and interesting(x) for x in walk(s))

    def record(s):
        for x in walk(s):
            if x.get("k") in ("call", "construct") and interesting(x):
                out.append(x)

    def try_ev(e):
        try:
            return ev(e, env)
        except Unsupported:
            return None

    def run(s):
        k = s.get("k")
        if k == "compound":
            for x in s.get("body", []):
                run(x)
        elif k == "return":
            if s.get("e"):
                record(s["e"])
            raise _Return(None)
        elif k == "if":
            record(s["cond"])
            c = try_ev(s["cond"])
            if c is None:
                if has_interesting(s.get("then", {})) or has_interesting(s.get("else", {})):
                    raise Unsupported("branch at %s decides an effect but does not depend on the selector alone" % s.get("loc"))
                return
            if c:
                run(s["then"])
            elif "else" in s:
                run(s["else"])
        elif k == "decl":
            for v in s["vars"]:
                if isinstance(v.get("init"), dict):
                    record(v["init"])
                    val = try_ev(v["init"])
                    if val is not None:
                        env[v["decl"]] = _wrap(val, v.get("t"))
        elif k == "switch":
            val = try_ev(s["cond"])
            if val is None:
                if has_interesting(s["body"]):
                    raise Unsupported("switch at %s decides an effect but is not over the selector" % s.get("loc"))
                return
            body = s["body"].get("body", []) if s["body"].get("k") == "compound" else [s["body"]]
            flat = []

            def flatten(x):
                if x.get("k") in ("case", "default"):
                    flat.append(("label", x))
                    flatten(x["sub"])
                else:
                    flat.append(("stmt", x))
            for x in body:
                flatten(x)
            start = None
            for i, (kind, x) in enumerate(flat):
                if kind == "label" and x.get("k") == "case" and const_value(x["value"]) == val:
                    start = i
                    break
            if start is None:
                for i, (kind, x) in enumerate(flat):
                    if kind == "label" and x.get("k") == "default":
                        start = i
                        break
            if start is None:
                return
            try:
                for kind, x in flat[start:]:
                    if kind == "stmt":
                        run(x)
            except _Break:
                pass
        elif k == "break":
            raise _Break()
        elif k == "null":
            pass
        elif k in ("while", "for", "do", "rangefor", "try"):
            if has_interesting(s):
                raise Unsupported("loop at %s contains a tabulated effect" % s.get("loc"))
        else:
            record(s)
            if s.get("k") == "assign":
                l = strip(s["l"])
                if l.get("k") == "ref" and l.get("dk") == "local":
                    val = try_ev(s["r"])
                    if val is None:
                        env.pop(l["decl"], None)
                    else:
                        env[l["decl"]] = _wrap(val, l.get("t"))
    try:
        run(fn.body)
    except _Return:
        pass
    return out


def path_consistent(p, selector, value, fb=None):
    """False when some branch outcome on path p contradicts `selector expression == value`
    (selector(node) -> bool marks the selector's occurrences; locals are resolved on the path;
    helper predicates are evaluated).  Outcomes that do not depend on the selector alone are
    ignored, so the answer over-approximates feasibility."""
    env = {"__fb__": fb}

    def bind(n):
        if selector(n):
            return value
        if n.get("k") == "ref" and n.get("dk") == "local":
            e = p.value_of(n)
            if e is not None and e.get("id") != n.get("id"):
                return ev(e, env)
        return None
    env["__bind__"] = bind

    def val(e):
        try:
            return ev(e, env)
        except (Unsupported, RecursionError):
            return None
    for a in p.atoms:
        if a[0] == "switch":
            if a[4] is None:
                continue
            v = val(a[4])
            if v is None:
                continue
            if (a[2] == "default" and v in a[3]) or (a[2] != "default" and v != a[2]):
                return False
        elif a[0] == "cmp":
            l, r = val(a[4]), val(a[5])
            if l is None or r is None:
                continue
            ok = {"==": l == r, "!=": l != r, "<": l < r, "<=": l <= r, ">": l > r, ">=": l >= r}[a[2]]
            if not ok:
                return False
        elif a[0] == "truth":
            v = val(a[3])
            if v is None:
                continue
            if bool(v) != a[2]:
                return False
    return True
