"""Load-time inlining of multi-statement private helpers (AST and CFG).

A rule set that binds roles to functions and reads their paths is fragile against "extract method" / "move a check into the
callee": the code is the same, it just lives in another function.  This normalisation undoes such a split when the fact base is
loaded: a helper that
  * is defined in the repository, is not a template, is not recursive, has a CFG,
  * is private / protected (called on `this` or static) or file-local,
  * has a name no rule module or spec table mentions (facts.rule_vocabulary) — helpers the rules know stay as they are,
  * is called only at sites of one of three shapes — a whole expression statement `h(a);`, the root of an initialiser / assigned value /
    returned value `x = h(a);`, or the root of an `if` condition (possibly negated) — with side-effect-free arguments,
is spliced into every caller: the callee's AST is cloned in front of the calling statement (locals and node ids renamed, parameters replaced
by the arguments, `this` kept), its `return e;` statements become assignments to a fresh result local that replaces the call, and its CFG
blocks are spliced into the caller's block at the call's position.  All call sites or none: afterwards the helper is removed from the fact
base, so that role binding sees one function again.  Anything outside these shapes is left alone (the helper stays a function of its own).
"""
import copy

from .facts import NONCHILD_KEYS, strip, strip_all_casts, walk, rule_vocabulary

MAX_BLOCKS = 40


def _pure_arg(a):
    """the argument can be substituted for the parameter: evaluating it has no effect and yields the same value each time"""
    for x in walk(a):
        k = x.get("k")
        if k in ("assign", "cassign", "lambda", "new", "delete", "throw"):
            return False
        if k == "un" and x.get("op") in ("pre++", "post++", "pre--", "post--"):
            return False
        if k == "call":
            c = x.get("callee") or {}
            if not (c.get("const") or c.get("nm") in ("data", "size", "get", "operator*", "operator->", "begin", "end", "cbegin", "cend", "empty", "back", "front")
                    or (x.get("op") is not None)):
                return False
        if k == "construct" and x.get("args"):
            for y in x["args"]:
                if not _pure_arg(y):
                    return False
    return True


def _site_shape(fn, call):
    """('stmt' | 'value' | 'cond', statement node, enclosing compound, index) or None"""
    par = fn.parent(call)
    neg_or_cast = call
    while par is not None and (par.get("k") == "cast" or (par.get("k") == "un" and par.get("op") == "!") or
                               (par.get("k") == "construct" and len(par.get("args", [])) == 1) or par.get("k") in ("paren", "exprwithcleanups", "temp")):
        neg_or_cast = par
        par = fn.parent(par)
    if par is None:
        return None
    top = neg_or_cast
    kind = None
    stmt = None
    if par.get("k") == "compound" and top is call:
        kind, stmt = "stmt", call
        comp = par
    elif par.get("k") == "compound":
        return None
    elif par.get("k") == "return" and par.get("e") is top:
        kind, stmt = "value", par
    elif par.get("k") == "if" and par.get("cond") is top and "init" not in par and "condvar" not in par:
        kind, stmt = "cond", par
    elif par.get("k") in ("assign", "cassign") and par.get("r") is top and fn.parent(par) is not None and fn.parent(par).get("k") == "compound":
        kind, stmt = "value", par
    elif par.get("k") == "decl":
        if any(v.get("init") is top for v in par.get("vars", [])) and len(par.get("vars", [])) == 1:
            kind, stmt = "value", par
    if kind is None:
        return None
    comp = fn.parent(stmt)
    if comp is None or comp.get("k") != "compound":
        return None
    body = comp.get("body", [])
    idx = next((i for i, s in enumerate(body) if s is stmt), None)
    if idx is None:
        return None
    return kind, stmt, comp, idx


_BASELINE = None


def baseline_functions():
    """names of the functions the library had when the rules were derived (spec/baseline_functions.json)"""
    global _BASELINE
    if _BASELINE is None:
        import json
        import os
        here = os.path.dirname(os.path.dirname(os.path.dirname(os.path.abspath(__file__))))
        with open(os.path.join(here, "spec", "baseline_functions.json")) as fh:
            _BASELINE = set(json.load(fh)["functions"])
    return _BASELINE


def _out_param(p):
    t = p.get("t") or {}
    return bool(t.get("ref")) and not (t.get("s") or "").startswith("const ") and t.get("k") in ("int", "bool", "enum", "float", "ptr")


def _plain_lvalue(a):
    a = strip_all_casts(a) if isinstance(a, dict) else {}
    return a.get("k") == "ref" and a.get("dk") in ("local", "param")


def _is_remaining_accessor(g):
    """`size_t available(const uint8_t* p) const`: every return is 0 or `end - p` with `end = buf.data() + buf.size()` — a shape the bounds
    rules read as it stands (result >= k > 0 means k bytes lie behind p); spliced in, its answer would hide in a multi-definition local"""
    from .facts import const_value, local_defs
    if not g.params or (g.params[0]["t"] or {}).get("k") != "ptr":
        return False
    ends = set()
    for d, es in local_defs(g).items():
        if len(es) == 1:
            e = strip_all_casts(es[0])
            if e.get("k") == "bin" and e.get("op") == "+":
                l, r = strip_all_casts(e["l"]), strip_all_casts(e["r"])
                if l.get("k") == "call" and (l.get("callee") or {}).get("nm") == "data" and r.get("k") == "call" and (r.get("callee") or {}).get("nm") == "size":
                    ends.add(d)
    rets = g.returns()
    if not ends or not rets:
        return False
    diff = False
    for r in rets:
        e = strip_all_casts(r.get("e") or {})
        if const_value(e) == 0:
            continue
        if e.get("k") == "bin" and e.get("op") == "-" and strip_all_casts(e["l"]).get("decl") in ends and strip_all_casts(e["r"]).get("decl") == g.params[0]["decl"]:
            diff = True
            continue
        return False
    return diff


def _is_pure_scalar_function(g):
    """a free / static function of scalar parameters with a scalar result that touches nothing else (`constexpr IdField idFieldOf(type)`):
    the table evaluator and the predicate summaries read such a function as it stands, call by call"""
    if g.rec and not g.raw.get("static"):
        return False
    rt = g.raw.get("rett") or {}
    if rt.get("k") not in ("int", "enum", "bool") or rt.get("ref"):
        return False
    if not g.params or any((p["t"] or {}).get("k") not in ("int", "enum", "bool") or (p["t"] or {}).get("ref") for p in g.params):
        return False
    for x in g.nodes():
        if x.get("k") in ("call", "construct", "member", "this", "new", "lambda", "un") and not (x.get("k") == "un" and x.get("op") in ("!", "-", "~", "+")):
            return False
        if x.get("k") == "ref" and x.get("dk") not in ("local", "param", "enumerator"):
            return False
    return True


def _candidate(fb, g, vocab):
    if g is None or g.body is None or not g.cfg_raw or not g.raw.get("inrepo") or g.raw.get("templated") or g.raw.get("virtual"):
        return False
    short = g.name.split("::")[-1].split("<")[0]
    if g.name in baseline_functions():
        return False  # part of the decomposition the rules were derived on: roles are bound to it
    if short in vocab or short.startswith("operator") or short.startswith("~") or (g.rec and short == g.rec.split("::")[-1]):
        return False
    if not ("(anon-ns)" in g.name or g.raw.get("access") in ("private", "protected") or (not g.rec and g.raw.get("static"))):
        return False
    if len(g.cfg_raw.get("blocks", [])) > MAX_BLOCKS:
        return False
    if _is_remaining_accessor(g):
        return False
    if _is_pure_scalar_function(g):
        return False
    rt9 = g.raw.get("rett") or {}
    if rt9.get("k") == "ptr" and rt9.get("prec") and any(z.get("null") for z in g.nodes()):
        return False  # a finder: the element's address or null
    for x in g.nodes():
        if x.get("k") == "decl" and any(v.get("static") for v in x.get("vars", [])):
            return False
        if x.get("k") in ("lambda", "try", "goto", "label"):
            return False
    # parameters are only read (a non-const reference parameter may be written: its argument has to be a plain variable, see _sites)
    pd = {p["decl"] for p in g.params if not _out_param(p)}
    for x in g.nodes():
        if x.get("k") in ("assign", "cassign") and strip_all_casts(x["l"]).get("decl") in pd:
            return False
        if x.get("k") == "un" and x.get("op") in ("pre++", "post++", "pre--", "post--", "&") and strip_all_casts(x["e"]).get("decl") in pd:
            return False
    return True


def _sites(fb, g):
    out = []
    for f in fb.functions.values():
        if not f.raw.get("inrepo") or not f.body:
            continue
        for x in f.nodes():
            if x.get("k") == "call" and fb.resolve_call(x) is g:
                out.append((f, x))
    return out


def inline_private_helpers(fb, max_rounds=2):
    vocab = rule_vocabulary()
    done = 0
    serial = [0]
    for _ in range(max_rounds):
        progress = False
        for g in list(fb.functions.values()):
            if g.key not in fb.functions or not _candidate(fb, g, vocab):
                continue
            sites = _sites(fb, g)
            if not sites or len(sites) > 6:
                continue
            reach = fb.reachable_from([g])
            ok = True
            plans = []
            for f, c in sites:
                if f.key == g.key or f.key in reach or not f.cfg_raw or f.raw.get("templated"):
                    ok = False
                    break
                if "obj" in c and strip_all_casts(c["obj"]).get("k") != "this":
                    ok = False
                    break
                args = c.get("args", [])
                if len(args) != len(g.params) or not all(_pure_arg(a) for a in args):
                    ok = False
                    break
                if any(_out_param(p) and not _plain_lvalue(a) for p, a in zip(g.params, args)):
                    ok = False
                    break
                shape = _site_shape(f, c)
                if shape is None:
                    ok = False
                    break
                cfg = f.cfg
                if c.get("id") not in cfg.block_of:
                    ok = False
                    break
                plans.append((f, c, shape))
            # one site per caller statement only (two calls in one statement would need an order)
            if ok and len({(f.key, id(s[1])) for f, c, s in plans}) != len(plans):
                ok = False
            if not ok:
                continue
            for f, c, shape in plans:
                serial[0] += 1
                _splice(fb, f, c, shape, g, serial[0])
            # the helper is gone as a function of its own
            fb.functions.pop(g.key, None)
            if g in fb.by_name.get(g.name, []):
                fb.by_name[g.name].remove(g)
            done += 1
            progress = True
        if not progress:
            break
    fb.inlined_functions = done
    return done


def _splice(fb, f, call, shape, g, k):
    kind, stmt, comp, idx = shape
    base = 1000000 * k
    pref = "i%d." % k
    rett = g.raw.get("rett") or {}
    void = rett.get("k") == "void"
    tmp_decl = "%sret" % pref
    argmap = {p["decl"]: a for p, a in zip(g.params, call.get("args", []))}
    outp = {p["decl"] for p in g.params if _out_param(p)}
    idmap = {}

    def clone(z):
        if isinstance(z, list):
            return [clone(w) for w in z]
        if not isinstance(z, dict):
            return z
        if z.get("k") == "ref" and z.get("decl") in outp:
            # reference parameter bound to a plain variable: the variable itself
            out = copy.deepcopy(strip_all_casts(argmap[z["decl"]]))
            out["id"] = base + z.get("id", 0)
            out["inl_param"] = z["decl"]
            idmap[z.get("id")] = out["id"]
            if z.get("loc"):
                out["loc"] = z["loc"]
            return out
        if z.get("k") == "ref" and z.get("decl") in argmap:
            a = copy.deepcopy(argmap[z["decl"]])
            _renumber(a, base + 500000 + len(idmap) * 64)
            out = {"k": "cast", "ck": "NoOp", "id": base + z.get("id", 0), "t": z.get("t"), "e": a, "inl_param": z["decl"]}
            idmap[z.get("id")] = out["id"]
            if z.get("loc"):
                out["loc"] = z["loc"]
            return out
        out = {}
        for key, v in z.items():
            out[key] = v if key in NONCHILD_KEYS else clone(v)
        if "id" in out and "k" in out and isinstance(out["id"], int):
            idmap[z["id"]] = base + z["id"]
            out["id"] = base + z["id"]
        if out.get("k") == "ref" and out.get("dk") == "local" and isinstance(out.get("decl"), str):
            out["decl"] = pref + out["decl"]
        if out.get("k") == "decl":
            for v in out.get("vars", []):
                if isinstance(v.get("decl"), str):
                    v["decl"] = pref + v["decl"]
        if out.get("k") == "rangefor" and isinstance(out.get("var"), str):
            out["var"] = pref + out["var"]
        return out

    def _renumber(a, start):
        n = [0]
        for x in walk(a):
            if "id" in x:
                n[0] += 1
                x["id"] = start + n[0]

    body = clone(g.body)
    # returns -> result := value
    for x in list(walk(body)):
        if x.get("k") == "return":
            e = x.get("e")
            rid = x["id"]
            loc = x.get("loc")
            x.clear()
            if e is None or void:
                x.update({"k": "null", "id": rid, "inl_return": True})
            else:
                x.update({"k": "assign", "id": rid, "inl_return": True, "t": rett,
                          "l": {"k": "ref", "dk": "local", "decl": tmp_decl, "name": "result", "id": rid + 400000, "t": rett}, "r": e})
            if loc:
                x["loc"] = loc
    new_stmts = []
    if not void:
        new_stmts.append({"k": "decl", "id": base + 900000, "inl_decl": True,
                          "vars": [{"decl": tmp_decl, "name": "result", "t": rett, "static": False}]})
    inl = {"k": "compound", "id": base + 900001, "body": body.get("body", []) if body.get("k") == "compound" else [body], "inlined_from": g.name}
    if call.get("loc"):
        inl["loc"] = call["loc"]
    new_stmts.append(inl)
    call_id = call["id"]
    call_loc = call.get("loc")
    if kind == "stmt":
        comp["body"][idx:idx + 1] = new_stmts
    else:
        comp["body"][idx:idx] = new_stmts
        t = call.get("t") or rett
        call.clear()
        call.update({"k": "ref", "dk": "local", "decl": tmp_decl, "name": "result", "id": call_id, "t": t, "inlined_from": g.name})
        if call_loc:
            call["loc"] = call_loc
    # ---- CFG
    raw = f.raw["cfg"]
    blocks = raw["blocks"]
    byid = {b["id"]: b for b in blocks}
    bid = f.cfg.block_of[call_id]
    B = byid[bid]
    pos = B["el"].index(call_id)
    nb = max(b["id"] for b in blocks) + 1
    post_id = nb
    gmap = {}
    graw = g.raw["cfg"]
    for gb in graw["blocks"]:
        gmap[gb["id"]] = nb + 1 + len(gmap)
    post = {"id": post_id, "el": B["el"][pos + 1:] if kind == "stmt" else B["el"][pos:], "succ": B.get("succ", [])}
    for key in ("cond", "term", "tk", "case"):
        if key in B:
            post[key] = B.pop(key)
    B["el"] = B["el"][:pos]
    B["succ"] = [gmap[graw["entry"]]]
    newblocks = [post]
    for gb in graw["blocks"]:
        nbk = {"id": gmap[gb["id"]], "el": [idmap.get(e, -1) if isinstance(e, int) and e >= 0 else e for e in gb.get("el", [])],
               "succ": [(post_id if s == graw["exit"] else gmap[s]) if s is not None else None for s in gb.get("succ", [])]}
        if gb["id"] == graw["exit"]:
            nbk["el"] = []
            nbk["succ"] = [post_id]
        for key in ("cond", "term"):
            if key in gb and isinstance(gb[key], int) and gb[key] >= 0:
                nbk[key] = idmap.get(gb[key], -1)
        for key in ("tk", "case"):
            if key in gb:
                nbk[key] = gb[key]
        newblocks.append(nbk)
    blocks.extend(newblocks)
    f.raw["nnodes"] = (f.raw.get("nnodes") or 0) + (g.raw.get("nnodes") or 0)
    f.cfg_raw = raw
    f._nodes = None
    f._parent = None
    f._cfg = None
    for attr in ("_local_defs_cache",):
        if hasattr(f, attr):
            delattr(f, attr)


# ---------------------------------------------------------------------------------------------------------------------------------------
# "assemble aside, then take over": a local byte vector that starts as a copy of a member vector and is moved / copied / swapped into that
# member as the last thing the function does with either.  To the single-threaded, exception-free reading the rules make, that is the same
# as building in the member itself, so the local is made an alias of the member when the fact base is loaded.

def _is_byte_vector(t):
    return isinstance(t, dict) and t.get("k") == "rec" and t.get("rec") == "std::vector" and (t.get("targs") or [None])[0] == "unsigned char"


def _this_member(n):
    n = strip_all_casts(n) if isinstance(n, dict) else {}
    if n.get("k") == "member" and n.get("dk") == "field" and strip_all_casts(n.get("base") or {}).get("k") == "this":
        return n
    return None


def _takeover(stmt, V):
    """(member node) when stmt is `M = std::move(V)`, `M = V`, `M.swap(V)`, `V.swap(M)`, `std::swap(M, V)`"""
    s = strip(stmt) if isinstance(stmt, dict) else {}
    while s.get("k") in ("exprwithcleanups", "paren") and isinstance(s.get("e"), dict):
        s = s["e"]
    if s.get("k") != "call":
        return None

    def is_v(a):
        a = strip_all_casts(a) if isinstance(a, dict) else {}
        while a.get("k") == "call" and (a.get("callee") or {}).get("name") == "std::move" and len(a.get("args", [])) == 1:
            a = strip_all_casts(a["args"][0])
        while a.get("k") in ("temp", "bindtemp") and isinstance(a.get("e"), dict):
            a = strip_all_casts(a["e"])
        return a.get("k") == "ref" and a.get("decl") == V
    nm = (s.get("callee") or {}).get("nm")
    name = (s.get("callee") or {}).get("name")
    args = s.get("args", [])
    if nm == "operator=" and len(args) == 1 and is_v(args[0]):
        return _this_member(s.get("obj"))
    if nm == "swap" and "obj" in s and len(args) == 1:
        if is_v(args[0]):
            return _this_member(s["obj"])
        if is_v(s["obj"]):
            return _this_member(args[0])
    if name == "std::swap" and len(args) == 2:
        if is_v(args[1]):
            return _this_member(args[0])
        if is_v(args[0]):
            return _this_member(args[1])
    return None


def alias_staging_buffers(fb):
    done = 0
    for f in list(fb.functions.values()):
        if not f.raw.get("inrepo") or f.body is None or not f.rec or not f.cfg_raw or f.raw.get("templated"):
            continue
        for comp in [x for x in f.nodes() if x.get("k") == "compound"]:
            body = comp.get("body", [])
            for i, s in enumerate(body):
                if not (isinstance(s, dict) and s.get("k") == "decl" and len(s.get("vars", [])) == 1):
                    continue
                v = s["vars"][0]
                init = v.get("init")
                if v.get("static") or not _is_byte_vector(v.get("t")) or not isinstance(init, dict):
                    continue
                c = strip_all_casts(init)
                while c.get("k") in ("exprwithcleanups", "temp", "bindtemp") and isinstance(c.get("e"), dict):
                    c = strip_all_casts(c["e"])
                if not (c.get("k") == "construct" and c.get("copy") and len(c.get("args", [])) == 1):
                    continue
                M = _this_member(c["args"][0])
                if M is None or not _is_byte_vector(M.get("t")):
                    continue
                V = v["decl"]
                j = next((k for k in range(i + 1, len(body)) if _takeover(body[k], V) is not None), None)
                if j is None or _takeover(body[j], V).get("field") != M["field"]:
                    continue
                # nothing leaves the function between the copy and the take-over, the member is not touched in between, the local not afterwards
                between = [x for st in body[i + 1:j] for x in walk(st)]
                if any(x.get("k") in ("return", "throw", "goto", "try", "lambda") for x in between):
                    continue
                if any(x.get("k") == "member" and x.get("field") == M["field"] for x in between):
                    continue
                if any(x.get("k") == "ref" and x.get("decl") == V for st in body[j + 1:] for x in walk(st)):
                    continue
                # break / continue out of an enclosing loop between the two would skip the take-over: only when the compound is the function body
                if comp is not f.body and any(x.get("k") in ("break", "continue") for x in between):
                    continue
                # calls between the two that could read the member through `this`: own methods (other than static ones)
                own = False
                for x in between:
                    if x.get("k") == "call":
                        g = fb.resolve_call(x)
                        if g is not None and g.rec and not g.raw.get("static") and strip_all_casts(x.get("obj") or {}).get("k") == "this":
                            reach = [g] + [fb.functions[k] for k in fb.reachable_from([g]) if k in fb.functions]
                            if any(h.body is None or any(y.get("k") == "member" and y.get("field") == M["field"] for y in h.nodes()) for h in reach):
                                own = True
                if own:
                    continue
                nid = [max(x.get("id", 0) for x in f.nodes() if isinstance(x.get("id"), int)) + 1000]

                def member_copy(keep_id, loc):
                    m = copy.deepcopy(M)
                    for x in walk(m):
                        if "id" in x:
                            nid[0] += 1
                            x["id"] = nid[0]
                    m["id"] = keep_id
                    m["staging_alias"] = v.get("name")
                    if loc:
                        m["loc"] = loc
                    return m
                for st in body[i + 1:j]:
                    for x in list(walk(st)):
                        if x.get("k") == "ref" and x.get("decl") == V:
                            rid, loc = x.get("id"), x.get("loc")
                            x.clear()
                            x.update(member_copy(rid, loc))
                for st, why in ((body[i], "staging_decl"), (body[j], "staging_takeover")):
                    sid, loc = st.get("id"), st.get("loc")
                    st.clear()
                    st.update({"k": "null", "id": sid, why: v.get("name")})
                    if loc:
                        st["loc"] = loc
                # CFG: elements of the two removed statements vanish (their sub-expressions are no longer in the tree)
                f._nodes = None
                f._parent = None
                live = {x["id"] for x in f.nodes() if isinstance(x.get("id"), int)}
                for b in f.raw["cfg"]["blocks"]:
                    b["el"] = [e for e in b.get("el", []) if not (isinstance(e, int) and e >= 0 and e not in live)]
                f.cfg_raw = f.raw["cfg"]
                f._cfg = None
                for attr in ("_local_defs_cache",):
                    if hasattr(f, attr):
                        delattr(f, attr)
                done += 1
                break
    fb.staging_aliases = done
    return done


# ---------------------------------------------------------------------------------------------------------------------------------------
# Scalar replacement of a read-only local aggregate: `const Fields f{a(), b()};  ... f.x ... f.y ...` in a function that changes nothing
# reads the same as `... a() ... b() ...`.  Lets rules that follow a header getter into a comparison see through "read the fields into a
# small struct first".

def _readonly_function(fb, f):
    for x in f.nodes():
        k = x.get("k")
        if k in ("assign", "cassign"):
            l = strip_all_casts(x["l"])
            if not (l.get("k") == "ref" and l.get("dk") == "local"):
                return False
        if k == "un" and x.get("op") in ("pre++", "post++", "pre--", "post--"):
            l = strip_all_casts(x["e"])
            if not (l.get("k") == "ref" and l.get("dk") == "local"):
                return False
        if k in ("lambda", "new", "delete", "throw"):
            return False
        if k == "call":
            c = x.get("callee") or {}
            g = fb.resolve_call(x)
            if c.get("const") or x.get("op") is not None:
                continue
            if g is not None and g.raw.get("inrepo") and (g.raw.get("static") or not g.rec):
                # a free / static helper: fine when it takes no mutable pointer or reference
                if all((p["t"].get("k") != "ptr" or p["t"].get("pconst")) and not _out_param(p) for p in g.params):
                    continue
            if c.get("name") in ("std::min", "std::max", "std::move", "std::forward", "std::distance"):
                continue
            return False
    return True


def scalarise_aggregates(fb):
    done = 0
    for f in list(fb.functions.values()):
        if not f.raw.get("inrepo") or f.body is None or f.raw.get("templated"):
            continue
        cands = []
        for s in f.nodes():
            if s.get("k") != "decl":
                continue
            for v in s.get("vars", []):
                init = v.get("init")
                if not isinstance(init, dict) or v.get("static"):
                    continue
                c = strip_all_casts(init)
                while c.get("k") in ("exprwithcleanups", "temp", "bindtemp") and isinstance(c.get("e"), dict):
                    c = strip_all_casts(c["e"])
                while c.get("k") == "construct" and (c.get("copy") or c.get("move") or c.get("elidable")) and len(c.get("args", [])) == 1:
                    c = strip_all_casts(c["args"][0])
                    while c.get("k") in ("exprwithcleanups", "temp", "bindtemp") and isinstance(c.get("e"), dict):
                        c = strip_all_casts(c["e"])
                if c.get("k") == "initlist" and c.get("rec") and isinstance(c.get("inits"), list):
                    cands.append((v, c))
        if not cands or not _readonly_function(fb, f):
            continue
        for v, c in cands:
            try:
                rec = fb.record(c["rec"])
            except Exception:
                continue
            fields = [fl["qname"] for fl in rec.get("fields", [])]
            if rec.get("bases") or len(fields) != len(c["inits"]) or not all(_pure_arg(e) for e in c["inits"]):
                continue
            V = v["decl"]
            uses = [x for x in f.nodes() if x.get("k") == "ref" and x.get("decl") == V]
            members = [x for x in f.nodes() if x.get("k") == "member" and strip_all_casts(x.get("base") or {}).get("decl") == V and
                       strip_all_casts(x.get("base") or {}).get("k") == "ref"]
            if not uses or len(uses) != len(members) or any(m.get("field") not in fields for m in members):
                continue
            # the variables the initialisers read keep their value: never assigned in this function
            rd = {x.get("decl") for e in c["inits"] for x in walk(e) if x.get("k") == "ref" and x.get("dk") in ("local", "param")}
            assigned = set()
            for x in f.nodes():
                if x.get("k") in ("assign", "cassign"):
                    assigned.add(strip_all_casts(x["l"]).get("decl"))
                if x.get("k") == "un" and x.get("op") in ("pre++", "post++", "pre--", "post--"):
                    assigned.add(strip_all_casts(x["e"]).get("decl"))
            if rd & assigned:
                continue
            nid = max([x.get("id", 0) for x in f.nodes() if isinstance(x.get("id"), int)] + [0]) + 5000
            for m in members:
                e = copy.deepcopy(c["inits"][fields.index(m["field"])])
                for x in walk(e):
                    if "id" in x:
                        nid += 1
                        x["id"] = nid
                mid, loc, t = m.get("id"), m.get("loc"), m.get("t")
                m.clear()
                m.update({"k": "cast", "ck": "NoOp", "id": mid, "t": t or e.get("t"), "e": e, "scalarised": v.get("name")})
                if loc:
                    m["loc"] = loc
            f._nodes = None
            f._parent = None
            for attr in ("_local_defs_cache",):
                if hasattr(f, attr):
                    delattr(f, attr)
            done += 1
    fb.scalarised = done
    return done
