"""Accessor analysis shared by C11, C12, C08-R2, C15-R4: runs the G4 interpreter on
every get/set pair named in /verif/spec/layout.json and compares the per-bit result
with the layout oracle.  Produces obligations under generic rule tags

  frame     setter leaves every storage bit outside its field unchanged        (C11-R1)
  readback  getter(setter(v)) == v on the in-range bits, 0 above               (C11-R2)
  flag      setFlag/getFlag per enumerator and truth value                    (C11-R3)
  position  field bits sit at the big-endian wire position of the spec        (C12-R1)
  size      record sizes / no padding / data offset                           (C12-R2)
  reserved  reserved bytes default to zero                                     (C12-R3)
  swap      swapEndian overloads are byte reversal                             (C12-R4)

The caller maps tags to its own rule ids and decides which tags it reports.
"""
from . import g4
from .build import Broken
from .facts import strip, strip_all_casts, const_value, walk, callee_name, expand, canon
from .g4 import BV, C0, C1, P, S, Unsupported, term_str


class Ob:
    def __init__(self, tag, cls, key, loc, ok, detail, bits=None):
        self.tag, self.cls, self.key, self.loc, self.ok, self.detail = tag, cls, key, loc, ok, detail
        self.bits = bits or []


def find_method(fb, cls, name, nparams=None, const=None):
    """Method `name` of cls or of its bases (most derived first)."""
    for c in [cls] + fb.bases_of(cls):
        cands = [f for f in fb.by_name.get(c + "::" + name, []) if not f.raw.get("templated")]
        if nparams is not None:
            cands = [f for f in cands if len(f.params) == nparams]
        if const is not None:
            cands = [f for f in cands if bool(f.raw.get("const")) == const]
        if len(cands) == 1:
            return cands[0]
        if len(cands) > 1:
            raise Broken("accessor %s::%s is ambiguous (%d definitions)" % (c, name, len(cands)))
    return None


def header_view_record(fb, cls):
    """Record that cls::getHeader() views over payloadData.data() (reinterpret_cast),
    or None when cls has no getHeader."""
    g = find_method(fb, cls, "getHeader", 0, const=True) or find_method(fb, cls, "getHeader", 0)
    if g is None:
        return None
    rt = g.raw.get("rett") or {}
    rec = rt.get("prec")
    ok = False
    from .facts import single_return_expr
    e = single_return_expr(g)  # (named intermediate steps — `void* raw = data(); return static_cast<Header*>(raw);` — are one expression)
    if e is not None and strip(e).get("k") == "call" and (strip(e).get("callee") or {}).get("nm") != "data":
        from .facts import inline_accessor
        y = inline_accessor(fb, strip(e))  # a shared helper `headerAs<Header>()` that does the cast
        if y is not None:
            e = y
    if e is not None:
        if e.get("k") == "cast" and rec:
            inner = strip_all_casts(e["e"])
            if inner.get("k") == "call" and (inner.get("callee") or {}).get("nm") != "data":
                from .facts import inline_accessor
                y = inline_accessor(fb, inner)  # e.g. getRawPayload(), which returns the buffer's data()
                if y is not None:
                    inner = strip_all_casts(y)
            if inner.get("k") == "call" and (inner.get("callee") or {}).get("nm") == "data":
                o = strip(inner.get("obj", {}))
                if fb.is_payload_buffer(o):
                    ok = True
    if not ok or not rec:
        raise Broken("%s::getHeader is not `reinterpret_cast<Header*>(<payload buffer>.data())`" % cls)
    return rec


SIZE_SYM = "payload size"


class HeaderInterp(g4.Interp):
    """G4 interpreter that understands `getHeader()->accessor(...)`: the call is
    evaluated on the header storage (the first sizeof(Header) payload bytes)."""

    def __init__(self, fb, header_rec=None):
        super().__init__(fb)
        self.header_rec = header_rec
        self.header_ptrs = set()  # locals that hold getHeader()

    def _is_get_header(self, x):
        x = strip_all_casts(x) if isinstance(x, dict) else {}
        return x.get("k") == "call" and (x.get("callee") or {}).get("nm") == "getHeader" and not x.get("args") and \
            ((x.get("t") or {}).get("prec") == self.header_rec)

    def block(self, s, env, depth=0):
        # `const auto header = getHeader();` — the local is another name for the header view
        if s.get("k") == "decl" and self.header_rec:
            rest = []
            for v in s.get("vars", []):
                if (v.get("t") or {}).get("k") == "ptr" and self._is_get_header(v.get("init")):
                    self.header_ptrs.add(v["decl"])
                else:
                    rest.append(v)
            if len(rest) != len(s.get("vars", [])):
                if rest:
                    super().block(dict(s, vars=rest), env, depth)
                return
        return super().block(s, env, depth)

    def call(self, n, env, depth):
        if "obj" in n:
            o = strip(n["obj"])
            if strip_all_casts(o).get("k") == "ref" and strip_all_casts(o).get("decl") in self.header_ptrs:
                n2 = dict(n)
                n2["obj"] = {"k": "this", "id": -1}
                return super().call(n2, env, depth)
            if o.get("k") == "call" and (o.get("callee") or {}).get("nm") == "getHeader" and self.header_rec:
                rt = (o.get("t") or {})
                if rt.get("prec") != self.header_rec:
                    raise Unsupported("getHeader() returns %s, expected %s" % (rt.get("prec"), self.header_rec))
                n2 = dict(n)
                n2["obj"] = {"k": "this", "id": -1}
                return super().call(n2, env, depth)
            if (n.get("callee") or {}).get("nm") == "size" and not n.get("args") and self.header_rec and self.fb.is_payload_buffer(o):
                # the payload's own size: an unknown value that is at least sizeof(Header) — the class invariant every
                # construction site establishes (C02-R2) and the premise under which the header storage exists at all
                return BV.param(SIZE_SYM, 64, False)
        return super().call(n, env, depth)

    def binop(self, op, a, b, t):
        """`payloadData.size() <rel> constant` is decided where the class invariant size >= sizeof(Header) decides it: a guard
        `size() < sizeof(Header)` in front of a header read changes nothing, `size() < 40` in front of a 36-byte header does."""
        if op in ("<", "<=", ">", ">=", "==", "!=") and self.header_rec:
            flip = {"<": ">", "<=": ">=", ">": "<", ">=": "<=", "==": "==", "!=": "!="}
            for x, y, o2 in ((a, b, op), (b, a, flip[op])):
                c = y.value()
                if c is not None and x.w == 64 and all(x.bits[j] == g4.P(SIZE_SYM, j) for j in range(64)):
                    lb = self.fb.record(self.header_rec)["size"]
                    r = None
                    if o2 == "<" and c <= lb or o2 == "<=" and c < lb or o2 == "==" and c < lb:
                        r = 0
                    if o2 == ">=" and c <= lb or o2 == ">" and c < lb or o2 == "!=" and c < lb:
                        r = 1
                    if r is not None:
                        return BV.const(r, 1, False)
        return super().binop(op, a, b, t)


def wire_pos(offset, nbytes):
    def pos(v):
        return 8 * (offset + nbytes - 1 - v // 8) + v % 8
    return pos


def _fmt_bits(bits):
    return ",".join("byte %d bit %d" % (b // 8, b % 8) for b in bits[:6]) + ("…" if len(bits) > 6 else "")


def _param_bv(p, w_inrange=None, value=None):
    pw, psg = g4.type_width(p["t"])
    if value is not None:
        return BV.const(value, pw, psg)
    return BV.param(p["name"] or p["decl"], pw, psg, inrange=w_inrange)


def check_field(out, interp, cls, row, getter, setter, nbytes, pos, fb):
    stem = row["stem"]
    kind = row.get("kind", "uint")
    lo, hi = row["lo"], row["hi"]
    w = hi - lo + 1
    M = [pos(lo + j) for j in range(w)]
    Mset = set(M)
    nbits = nbytes * 8
    gloc = getter.loc if getter else ""
    sloc = setter.loc if setter else ""

    def frame(post, label, loc):
        bad = [b for b in range(nbits) if b not in Mset and post[b] != S(b)]
        if bad:
            b = bad[0]
            out.append(Ob("frame", cls, "%s::set%s%s" % (cls, stem, label), loc, False,
                          "set%s%s changes %d bit(s) outside its field (%s): e.g. byte %d bit %d becomes %s" %
                          (stem, label, len(bad), _fmt_bits(bad), b // 8, b % 8, term_str(post[b])), bits=bad))
        else:
            out.append(Ob("frame", cls, "%s::set%s%s" % (cls, stem, label), loc, True,
                          "all %d bits outside the field keep their old value" % (nbits - len(Mset))))

    # ---------------- getter on raw storage (read side of the layout)
    if getter is not None:
        _, ret = interp.run(getter, nbytes, {})
        if ret is None:
            raise Broken("getter %s returns nothing" % getter.name)
        if kind in ("uint", "float", "enum_identity", "bool"):
            exp = [S(M[j]) if j < w else C0 for j in range(ret.w)]
            if kind == "bool":
                exp = [S(M[0])]
            ok = list(ret.bits) == exp
            det = "get%s returns wire bits %d:%d of the %d-byte big-endian field at offset %d" % (stem, hi, lo, row["bytes"], row["offset"]) \
                if "offset" in row else "get%s returns bits %d:%d" % (stem, hi, lo)
            if ok and kind != "bool" and ret.w < w:
                ok = False
                det = "get%s returns only %d of the field's %d bits: wire values that differ in the upper bits read back the same" % (stem, ret.w, w)
            elif not ok:
                j = next(i for i in range(min(len(exp), ret.w)) if ret.bits[i] != exp[i]) if ret.w == len(exp) else 0
                det = "get%s: result bit %d is %s, layout says %s" % (stem, j, term_str(ret.bits[j]) if j < ret.w else "?",
                                                                      term_str(exp[j]) if j < len(exp) else "?")
            out.append(Ob("position", cls, "%s::get%s" % (cls, stem), gloc, ok, det))
        elif kind == "enum":
            en = fb.enum(row["enum"])
            vals = {e["name"]: e["value"] for e in en["enumerators"]}
            for name, wire in sorted(row["values"].items()):
                if name not in vals:
                    raise Broken("spec enumerator %s::%s does not exist" % (row["enum"], name))
                env = {S(M[j]): (C1 if (wire >> j) & 1 else C0) for j in range(w)}
                got = BV([g4.subst(b, env) for b in ret.bits]).value()
                out.append(Ob("position", cls, "%s::get%s[%s]" % (cls, stem, name), gloc, got == (vals[name] & ((1 << ret.w) - 1)),
                              "wire value %d in bits %d:%d reads back as %s::%s (%s)" % (wire, hi, lo, row["enum"], name,
                                                                                       "ok" if got == vals[name] else "got %r, want %d" % (got, vals[name]))))
            if row.get("open"):
                # an open enumeration: the field is a plain number on the wire of which the API names a few values; every other value is
                # handed through unchanged (a generic message of type 0x04 is reported as type 0x04, not as `undefined`)
                exp = [S(M[j]) if j < w else C0 for j in range(ret.w)]
                okid = list(ret.bits) == exp
                jbad = next((i for i in range(ret.w) if ret.bits[i] != exp[i]), 0)
                out.append(Ob("position", cls, "%s::get%s[open]" % (cls, stem), gloc, okid,
                              "every wire value, named or not, is handed out unchanged" if okid else
                              "get%s does not hand out every wire value unchanged: result bit %d is %s — values the API does not name are reported as "
                              "something else" % (stem, jbad, term_str(ret.bits[jbad])[:160])))
            missing = set(vals) - set(row["values"])
            if missing:
                raise Broken("enum %s has enumerators without a spec row: %s" % (row["enum"], sorted(missing)))
            # every wire bit of the field takes part in the result: otherwise wire values outside the enumeration that differ from an
            # enumerator only in the dropped bits read back as that enumerator (an unsupported kind is taken for a supported one)
            sup = set()
            for b in ret.bits:
                sup |= g4.atoms(b)
            dropped = [j for j in range(w) if S(M[j]) not in sup]
            out.append(Ob("position", cls, "%s::get%s[all-bits]" % (cls, stem), gloc, not dropped,
                          "all %d wire bits of the field reach the result" % w if not dropped else
                          "get%s ignores wire bit(s) %s of the %d-bit field: %d wire values read back as each enumerator" %
                          (stem, _fmt_bits(dropped) if len(dropped) < 9 else "%d..%d" % (dropped[0], dropped[-1]), w, 1 << len(dropped))))

    if setter is None or row.get("getter_only"):
        return
    if len(setter.params) != 1:
        raise Broken("setter %s has %d parameters" % (setter.name, len(setter.params)))
    p = setter.params[0]
    pname = p["name"] or p["decl"]

    if kind in ("uint", "float", "enum_identity"):
        post, _ = interp.run(setter, nbytes, {p["decl"]: _param_bv(p, w_inrange=w)})
        frame(post, "", sloc)
        bad = [j for j in range(w) if post[M[j]] != P(pname, j)]
        out.append(Ob("position", cls, "%s::set%s" % (cls, stem), sloc, not bad,
                      ("value bit j lands on wire bit %d+j of the big-endian field at offset %d" % (lo, row.get("offset", 0))) if not bad else
                      "set%s: value bit %d should land on byte %d bit %d but that bit becomes %s" %
                      (stem, bad[0], M[bad[0]] // 8, M[bad[0]] % 8, term_str(post[M[bad[0]]]))))
        if getter is not None:
            _, ret = interp.run(getter, nbytes, {}, storage=post)
            exp = [P(pname, j) if j < w else C0 for j in range(ret.w)]
            ok = list(ret.bits) == exp
            out.append(Ob("readback", cls, "%s::%s" % (cls, stem), sloc, ok,
                          "get%s(set%s(v)) == v for all %d in-range bits" % (stem, stem, w) if ok else
                          "get%s after set%s(v): %s" % (stem, stem, next(
                              "bit %d is %s" % (j, term_str(ret.bits[j])) for j in range(ret.w) if ret.bits[j] != exp[j]))))
    elif kind == "bool":
        for v in (1, 0):
            post, _ = interp.run(setter, nbytes, {p["decl"]: _param_bv(p, value=v)})
            frame(post, "(%s)" % ("true" if v else "false"), sloc)
            ok = post[M[0]] == (C1 if v else C0)
            out.append(Ob("position", cls, "%s::set%s(%s)" % (cls, stem, "true" if v else "false"), sloc, ok,
                          "wire bit %d of the field at offset %d becomes %d" % (lo, row.get("offset", 0), v) if ok else
                          "set%s(%s): byte %d bit %d becomes %s" % (stem, bool(v), M[0] // 8, M[0] % 8, term_str(post[M[0]]))))
            if getter is not None:
                _, ret = interp.run(getter, nbytes, {}, storage=post)
                out.append(Ob("readback", cls, "%s::%s(%s)" % (cls, stem, "true" if v else "false"), sloc,
                              ret.value() == v, "get%s() after set%s(%s) is %r" % (stem, stem, bool(v), ret.value() if ret.value() is not None else repr(ret))))
    elif kind == "enum":
        en = fb.enum(row["enum"])
        vals = {e["name"]: e["value"] for e in en["enumerators"]}
        if row.get("open") and getter is not None:
            # open enumeration: whatever number is set is stored and read back, named or not
            post, _ = interp.run(setter, nbytes, {p["decl"]: _param_bv(p, w_inrange=w)})
            _, ret = interp.run(getter, nbytes, {}, storage=post)
            exp = [P(pname, j) if j < w else C0 for j in range(ret.w)]
            okset = all(post[M[j]] == P(pname, j) for j in range(w))
            out.append(Ob("position", cls, "%s::set%s[open]" % (cls, stem), sloc, okset,
                          "set%s stores every value, named or not, in the field unchanged" % stem if okset else
                          "set%s does not store every value unchanged: values the API does not name reach the wire as something else" % stem))
            ok = list(ret.bits) == exp and okset
            out.append(Ob("readback", cls, "%s::%s[open]" % (cls, stem), sloc, ok,
                          "get%s(set%s(v)) == v for every value of the %d-bit field, named or not" % (stem, stem, w) if ok else
                          "get%s after set%s(v) is not v for every value of the %d-bit field: values the API does not name do not survive" % (stem, stem, w)))
        for name, wire in sorted(row["values"].items()):
            post, _ = interp.run(setter, nbytes, {p["decl"]: _param_bv(p, value=vals[name])})
            frame(post, "(%s)" % name, sloc)
            got = BV([post[M[j]] for j in range(w)]).value()
            out.append(Ob("position", cls, "%s::set%s(%s)" % (cls, stem, name), sloc, got == wire,
                          "wire bits %d:%d become %d" % (hi, lo, wire) if got == wire else
                          "set%s(%s): wire bits %d:%d become %r, layout says %d" % (stem, name, hi, lo, got, wire)))
            if getter is not None:
                _, ret = interp.run(getter, nbytes, {}, storage=post)
                want = vals[name] & ((1 << ret.w) - 1)
                out.append(Ob("readback", cls, "%s::%s(%s)" % (cls, stem, name), sloc, ret.value() == want,
                              "get%s() after set%s(%s) is %r (want %d)" % (stem, stem, name, ret.value(), want)))


def check_flags(out, interp, cls, frow, getter, setter, nbytes, pos, fb):
    en = fb.enum(frow["enum"])
    vals = {e["name"]: e["value"] for e in en["enumerators"]}
    missing = set(vals) - set(frow["bits"])
    if missing:
        raise Broken("flag enum %s has enumerators without a spec row: %s" % (frow["enum"], sorted(missing)))
    nbits = nbytes * 8
    if len(setter.params) != 2 or len(getter.params) != 1:
        raise Broken("flag accessors %s/%s have unexpected arity" % (getter.name, setter.name))
    pm, pv = setter.params
    for name, bl in sorted(frow["bits"].items()):
        if name not in vals:
            raise Broken("spec flag %s::%s does not exist" % (frow["enum"], name))
        M = [pos(b) for b in bl]
        Mset = set(M)
        # getter on raw storage: OR of exactly the masked bits
        _, ret = interp.run(getter, nbytes, {getter.params[0]["decl"]: _param_bv(getter.params[0], value=vals[name])})
        exp = C0
        for b in M:
            exp = g4.t_or(exp, S(b))
        exp = g4.norm(exp)
        ok = ret is not None and ret.w == 1 and ret.bits[0] == exp
        out.append(Ob("flag", cls, "%s::%s(%s)" % (cls, frow["getter"], name), getter.loc, ok,
                      "returns wire bit(s) %s of the flags field" % bl if ok else
                      "%s(%s) returns %s, layout says bit(s) %s" % (frow["getter"], name, ret, bl)))
        for v in (1, 0):
            post, _ = interp.run(setter, nbytes, {pm["decl"]: _param_bv(pm, value=vals[name]), pv["decl"]: _param_bv(pv, value=v)})
            bad = [b for b in range(nbits) if b not in Mset and post[b] != S(b)]
            okset = all(post[b] == (C1 if v else C0) for b in M)
            lab = "%s::%s(%s,%s)" % (cls, frow["setter"], name, "true" if v else "false")
            out.append(Ob("flag", cls, lab, setter.loc, okset and not bad,
                          "bit(s) %s become %d, all other bits unchanged" % (bl, v) if okset and not bad else
                          ("%s: %d bit(s) outside the flag change (%s -> %s)" % (lab, len(bad), _fmt_bits(bad), term_str(post[bad[0]])) if bad else
                           "%s: flag bit becomes %s" % (lab, term_str(post[M[0]])))))
            _, ret = interp.run(getter, nbytes, {getter.params[0]["decl"]: _param_bv(getter.params[0], value=vals[name])}, storage=post)
            out.append(Ob("flag", cls, lab + ":readback", setter.loc, ret is not None and ret.value() == v,
                          "%s(%s) afterwards is %r" % (frow["getter"], name, ret.value() if ret is not None else None)))


def record_covered_bytes(fb, rec, base=0, out=None):
    """byte -> list of (field qname, init const or None) covering it (flattening nested records, unions)."""
    if out is None:
        out = {}
    r = fb.record(rec)
    for f in r["fields"]:
        off = base + f["offset_bits"] // 8
        t = f["t"]
        if t.get("k") == "rec" and t.get("rec") in fb.records:
            record_covered_bytes(fb, t["rec"], off, out)
            continue
        n = f.get("size_bits", 0) // 8
        init = f.get("init")
        iv = None
        if isinstance(init, dict):
            iv = const_value(init)
            if iv is None and init.get("k") == "initlist" and init.get("inits"):
                iv = const_value(init["inits"][0])
                if iv is None and "cvf" in strip(init["inits"][0]):
                    iv = 0 if strip(init["inits"][0])["cvf"] == 0 else 1
            if iv is None and "cvf" in strip(init):
                iv = 0 if strip(init)["cvf"] == 0 else 1
        for b in range(off, off + n):
            out.setdefault(b, []).append((f["qname"], iv, isinstance(init, dict), r["union"]))
    return out


def analyse(fb, spec, scope=None):
    """Returns (list of Ob, stats dict)."""
    # scope(cls, stem) -> bool: the accessors the calling property relies on.  An accessor outside the G4 vocabulary is analysis-broken
    # for the properties that rely on it (C11/C12: all of them) and of no concern to the others.
    deferred = []

    def outside(cls, stem, e, what="accessor"):
        if scope is None or scope(cls, stem):
            deferred.append("%s %s::%s is outside the G4 vocabulary: %s" % (what, cls, stem, e))
    out = []
    stats = {"classes": 0, "accessor_pairs": 0, "flag_enumerators": 0}
    for crow in spec["classes"]:
        cls = crow["class"]
        stats["classes"] += 1
        if crow.get("direct"):
            rec = cls
            interp = HeaderInterp(fb, None)
        else:
            rec = header_view_record(fb, cls)
            if rec is None:
                raise Broken("payload class %s has no getHeader()" % cls)
            interp = HeaderInterp(fb, rec)
        r = fb.record(rec)
        nbytes = r["size"]
        want = crow.get("size", crow.get("header_size"))
        out.append(Ob("size", cls, "sizeof(%s)" % rec, r["loc"], nbytes == want,
                      "sizeof(%s) = %d, layout says %d" % (rec, nbytes, want)))
        cov = record_covered_bytes(fb, rec)
        holes = [b for b in range(nbytes) if b not in cov]
        out.append(Ob("size", cls, "padding(%s)" % rec, r["loc"], not holes and r["align"] == 1,
                      "no padding bytes, alignment 1 (packed)" if not holes and r["align"] == 1 else
                      "record %s has padding/alignment: holes at bytes %s, align %d" % (rec, holes[:8], r["align"])))
        if nbytes != want:
            continue
        # spec coverage of the structure
        spec_cov = set()
        for row in crow["fields"]:
            spec_cov |= set(range(row["offset"], row["offset"] + row["bytes"]))
        for fr in crow.get("flags", []):
            spec_cov |= set(range(fr["offset"], fr["offset"] + fr["bytes"]))
        for rr in crow.get("reserved", []):
            spec_cov |= set(range(rr["offset"], rr["offset"] + rr["bytes"]))
        if set(range(nbytes)) - spec_cov:
            raise Broken("layout spec of %s does not cover bytes %s" % (cls, sorted(set(range(nbytes)) - spec_cov)))
        for row in crow["fields"]:
            getter = find_method(fb, cls, "get" + row["stem"], 0)
            setter = None if row.get("getter_only") else find_method(fb, cls, "set" + row["stem"], 1)
            if getter is None or (setter is None and not row.get("getter_only")):
                raise Broken("accessor pair get/set%s not found on %s" % (row["stem"], cls))
            stats["accessor_pairs"] += 1
            try:
                check_field(out, interp, cls, row, getter, setter, nbytes, wire_pos(row["offset"], row["bytes"]), fb)
            except Unsupported as e:
                outside(cls, row["stem"], e)
        for fr in crow.get("flags", []):
            getter = find_method(fb, cls, fr["getter"], 1)
            setter = find_method(fb, cls, fr["setter"], 2)
            if getter is None or setter is None:
                raise Broken("flag accessors %s/%s not found on %s" % (fr["getter"], fr["setter"], cls))
            stats["flag_enumerators"] += len(fr["bits"])
            try:
                check_flags(out, interp, cls, fr, getter, setter, nbytes, wire_pos(fr["offset"], fr["bytes"]), fb)
            except Unsupported as e:
                outside(cls, fr["getter"], e, "flag accessor")
        # reserved bytes default to zero
        any_init = any(x[2] for b in cov.values() for x in b)
        for rr in crow.get("reserved", []):
            for b in range(rr["offset"], rr["offset"] + rr["bytes"]):
                ents = cov.get(b, [])
                if not any_init:
                    ok, det = True, "record has no initialisers at all (viewed over zero-filled payload bytes only; C20-R1 checks it is never constructed)"
                else:
                    # in a union only the first (initialised) alternative counts
                    inits = [x for x in ents if x[2]]
                    ok = bool(inits) and all(x[1] == 0 for x in inits)
                    det = "reserved byte %d is initialised to zero by %s" % (b, ", ".join(x[0] for x in inits)) if ok else \
                        "reserved byte %d of %s is not zero-initialised (%s)" % (b, rec, ents)
                out.append(Ob("reserved", cls, "%s:byte%d" % (rec, b), r["loc"], ok, det))
        # every other byte of a constructible header has an initialiser too (default objects are fully defined)
    # ---- native packings
    for nrow in spec.get("native", []):
        cls = nrow["class"]
        stats["classes"] += 1
        r = fb.record(cls)
        interp = HeaderInterp(fb, None)
        for row in nrow["fields"]:
            getter = find_method(fb, cls, "get" + row["stem"], 0)
            setter = find_method(fb, cls, "set" + row["stem"], 1)
            if getter is None or setter is None:
                raise Broken("accessor pair get/set%s not found on %s" % (row["stem"], cls))
            stats["accessor_pairs"] += 1
            try:
                check_field(out, interp, cls, dict(row, bytes=r["size"]), getter, setter, r["size"], lambda v: v, fb)
            except Unsupported as e:
                outside(cls, row["stem"], e)
    # ---- plain member classes (regions discovered, pairwise disjoint)
    for prow in spec.get("plain", []):
        cls = prow["class"]
        stats["classes"] += 1
        r = fb.record(cls)
        nbytes = r["size"]
        interp = HeaderInterp(fb, None)
        regions = {}
        for row in prow["fields"]:
            stem, w = row["stem"], row["bits"]
            getter = find_method(fb, cls, "get" + stem, 0)
            setter = find_method(fb, cls, "set" + stem, 1)
            if getter is None or setter is None:
                raise Broken("accessor pair get/set%s not found on %s" % (stem, cls))
            stats["accessor_pairs"] += 1
            p = setter.params[0]
            pname = p["name"] or p["decl"]
            try:
                post, _ = interp.run(setter, nbytes, {p["decl"]: _param_bv(p, w_inrange=w)})
                changed = [b for b in range(nbytes * 8) if post[b] != S(b)]
                ok = len(changed) == w and changed == list(range(changed[0], changed[0] + w)) and \
                    all(post[changed[j]] == P(pname, j) for j in range(w))
                out.append(Ob("frame", cls, "%s::set%s" % (cls, stem), setter.loc, ok,
                              "writes exactly one %d-bit member (bytes %d..%d) with the parameter bits in order" %
                              (w, changed[0] // 8, changed[-1] // 8) if ok else
                              "set%s writes %d bits (%s), expected one %d-bit member holding the parameter" %
                              (stem, len(changed), _fmt_bits(changed), w)))
                regions[stem] = set(changed)
                _, ret = interp.run(getter, nbytes, {}, storage=post)
                exp = [P(pname, j) if j < w else C0 for j in range(ret.w)]
                out.append(Ob("readback", cls, "%s::%s" % (cls, stem), setter.loc, list(ret.bits) == exp,
                              "get%s(set%s(v)) == v" % (stem, stem) if list(ret.bits) == exp else "get%s after set%s(v) returns %r" % (stem, stem, ret)))
                _, raw = interp.run(getter, nbytes, {})
                okraw = ok and list(raw.bits) == [S(changed[j]) if j < w else C0 for j in range(raw.w)]
                out.append(Ob("readback", cls, "%s::get%s" % (cls, stem), getter.loc, okraw,
                              "get%s returns exactly the member set%s writes" % (stem, stem)))
            except Unsupported as e:
                outside(cls, stem, e)
        stems = sorted(regions)
        for i, a in enumerate(stems):
            for b in stems[i + 1:]:
                inter = regions[a] & regions[b]
                out.append(Ob("frame", cls, "%s:disjoint(%s,%s)" % (cls, a, b), r["loc"], not inter,
                              "write sets are disjoint" if not inter else "set%s and set%s write the same storage bits" % (a, b)))
        for fr in prow.get("flags", []):
            getter = find_method(fb, cls, fr["getter"], 1)
            setter = find_method(fb, cls, fr["setter"], 2)
            if getter is None or setter is None:
                raise Broken("flag accessors not found on %s" % cls)
            reg = sorted(regions[fr["within"]])
            stats["flag_enumerators"] += len(fr["bits"])
            try:
                check_flags(out, interp, cls, fr, getter, setter, nbytes, lambda v, reg=reg: reg[v], fb)
            except Unsupported as e:
                outside(cls, fr["getter"], e, "flag accessor")
    # ---- data offsets
    for cls, off in sorted(spec.get("data_offsets", {}).items()):
        if scope is not None and not scope(cls, "<data-offset>"):
            continue  # (an obligation of the layout properties; importers of single accessors do not depend on it)
        rec = header_view_record(fb, cls)
        g = find_method(fb, cls, "getData", 0) or find_method(fb, cls, "getStreamIdCountPtr", 0) or find_method(fb, cls, "getStreamIdsCount", 0)
        if cls.endswith("CaptureModulePayload") and g is None:
            g = find_method(fb, cls, "getDeviceDescription", 0)
        if g is None:
            raise Broken("%s has no data accessor" % cls)
        found = False
        # the accessor itself, or the helpers of its class that it calls (a shared field walker)
        cands = [g] + sorted((h for h in fb.reachable_from([g]).values() if h.key != g.key and h.rec and (h.rec == g.rec or h.rec in fb.bases_of(g.rec))),
                             key=lambda h: h.name)
        for h in cands:
            for n in h.nodes():
                if n.get("k") == "bin" and n.get("op") == "+":
                    l, rr = strip_all_casts(n["l"]), strip_all_casts(n["r"])
                    for a, b in ((l, rr), (rr, l)):
                        b = strip_all_casts(expand(h, b))
                        if a.get("k") == "call" and (a.get("callee") or {}).get("nm") == "data" and b.get("k") == "sizeof" and b.get("ofrec") == rec:
                            found = True
                            out.append(Ob("size", cls, "%s:data-offset" % cls, n.get("loc"), const_value(b) == off,
                                          "variable-length data starts at payload byte %d = sizeof(%s); layout says %d" % (const_value(b), rec, off)))
            if found:
                break
        if not found and g.name.endswith("::getData"):
            # not spelled `data() + sizeof(Header)` (e.g. `header + 1`): read the offset off the pointer the getter returns
            from .views import pointer_rows
            for _, v, form in pointer_rows(fb, g):
                if form is not None and sorted(k2 for k2 in form if k2 != 1 and form[k2]) == ["D"] and form["D"] == 1:
                    found = True
        if not found:
            raise Broken("%s: data accessor does not use payloadData.data() + sizeof(Header)" % g.name)
        # the value handed out: every non-null pointer the public data getter returns is data() + that offset, as a linear form
        # (a sub-expression data() + sizeof(Header) inside a larger sum does not count)
        if g.name.endswith("::getData"):
            from .views import pointer_rows
            for _, v, form in pointer_rows(fb, g):
                if form is None:
                    continue
                bases = sorted(k2 for k2 in form if k2 != 1 and form[k2])
                if bases == ["D"] and form["D"] == 1:
                    out.append(Ob("size", cls, "%s:data-pointer" % cls, v.get("loc") or g.loc, form.get(1, 0) == off,
                                  "getData() returns payload byte %d; the variable-length data starts at byte %d" % (form.get(1, 0), off)))
    # ---- swapEndian (an obligation of the layout properties themselves; importers of single accessors see its effect through those accessors)
    if scope is not None:
        stats["unsupported"] = deferred
        return out, stats
    sw = [f for f in fb.by_name.get("ASAM::CMP::swapEndian", [])]
    if len(sw) < 5:
        raise Broken("expected 5 swapEndian overloads, found %d" % len(sw))
    interp = g4.Interp(fb)
    for f in sw:
        p = f.params[0]
        pt = p["t"]
        try:
            if pt.get("k") == "float":
                try:
                    env = g4.Env(None, {p["decl"]: BV.param("v", 32, False)}, None)
                    interp.block(f.body, env)
                    if env.ret is not None and env.done == C1 and env.ret.w == 32:
                        exp = [P("v", 8 * (3 - i // 8) + i % 8) for i in range(32)]
                        got = [g4.norm(b) for b in env.ret.bits]
                        ok = got == exp
                        out.append(Ob("swap", "swapEndian", "swapEndian(float)", f.loc, ok, "bit-exact byte reversal of the 32-bit pattern (G4)" if ok else
                                      "swapEndian(float) is not a byte reversal of the bit pattern"))
                        continue
                except Unsupported:
                    pass
                # a swap whose result depends on the *value* of the float (a comparison, arithmetic on it) is not a permutation of its bytes:
                # some bit patterns (-0.0, NaNs, denormals) take the other branch and reach the wire unswapped or altered
                fl = [x for x in f.nodes() if x.get("k") == "bin" and ((strip_all_casts(x["l"]).get("t") or {}).get("k") == "float" or
                                                                       (strip_all_casts(x["r"]).get("t") or {}).get("k") == "float")]
                if fl:
                    out.append(Ob("swap", "swapEndian", "swapEndian(float)", fl[0].get("loc") or f.loc, False,
                                  "swapEndian(float) decides by the value of the float (`%s`): not a byte reversal of every bit pattern" % canon(fl[0])[:60]))
                    continue
                perm = interp.float_swap(f)
                ok = all(perm[i] == 3 - i for i in range(4))
                out.append(Ob("swap", "swapEndian", "swapEndian(float)", f.loc, ok, "byte permutation %r is byte reversal" % perm if ok else
                              "swapEndian(float) permutes bytes as %r" % perm))
                continue
            w, sg = g4.type_width(pt)
            env = g4.Env(None, {p["decl"]: BV.param("v", w, sg)}, None)
            interp.block(f.body, env)
            nb = w // 8
            exp = [P("v", 8 * (nb - 1 - i // 8) + i % 8) for i in range(w)]
            ok = env.ret is not None and list(env.ret.resize(w).bits) == exp
            out.append(Ob("swap", "swapEndian", "swapEndian(uint%d_t)" % w, f.loc, ok,
                          "result byte k is argument byte %d-k, for all values" % (nb - 1) if ok else "swapEndian(uint%d_t) is not byte reversal: %r" % (w, env.ret)))
        except Unsupported as e:
            raise Broken("swapEndian overload outside the G4 vocabulary: %s" % e)
    stats["unsupported"] = deferred
    return out, stats


def require_supported(stats):
    """called by a rule module after it has registered the obligations it imports: an accessor it relies on that the engine could not
    interpret makes the run analysis-broken (violations already registered are still reported by the driver)"""
    if stats.get("unsupported"):
        raise Broken(stats["unsupported"][0])
