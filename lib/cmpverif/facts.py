"""Fact base: merged view over the per-unit files written by cmpfacts, plus the
AST/CFG helpers every rule uses (node walks, canonical printing, dominators,
must-facts G1, depends-on closure G3, who-may-write G7)."""
import re
import json
import os
from collections import defaultdict

from .build import Broken

NONCHILD_KEYS = {"t", "from", "callee", "fn", "ct", "vart", "captures", "params"}
TRANSPARENT_CASTS = {"NoOp", "LValueToRValue", "DerivedToBase", "UncheckedDerivedToBase", "ConstructorConversion",
                     "UserDefinedConversion", "ArrayToPointerDecay", "FunctionToPointerDecay"}


def children(n):
    """Direct AST children of a node (in evaluation-agnostic, stable order)."""
    out = []
    if not isinstance(n, dict):
        return out
    if n.get("k") == "decl":
        for v in n.get("vars", []):
            if isinstance(v.get("init"), dict):
                out.append(v["init"])
        return out
    for key, val in n.items():
        if key in NONCHILD_KEYS:
            continue
        if isinstance(val, dict) and "k" in val:
            out.append(val)
        elif isinstance(val, list):
            for x in val:
                if isinstance(x, dict) and "k" in x:
                    out.append(x)
    return out


def walk(n, into_lambda=True):
    """Pre-order walk over all nodes below (and including) n."""
    stack = [n]
    while stack:
        x = stack.pop()
        if not isinstance(x, dict) or "k" not in x:
            continue
        yield x
        if x.get("k") == "lambda" and not into_lambda:
            continue
        stack.extend(reversed(children(x)))


def strip(n):
    """Skip value-preserving wrappers: non-converting casts."""
    while isinstance(n, dict) and n.get("k") == "cast" and n.get("ck") in TRANSPARENT_CASTS:
        n = n["e"]
    return n


def strip_all_casts(n):
    """Skip every cast (integral conversions too)."""
    while isinstance(n, dict) and n.get("k") == "cast":
        n = n["e"]
    return n


def const_value(n):
    """Integer constant value of an expression when the compiler folded it."""
    n = strip(n)
    if isinstance(n, dict):
        if "cv" in n:
            return n["cv"]
        if "cvs" in n:
            return int(n["cvs"])
    return None


def callee_name(n):
    if isinstance(n, dict) and n.get("k") in ("call", "construct"):
        c = n.get("callee") or {}
        return c.get("name")
    return None


def is_call_to(n, *names):
    nm = callee_name(n)
    return nm is not None and nm in names


def canon(n):
    """Canonical text of an expression over resolved declarations (used for
    'resolved-declaration equality' and in reports)."""
    if n is None:
        return "<none>"
    if not isinstance(n, dict):
        return str(n)
    k = n.get("k")
    if k == "lit":
        if n.get("null"):
            return "nullptr"
        if "str" in n:
            return json.dumps(n["str"])
        if "cv" in n:
            return str(n["cv"])
        if "cvs" in n:
            return n["cvs"]
        return str(n.get("cvf"))
    if k == "ref":
        if n.get("dk") == "enumerator":
            return n["decl"]
        return n.get("decl") or n.get("name")
    if k == "member":
        if n.get("dk") == "field":
            b = n.get("base")
            if isinstance(b, dict) and b.get("k") == "this":
                return "this->" + n["name"]
            return canon(b) + ("->" if n.get("arrow") else ".") + n["name"]
        return canon(n.get("base")) + "." + n.get("name", "?")
    if k == "this":
        return "this"
    if k == "call":
        c = n.get("callee") or {}
        nm = c.get("name") or "<indirect>"
        args = ", ".join(canon(a) for a in n.get("args", []))
        if "obj" in n:
            o = n["obj"]
            if isinstance(o, dict) and o.get("k") == "this":
                return "%s(%s)" % (nm, args)
            return "%s.%s(%s)" % (canon(o), nm, args)
        return "%s(%s)" % (nm, args)
    if k == "construct":
        return "%s{%s}" % (n.get("rec"), ", ".join(canon(a) for a in n.get("args", [])))
    if k == "un":
        op = n["op"]
        if op.startswith("post"):
            return "(%s%s)" % (canon(n["e"]), op[4:])
        if op.startswith("pre"):
            return "(%s%s)" % (op[3:], canon(n["e"]))
        return "(%s%s)" % (op, canon(n["e"]))
    if k in ("bin", "assign"):
        return "(%s %s %s)" % (canon(n["l"]), n["op"], canon(n["r"]))
    if k == "cassign":
        return "(%s %s= %s)" % (canon(n["l"]), n["op"], canon(n["r"]))
    if k == "cond":
        return "(%s ? %s : %s)" % (canon(n["c"]), canon(n["a"]), canon(n["b"]))
    if k == "cast":
        if n.get("ck") in TRANSPARENT_CASTS:
            return canon(n["e"])
        if n.get("explicit"):
            return "(%s)%s" % ((n.get("t") or {}).get("s", "?"), canon(n["e"]))
        return canon(n["e"])
    if k == "sizeof":
        return "sizeof(%s)" % n.get("of")
    if k == "initlist":
        return "{%s}" % ", ".join(canon(a) for a in n.get("inits", []))
    if k == "subscript":
        return "%s[%s]" % (canon(n["base"]), canon(n["idx"]))
    if k == "new":
        return "new %s" % n.get("alloct")
    if k == "lambda":
        return "<lambda>"
    if k == "zeroinit":
        return "{}"
    if k == "stdinitlist":
        return canon(n.get("e"))
    if k == "return":
        return "return %s" % canon(n.get("e"))
    if k == "unresolved":
        return "<unresolved %s>" % n.get("name")
    return "<%s>" % k


def expand(fn, e, depth=3, keep=()):
    """Expression e with single-definition locals replaced by their initialiser (a new tree;
    node ids of replaced sub-trees are those of the initialiser)."""
    defs = local_defs(fn)

    def stable(init):
        """the initialiser reads no local or parameter that the function assigns elsewhere, so its
        value at the definition is its value at every later use"""
        for y in walk(init):
            if y.get("k") == "ref" and y.get("dk") in ("local", "param"):
                n = len(defs.get(y["decl"], []))
                if n > 1 or (n == 1 and y.get("dk") == "param"):
                    return False
        return True

    def go(x, d):
        if isinstance(x, list):
            return [go(y, d) for y in x]
        if not isinstance(x, dict):
            return x
        if x.get("k") == "ref" and x.get("dk") == "local" and d > 0 and x.get("decl") not in keep:
            ds = defs.get(x["decl"], [])
            if len(ds) == 1 and stable(ds[0]):
                return go(ds[0], d - 1)
        if x.get("k") == "call" and (x.get("callee") or {}).get("nm") == "operator()" and "obj" in x and not x.get("args") and d > 0:
            # call of a parameterless local lambda whose body is a single return: inline the returned expression
            o = strip_all_casts(x["obj"])
            if o.get("k") == "ref" and o.get("dk") == "local":
                ds = defs.get(o["decl"], [])
                if len(ds) == 1:
                    lam = strip_all_casts(ds[0])
                    while lam.get("k") == "construct" and len(lam.get("args", [])) == 1:
                        lam = strip_all_casts(lam["args"][0])
                    if lam.get("k") == "lambda" and not lam.get("params"):
                        body = lam.get("body") or {}
                        stmts = body.get("body", []) if body.get("k") == "compound" else [body]
                        if len(stmts) == 1 and stmts[0].get("k") == "return" and isinstance(stmts[0].get("e"), dict):
                            return go(stmts[0]["e"], d - 1)
        if "k" not in x:
            return x
        out = {}
        for k2, v in x.items():
            if k2 in NONCHILD_KEYS:
                out[k2] = v
            elif isinstance(v, (dict, list)):
                out[k2] = go(v, d)
            else:
                out[k2] = v
        return out
    return go(e, depth)


def xcanon(fn, e, depth=3, keep=()):
    """canon() after expanding single-definition locals."""
    return canon(strip_all_casts(expand(fn, e, depth, keep)))


PASS_THROUGH_CALLS = {"std::move", "std::forward", "std::to_string", "std::basic_string_view::basic_string_view"}


def flows_unchanged(fn, e, source_callee):
    """True when expression e is the result of `source_callee` passed on unchanged: only casts,
    copies, std::move / std::to_string and single-definition locals lie between them
    (no arithmetic, no other call)."""
    x = strip_all_casts(expand(fn, e))
    guard = 0
    while isinstance(x, dict) and guard < 12:
        guard += 1
        k = x.get("k")
        if k == "call":
            nm = callee_name(x)
            if nm == source_callee:
                return True
            if nm in PASS_THROUGH_CALLS and len(x.get("args", [])) == 1:
                x = strip_all_casts(x["args"][0])
                continue
            if (x.get("callee") or {}).get("nm") in ("operator basic_string_view", "operator->", "operator*", "get") and "obj" in x:
                x = strip_all_casts(x["obj"])
                continue
            return False
        if k == "construct" and len(x.get("args", [])) == 1:
            x = strip_all_casts(x["args"][0])
            continue
        if k == "stdinitlist":
            x = strip_all_casts(x.get("e"))
            continue
        return False
    return False


def vector_value_sizes(fn, e, depth=0):
    """Size expressions of a vector-valued expression, one per alternative: vector(n) -> n, vector(p, p + n) -> n, a copy/move of such a
    value, `c ? A : B` -> both.  None when some alternative cannot be read."""
    x = strip_all_casts(e)
    if depth > 4 or not isinstance(x, dict):
        return None
    if x.get("k") == "cond":
        a, b = vector_value_sizes(fn, x["a"], depth + 1), vector_value_sizes(fn, x["b"], depth + 1)
        return None if a is None or b is None else a + b
    if x.get("k") == "construct" and (x.get("rec") or "").startswith("std::vector"):
        args = [a for a in x.get("args", []) if not (strip_all_casts(a).get("k") == "construct" and (strip_all_casts(a).get("rec") or "").startswith("std::allocator"))]
        if len(args) == 1 and (strip_all_casts(args[0]).get("t") or {}).get("k") in ("int",):
            return [args[0]]
        if len(args) == 1:
            return vector_value_sizes(fn, args[0], depth + 1)  # copy / move of a vector value
        if len(args) == 2 and (strip_all_casts(args[0]).get("t") or {}).get("k") == "ptr":
            ln = range_length(fn, args[0], args[1])
            return None if ln is None else [ln]
        if len(args) == 2 and (strip_all_casts(args[0]).get("t") or {}).get("k") == "int":
            return [args[0]]
    return None


def reduce_min(fn, e, fs):
    """`std::min(A, K)` (also through a single-definition local) where the facts fs live at the use already say A <= K is A: a clamp that
    cannot bind.  Returns the operand node, or e unchanged."""
    x = strip_all_casts(e)
    if x.get("k") == "ref" and x.get("dk") == "local":
        ds = local_defs(fn).get(x["decl"], [])
        if len(ds) != 1:
            return e
        x = strip_all_casts(ds[0])
    if not (x.get("k") == "call" and callee_name(x) == "std::min" and len(x.get("args", [])) == 2):
        return e
    a, b = x["args"]
    for keep, other in ((a, b), (b, a)):
        ck, co = xcanon(fn, keep), xcanon(fn, other)
        cv = const_value(strip_all_casts(expand(fn, other)))
        for f in fs:
            if f[0] != "cmp":
                continue
            for l, r, op in ((f[4], f[5], f[2]), (f[5], f[4], _flip_op(f[2]))):
                if xcanon(fn, l) != ck:
                    continue
                cr = const_value(strip_all_casts(expand(fn, r)))
                if op in ("<=", "<", "==") and (xcanon(fn, r) == co or (cv is not None and cr is not None and (cr <= cv if op != "<" else cr - 1 <= cv))):
                    return keep
    return e


def lossy_step(fn, e, source_callee):
    """Companion of flows_unchanged: on the way from the result of `source_callee` to expression e, an integer conversion (explicit, implicit,
    or through the declared type of a local) to a type that cannot hold every value of the getter's return type — narrower, or of the same
    width with the other signedness.  Returns a description of the first such step, or None."""
    x = expand(fn, e)
    seen = []
    guard = 0
    # an integer sink sets the width that arrives anyway: conversions to anything at least that wide lose nothing more (modular arithmetic);
    # for any other sink (text through std::to_string, a wider field) every step has to hold every value of the source
    sink = (e.get("t") or {}) if isinstance(e, dict) else {}
    sink_bits = sink.get("bits") if sink.get("k") in ("int", "enum") else None
    while isinstance(x, dict) and guard < 24:
        guard += 1
        k = x.get("k")
        if k == "cast":
            if x.get("ck") in ("IntegralCast", "BooleanToSignedIntegral", "IntegralToBoolean"):
                seen.append((x.get("t") or {}, x.get("loc")))
            x = x["e"]
            continue
        if k == "paren":
            x = x.get("e")
            continue
        if k == "call":
            nm = callee_name(x)
            if nm == source_callee:
                st = x.get("t") or {}
                if st.get("k") not in ("int", "enum", "bool") or not st.get("bits"):
                    return None
                for t, loc in seen:
                    if t.get("k") not in ("int", "bool") or not t.get("bits"):
                        continue
                    tb = 1 if t.get("k") == "bool" else t["bits"]
                    fits = tb > st["bits"] if (t.get("sg") and not st.get("sg")) else (tb >= st["bits"] and bool(t.get("sg")) == bool(st.get("sg")))
                    if not fits and sink_bits is not None and tb >= sink_bits:
                        fits = True
                    if not fits:
                        return "the %d-bit %s result of %s passes through `%s` on its way" % (
                            st["bits"], "signed" if st.get("sg") else "unsigned", source_callee.split("::")[-1], t.get("s"))
                return None
            if nm in PASS_THROUGH_CALLS and len(x.get("args", [])) == 1:
                x = x["args"][0]
                continue
            if (x.get("callee") or {}).get("nm") in ("operator basic_string_view", "operator->", "operator*", "get") and "obj" in x:
                x = x["obj"]
                continue
            return None
        if k == "construct" and len(x.get("args", [])) == 1:
            x = x["args"][0]
            continue
        if k == "stdinitlist":
            x = x.get("e")
            continue
        return None
    return None


COPY_CALLS = {"memcpy", "memmove", "std::memcpy", "std::memmove", "std::copy_n", "std::copy"}


def copy_args(c):
    """(dst, src, length node or None) of a raw copy call, else None."""
    nm = callee_name(c)
    a = c.get("args", [])
    if nm in ("memcpy", "memmove", "std::memcpy", "std::memmove") and len(a) == 3:
        return a[0], a[1], a[2]
    if nm == "std::copy_n" and len(a) == 3:
        return a[2], a[0], a[1]
    if nm == "std::copy" and len(a) == 3:
        return a[2], a[0], None
    return None


def copy_helper_args(fb, c):
    """(dst, src, length) in the caller's terms when call c goes to an in-repo helper whose whole body
    is one raw copy over its parameters (`void put(v, off, src, n) { memcpy(v.data() + off, src, n); }`)."""
    if fb is None or c.get("k") != "call" or c.get("op") is not None:
        return None
    if "obj" in c and not (c.get("callee") or {}).get("static"):
        return None
    g = fb.resolve_call(c)
    if g is None or g.body is None:
        return None
    body = g.body.get("body", []) if g.body.get("k") == "compound" else [g.body]
    if len(body) != 1:
        return None
    inner = strip_all_casts(body[0]) if body[0].get("k") != "return" else strip_all_casts(body[0].get("e") or {})
    ca = copy_args(inner) if inner.get("k") == "call" else None
    if ca is None or ca[2] is None:
        return None
    args = effective_call(c).get("args", [])
    if len(args) != len(g.params):
        return None
    pd = {p["decl"] for p in g.params}
    for part in ca:
        for x in walk(part):
            if x.get("k") == "ref" and x.get("dk") in ("local", "param") and x.get("decl") not in pd:
                return None
    mapping = {p["decl"]: a for p, a in zip(g.params, args)}
    return tuple(substitute(part, mapping) for part in ca)


def range_copy_args(fn, c):
    """(container node, src, length node or None) when c copies a raw pointer range [p, p + n) into a
    container that allocates for it: v.assign(p, q), v.insert(pos, p, q), vector(p, q).  Else None."""
    a = c.get("args", [])
    rng = None
    if c.get("k") == "call" and "obj" in c:
        nm = (c.get("callee") or {}).get("nm")
        if nm == "assign" and len(a) == 2:
            rng = (a[0], a[1])
        elif nm == "insert" and len(a) == 3:
            rng = (a[1], a[2])
        dst = c.get("obj")
    elif c.get("k") == "construct" and len(a) in (2, 3) and (c.get("rec") or "").startswith("std::") and \
            any(x in (c.get("rec") or "") for x in ("vector", "basic_string", "deque")):
        rng = (a[0], a[1])
        dst = c
    if rng is None:
        return None
    t0 = strip(rng[0]).get("t") or strip_all_casts(rng[0]).get("t") or {}
    t1 = strip(rng[1]).get("t") or strip_all_casts(rng[1]).get("t") or {}
    if t0.get("k") != "ptr" or t1.get("k") != "ptr":
        return None
    return dst, rng[0], range_length(fn, rng[0], rng[1])


class Function:
    """One function definition with lazily built indexes."""

    def __init__(self, raw):
        self.raw = raw
        self.name = raw["name"]
        self.mangled = raw.get("mangled")
        self.loc = raw.get("loc")
        self.file = raw.get("file")
        self.params = raw.get("params", [])
        self.body = raw.get("body")
        self.cfg_raw = raw.get("cfg")
        self.rec = raw.get("rec")
        self._nodes = None
        self._parent = None
        self._cfg = None

    def __repr__(self):
        return "<fn %s @%s>" % (self.name, self.loc)

    @property
    def key(self):
        return self.mangled or (self.name + "(" + ",".join(self.raw.get("ptypes", [])) + ")" +
                                ("<" + ",".join(self.raw.get("targs", [])) + ">" if self.raw.get("targs") else "") +
                                ("[templated@%s]" % self.loc if self.raw.get("templated") else ""))

    def roots(self):
        r = []
        for i in self.raw.get("inits", []) or []:
            if isinstance(i.get("e"), dict):
                r.append(i["e"])
        if self.body:
            r.append(self.body)
        return r

    def _index(self):
        self._nodes = {}
        self._parent = {}
        for root in self.roots():
            stack = [(root, None)]
            while stack:
                x, p = stack.pop()
                if not isinstance(x, dict) or "k" not in x:
                    continue
                self._nodes[x["id"]] = x
                self._parent[x["id"]] = p
                for c in children(x):
                    stack.append((c, x))

    def node(self, nid):
        if self._nodes is None:
            self._index()
        return self._nodes.get(nid)

    def parent(self, n):
        if self._nodes is None:
            self._index()
        return self._parent.get(n["id"])

    def ancestors(self, n):
        p = self.parent(n)
        while p is not None:
            yield p
            p = self.parent(p)

    def nodes(self):
        for r in self.roots():
            for n in walk(r):
                yield n

    def returns(self):
        """Return statements of the function itself (not of nested lambdas)."""
        out = []
        for r in self.roots():
            out.extend(n for n in walk(r, into_lambda=False) if n.get("k") == "return")
        return out

    def calls(self, *names):
        for n in self.nodes():
            if n.get("k") in ("call", "construct"):
                if not names or callee_name(n) in names:
                    yield n

    def line(self, n):
        loc = n.get("loc", "") if isinstance(n, dict) else ""
        return loc

    @property
    def cfg(self):
        if self._cfg is None:
            if not self.cfg_raw:
                raise Broken("no CFG for %s" % self.name)
            self._cfg = CFG(self)
        return self._cfg


class CFG:
    def __init__(self, fn):
        self.fn = fn
        raw = fn.cfg_raw
        self.entry = raw["entry"]
        self.exit = raw["exit"]
        self.blocks = {b["id"]: b for b in raw["blocks"]}
        self.succ = {}
        self.pred = defaultdict(list)
        for b in raw["blocks"]:
            ss = [s for s in b.get("succ", [])]
            self.succ[b["id"]] = ss
            for i, s in enumerate(ss):
                if s is not None:
                    self.pred[s].append((b["id"], i))
        self.block_of = {}
        self.pos_of = {}
        for b in raw["blocks"]:
            for i, e in enumerate(b.get("el", [])):
                if e >= 0 and e not in self.block_of:
                    self.block_of[e] = b["id"]
                    self.pos_of[e] = i
        self._dom = None
        self._pdom = None
        self._reach = None

    # --- which block evaluates a node
    def block_for(self, n):
        """Block in which node n is evaluated (for statements: of its first
        evaluated descendant)."""
        nid = n["id"]
        if nid in self.block_of:
            return self.block_of[nid]
        for d in walk(n):
            if d["id"] in self.block_of:
                return self.block_of[d["id"]]
        # a node that a load-time normalisation put in place of a call / a use (dealias, inline_unnamed_helpers): it is evaluated where
        # the node it replaced is — its closest ancestor that is an element of the graph
        for a in self.fn.ancestors(n):
            if a.get("id") in self.block_of:
                return self.block_of[a["id"]]
        return None

    def branch_leaf(self, bid):
        """The condition whose value selects succ[0] (true) / succ[1] (false)."""
        b = self.blocks[bid]
        if "cond" not in b or b["cond"] < 0:
            return None
        n = self.fn.node(b["cond"])
        while isinstance(n, dict):
            # an expression a normalisation put in place of a call is evaluated in this one block: its && / || are not split over blocks
            x = n
            while isinstance(x, dict) and x.get("k") in ("cast", "paren") and not x.get("inlined_from") and isinstance(x.get("e"), dict):
                x = x["e"]
            if isinstance(x, dict) and x.get("inlined_from"):
                return x
            s = strip(n)
            if s.get("k") == "bin" and s.get("op") in ("&&", "||"):
                n = s["r"]
                continue
            return s
        return n

    def is_cond_branch(self, bid):
        b = self.blocks[bid]
        return b.get("tk") in ("IfStmt", "WhileStmt", "ForStmt", "DoStmt", "ConditionalOperator", "BinaryOperator",
                               "CXXForRangeStmt") and len(self.succ[bid]) == 2 and "cond" in b

    def reachable(self):
        if self._reach is None:
            seen = {self.entry}
            st = [self.entry]
            while st:
                x = st.pop()
                for s in self.succ[x]:
                    if s is not None and s not in seen:
                        seen.add(s)
                        st.append(s)
            self._reach = seen
        return self._reach

    def dominators(self):
        if self._dom is None:
            reach = self.reachable()
            dom = {b: set(reach) for b in reach}
            dom[self.entry] = {self.entry}
            changed = True
            order = sorted(reach, reverse=True)
            while changed:
                changed = False
                for b in order:
                    if b == self.entry:
                        continue
                    ps = [p for p, _ in self.pred[b] if p in reach]
                    new = set(reach)
                    for p in ps:
                        new &= dom[p]
                    new = new | {b}
                    if new != dom[b]:
                        dom[b] = new
                        changed = True
            self._dom = dom
        return self._dom

    def postdominators(self):
        if self._pdom is None:
            reach = self.reachable()
            pdom = {b: set(reach) for b in reach}
            pdom[self.exit] = {self.exit}
            changed = True
            while changed:
                changed = False
                for b in sorted(reach):
                    if b == self.exit:
                        continue
                    ss = [s for s in self.succ[b] if s is not None and s in reach]
                    if not ss:
                        new = {b}
                    else:
                        new = set(reach)
                        for s in ss:
                            new &= pdom[s]
                        new = new | {b}
                    if new != pdom[b]:
                        pdom[b] = new
                        changed = True
            self._pdom = pdom
        return self._pdom

    def dominates(self, a, b):
        return a in self.dominators().get(b, set())

    def paths(self, start, stop_pred=None, limit=20000):
        """Enumerate acyclic paths (as lists of (block, succ-index)) from `start`
        until exit or until stop_pred(block) is true (block included)."""
        out = []
        stack = [(start, [], {start})]
        while stack:
            b, path, seen = stack.pop()
            if len(out) > limit:
                raise Broken("path explosion in %s" % self.fn.name)
            if b == self.exit or (stop_pred and path and stop_pred(b)):
                out.append(path + [(b, None)])
                continue
            ss = self.succ[b]
            if not ss:
                out.append(path + [(b, None)])
                continue
            for i, s in enumerate(ss):
                if s is None:
                    continue
                if s in seen and not (stop_pred and stop_pred(s)):
                    continue
                stack.append((s, path + [(b, i)], seen | {s}))
        return out


class FactBase:
    def __init__(self, facts_dir, meta):
        self.dir = facts_dir
        self.meta = meta
        self.root = meta["root"]
        self.units = []
        self.functions = {}
        self.by_name = defaultdict(list)
        self.records = {}
        self.enums = {}
        self.statics = {}
        self.odr_conflicts = []
        for f in sorted(os.listdir(facts_dir)):
            if not f.endswith(".json") or f == "META.json":
                continue
            with open(os.path.join(facts_dir, f)) as fh:
                u = json.load(fh)
            self.units.append(u["unit"])
            for r in u["records"]:
                old = self.records.get(r["name"])
                if old is None:
                    self.records[r["name"]] = r
                elif (old["size"], [(x["name"], x["offset_bits"]) for x in old["fields"]]) != \
                        (r["size"], [(x["name"], x["offset_bits"]) for x in r["fields"]]):
                    self.odr_conflicts.append(("record", r["name"], u["unit"]))
            for e in u["enums"]:
                self.enums.setdefault(e["name"], e)
            for s in u["statics"]:
                k = s.get("mangled") or s["name"]
                old = self.statics.get(k)
                if old is None or (not old.get("has_definition") and s.get("has_definition")):
                    s["_unit"] = u["unit"]
                    self.statics[k] = s
            for raw in u["functions"]:
                fn = Function(raw)
                fn.fb = self
                fn.unit = u["unit"]
                k = fn.key
                old = self.functions.get(k)
                if old is None:
                    self.functions[k] = fn
                    self.by_name[fn.name].append(fn)
                    if fn.raw.get("inrepo"):
                        try:
                            self.dealiased = getattr(self, "dealiased", 0) + dealias(fn)
                        except Broken:
                            pass
                else:
                    if old.loc != fn.loc or old.raw.get("nnodes") != fn.raw.get("nnodes"):
                        self.odr_conflicts.append(("function", fn.name, u["unit"]))

    # ------------------------------------------------------------ lookups
    def fns(self, name, templated=None):
        out = self.by_name.get(name, [])
        if templated is not None:
            out = [f for f in out if bool(f.raw.get("templated")) == templated]
        return out

    def fn(self, name, nparams=None, const=None):
        c = [f for f in self.by_name.get(name, []) if not f.raw.get("templated")]
        if nparams is not None:
            c = [f for f in c if len(f.params) == nparams]
        if const is not None:
            c = [f for f in c if bool(f.raw.get("const")) == const]
        if len(c) != 1:
            raise Broken("anchor %s: expected exactly one definition, found %d" % (name, len(c)))
        return c[0]

    def fn_opt(self, name, nparams=None, const=None):
        try:
            return self.fn(name, nparams, const)
        except Broken:
            return None

    def payload_buffers(self):
        """Qualified names and plain names of the byte-vector member that holds a payload's bytes
        (the std::vector<uint8_t> field of ASAM::CMP::Payload and of TECMP::Payload), found by type."""
        if getattr(self, "_pbuf", None) is None:
            q, n = set(), set()
            for rec in ("ASAM::CMP::Payload", "TECMP::Payload"):
                r = self.records.get(rec)
                if r is None:
                    continue
                fs = [f for f in r["fields"] if f["t"]["s"].startswith("std::vector<unsigned char")]
                if len(fs) != 1:
                    raise Broken("%s: expected exactly one byte-vector member (the payload buffer), found %d" % (rec, len(fs)))
                q.add(fs[0]["qname"])
                n.add(fs[0]["name"])
            if not q:
                raise Broken("payload buffer member not found")
            self._pbuf = (q, n)
        return self._pbuf

    def is_payload_buffer(self, node):
        """node is a member expression naming the payload buffer of this / another payload object"""
        node = strip_all_casts(node) if isinstance(node, dict) else {}
        return node.get("k") == "member" and (node.get("field") in self.payload_buffers()[0] or
                                              (node.get("field") is None and node.get("name") in self.payload_buffers()[1]))

    def mentions_payload_buffer(self, text):
        return any(("->" + n) in text or ("." + n) in text or text.startswith(n) for n in self.payload_buffers()[1])

    def record(self, name):
        r = self.records.get(name)
        if r is None:
            raise Broken("anchor record %s not found" % name)
        return r

    def enum(self, name):
        e = self.enums.get(name)
        if e is None:
            raise Broken("anchor enum %s not found" % name)
        return e

    def field(self, rec, name):
        for f in self.record(rec)["fields"]:
            if f["name"] == name:
                return f
        raise Broken("anchor field %s::%s not found" % (rec, name))

    def all_functions(self, concrete=True):
        for f in self.functions.values():
            if concrete and f.raw.get("templated"):
                continue
            yield f

    def derived_from(self, base):
        """Names of records that (transitively) derive from `base`."""
        out = set()
        changed = True
        while changed:
            changed = False
            for r in self.records.values():
                if r["name"] in out:
                    continue
                for b in r["bases"]:
                    if b.get("name") == base or b.get("name") in out:
                        out.add(r["name"])
                        changed = True
                        break
        return out

    def bases_of(self, name):
        out = []
        st = [name]
        while st:
            x = st.pop()
            r = self.records.get(x)
            if not r:
                continue
            for b in r["bases"]:
                if b.get("name") and b["name"] not in out:
                    out.append(b["name"])
                    st.append(b["name"])
        return out

    # ------------------------------------------------------------ call graph
    def resolve_call(self, n):
        """Function definition(s) a call/construct node may invoke (direct calls
        only; virtual calls are resolved to the static callee)."""
        c = n.get("callee") or {}
        m = c.get("mangled")
        if m and m in self.functions:
            return self.functions[m]
        nm = c.get("name")
        if not nm:
            return None
        if c.get("nm") in ("try_emplace", "emplace", "emplace_back", "emplace_hint") and "obj" in n:
            # in-place construction of the container's mapped/element type from the trailing arguments
            ot = (strip(n["obj"]).get("t") or {})
            ta = ot.get("targs") or []
            nargs = len(n.get("args", []))
            rec = None
            if c["nm"] == "emplace_back" and ta:
                rec, k = ta[0], nargs
            elif len(ta) >= 2:
                rec, k = ta[1], nargs - (2 if c["nm"] == "emplace_hint" else 1)
            if rec:
                ctors = [f for f in self.by_name.get(rec + "::" + rec.split("::")[-1], []) if not f.raw.get("templated") and len(f.params) == k]
                if ctors:
                    return ctors[0]
            return None
        if nm in ("std::make_unique", "std::make_shared") and c.get("targs"):
            # constructs targs[0] from the arguments: resolve to that constructor
            rec = c["targs"][0]
            ctors = [f for f in self.by_name.get(rec + "::" + rec.split("::")[-1], []) if not f.raw.get("templated")]
            nargs = len(n.get("args", []))
            c2 = [f for f in ctors if len(f.params) == nargs]
            if len(c2) > 1:
                # prefer the constructor whose parameter kinds match the argument kinds
                def kinds(f):
                    return [p["t"].get("k") for p in f.params]
                ak = [(strip(a).get("t") or {}).get("k") for a in n.get("args", [])]
                c3 = [f for f in c2 if kinds(f) == ak]
                c2 = c3 or c2
            return c2[0] if c2 else None
        cands = [f for f in self.by_name.get(nm, []) if not f.raw.get("templated")]
        pt = c.get("ptypes")
        cands2 = [f for f in cands if f.raw.get("ptypes") == pt and
                  (c.get("const") is None or bool(f.raw.get("const")) == bool(c.get("const")))]
        if c.get("targs"):
            cands3 = [f for f in cands2 if f.raw.get("targs") == c.get("targs")]
            if cands3:
                cands2 = cands3
        if len(cands2) >= 1:
            return cands2[0]
        return None

    def reachable_from(self, roots):
        """Functions (definitions under the root) reachable through direct calls
        and constructions from the given Function objects."""
        seen = {}
        st = list(roots)
        typed_done = set()

        def special_members(rec):
            """user-provided members a standard container or smart pointer may call on rec:
            copy/move constructors, assignment, equality, call operator (hash/compare functors)."""
            out = []
            short = rec.split("::")[-1]
            for nm in (rec + "::" + short, rec + "::operator=", rec + "::operator==", rec + "::operator()", rec + "::operator<",
                       rec.rsplit("::", 1)[0] + "::operator==" if "::" in rec else "operator==", rec.rsplit("::", 1)[0] + "::swap" if "::" in rec else "swap"):
                for g in self.by_name.get(nm, []):
                    if g.raw.get("templated"):
                        continue
                    if nm.endswith("::" + short) and len(g.params) != 1:
                        continue
                    if (nm.endswith("::operator==") or nm.endswith("::swap")) and g.rec != rec and not any(rec in p["t"]["s"] for p in g.params):
                        continue
                    out.append(g)
            return out
        while st:
            f = st.pop()
            if f.key in seen:
                continue
            seen[f.key] = f
            for n in f.nodes():
                t = n.get("t") or {}
                for r in list(t.get("targs") or []) + ([t.get("rec")] if t.get("rec") else []):
                    r = (r or "").replace("const ", "").strip()
                    if r in self.records and (f.key, r) not in typed_done and (t.get("targs") or n.get("k") in ("construct",)):
                        typed_done.add((f.key, r))
                        for g in special_members(r):
                            if g.key not in seen:
                                st.append(g)
                if n.get("k") in ("call", "construct"):
                    g = self.resolve_call(n)
                    if g is not None and g.key not in seen:
                        st.append(g)
                elif n.get("k") == "ref" and n.get("dk") == "function":
                    g = self.resolve_call({"callee": n.get("fn")})
                    if g is not None and g.key not in seen:
                        st.append(g)
        return seen


def effective_call(n):
    """A call node whose `args` line up with the parameters of the function resolve_call
    returns: for emplace-style calls the leading key/hint argument is dropped."""
    c = n.get("callee") or {}
    if c.get("nm") in ("try_emplace", "emplace", "emplace_hint") and "obj" in n:
        m = dict(n)
        m["args"] = n.get("args", [])[(2 if c["nm"] == "emplace_hint" else 1):]
        return m
    return n


_VOCAB = None


def rule_vocabulary():
    """Every identifier the rule modules, the engine and the spec tables mention.  A function whose name is in it may be an anchor or a
    role some rule binds by name; a function whose name is not cannot be."""
    global _VOCAB
    if _VOCAB is None:
        import glob
        import os
        import re
        here = os.path.dirname(os.path.dirname(os.path.dirname(os.path.abspath(__file__))))
        import ast
        toks = set()
        for fpath in glob.glob(os.path.join(here, "spec/*.json")):
            with open(fpath, encoding="utf-8", errors="replace") as fh:
                toks.update(re.findall(r"[A-Za-z_][A-Za-z0-9_]*", fh.read()))
        for pat in ("rules/*.py", "lib/cmpverif/*.py"):
            for fpath in glob.glob(os.path.join(here, pat)):
                with open(fpath, encoding="utf-8", errors="replace") as fh:
                    src = fh.read()
                try:
                    tree = ast.parse(src)
                except SyntaxError:
                    toks.update(re.findall(r"[A-Za-z_][A-Za-z0-9_]*", src))
                    continue
                # string literals of the code (anchor names, callee names, keys) — not comments, not docstrings, not messages
                doc = set()
                for node in ast.walk(tree):
                    if isinstance(node, (ast.Module, ast.FunctionDef, ast.ClassDef)) and node.body and isinstance(node.body[0], ast.Expr) and \
                            isinstance(getattr(node.body[0], "value", None), ast.Constant) and isinstance(node.body[0].value.value, str):
                        doc.add(id(node.body[0].value))
                for node in ast.walk(tree):
                    if isinstance(node, ast.Constant) and isinstance(node.value, str) and id(node) not in doc and len(node.value) < 120 and \
                            node.value.count(" ") < 3:
                        toks.update(re.findall(r"[A-Za-z_][A-Za-z0-9_]*", node.value))
        _VOCAB = toks
    return _VOCAB


def inline_unnamed_helpers(fb, rounds=2):
    """Normalisation applied when the fact base is loaded: a call of a one-line helper (`return <expr>;`, see inline_accessor) that is
    private, protected or file-local and whose name no rule knows — an extracted `clonePayload(x)`, `headerBytesOf(p)`, `roomLeft()` — is
    replaced, in place, by the expression it stands for, so that every rule sees the code as if the helper had not been extracted.
    Helpers the rules do know by name (getHeader(), isSegmentedPacket(), ...) stay calls: the rules look through them where they need to."""
    vocab = rule_vocabulary()

    def candidate(g):
        if g is None or g.body is None or not g.raw.get("inrepo"):
            return False
        short = g.name.split("::")[-1].split("<")[0]
        if short in vocab or short.startswith("operator") or short.startswith("~"):
            return False
        local = "(anon-ns)" in g.name or g.raw.get("access") in ("private", "protected") or (not g.rec and g.raw.get("static"))
        rt = g.raw.get("rett") or {}
        if rt.get("k") == "ptr" and rt.get("prec") and any(z.get("null") for z in g.nodes()):
            return False  # a finder (`T* find(id)`: the element's address or null): read by the container rules as a function of its own
        return bool(local)
    n = 0
    for _ in range(rounds):
        changed = 0
        for fn in list(fb.functions.values()):
            if not fn.raw.get("inrepo") or not fn.body:
                continue
            for x in list(fn.nodes()):
                if x.get("k") != "call" or x.get("inlined_from"):
                    continue
                g = fb.resolve_call(x)
                if not candidate(g) or g.key == fn.key:
                    continue
                y = inline_accessor(fb, x)
                if y is None:
                    continue
                cnt = [0]

                def clone(z):
                    if isinstance(z, list):
                        return [clone(w) for w in z]
                    if not isinstance(z, dict):
                        return z
                    out = {k2: (v2 if k2 in NONCHILD_KEYS else clone(v2)) for k2, v2 in z.items()}
                    if "id" in out and "k" in out:
                        cnt[0] += 1
                        out["id"] = -(2 * 10 ** 7) - abs(x["id"]) * 256 - cnt[0]
                    return out
                new = clone(y)
                keep_id, keep_loc, t = x.get("id"), x.get("loc"), x.get("t")
                x.clear()
                x.update({"k": "cast", "ck": "NoOp", "id": keep_id, "t": t or new.get("t"), "e": new, "inlined_from": g.name})
                if keep_loc:
                    x["loc"] = keep_loc
                changed += 1
            if changed:
                fn._nodes = None
                fn._parent = None
                if hasattr(fn, "_local_defs_cache"):
                    del fn._local_defs_cache
        n += changed
        if not changed:
            break
    fb.inlined_helpers = n
    return n


_LOCAL_DECL = re.compile(r"^(i\d+\.)*l\d+:")


def is_local_decl(d):
    """decl key of a local variable (`l3:name`), also one that came in with an inlined helper (`i2.l3:name`)"""
    return isinstance(d, str) and bool(_LOCAL_DECL.match(d))


def load(root="/repo", config="default", extra_flags=()):
    from . import build
    d, meta = build.facts_dir(root, config, extra_flags)
    fb = FactBase(d, meta)
    if fb.odr_conflicts:
        raise Broken("declarations differ between units (ODR hazard): %r" % fb.odr_conflicts[:5])
    inline_unnamed_helpers(fb)
    from . import inline as _inline
    try:
        _inline.inline_private_helpers(fb)
        _inline.alias_staging_buffers(fb)
        _inline.scalarise_aggregates(fb)
    except Broken:
        raise
    return fb


# ---------------------------------------------------------------- generic analyses

def reads(n):
    """Set of declaration keys an expression reads: local/param decl ids, field
    qualified names, global names."""
    out = set()
    for x in walk(n):
        k = x.get("k")
        if k == "ref" and x.get("dk") in ("param", "local", "global", "staticlocal", "staticmember"):
            out.add(x["decl"])
        elif k == "member" and x.get("dk") == "field":
            out.add(x["field"])
    return out


def called_names(n):
    out = set()
    for x in walk(n):
        if x.get("k") in ("call", "construct"):
            nm = callee_name(x)
            if nm:
                out.add(nm)
    return out


def lvalue_root(n):
    """Declaration key written by an lvalue expression (x, this->f, x.f, *p, p[i])."""
    n = strip_all_casts(n)
    while isinstance(n, dict):
        k = n.get("k")
        if k == "ref":
            return n.get("decl")
        if k == "member" and n.get("dk") == "field":
            return n["field"]
        if k == "subscript":
            n = strip_all_casts(n["base"])
            continue
        if k == "un" and n.get("op") == "*":
            n = strip_all_casts(n["e"])
            continue
        if k == "call" and "obj" in n and (n.get("callee") or {}).get("nm") in ("operator[]", "back", "front", "at",
                                                                             "data", "operator*", "operator->", "get"):
            n = strip_all_casts(n["obj"])
            continue
        return None
    return None


MUTATING_METHODS = {"push_back", "emplace_back", "pop_back", "clear", "resize", "reserve", "erase", "insert", "emplace",
                    "assign", "swap", "operator=", "operator[]", "reset", "shrink_to_fit", "insert_or_assign",
                    "try_emplace", "rehash", "remove_suffix", "remove_prefix", "operator+=", "append"}


def writes_of(fn):
    """G7: list of (decl-key, kind, node) for every write in a function:
    assignment, compound assignment, ++/--, mutating container call, address-taken."""
    out = []
    for n in fn.nodes():
        k = n.get("k")
        if k in ("assign", "cassign"):
            r = lvalue_root(n["l"])
            if r:
                out.append((r, k, n))
        elif k == "un" and n.get("op") in ("pre++", "pre--", "post++", "post--"):
            r = lvalue_root(n["e"])
            if r:
                out.append((r, n["op"], n))
        elif k == "call" and "obj" in n:
            c = n.get("callee") or {}
            nm = c.get("nm")
            if nm in MUTATING_METHODS and not c.get("const"):
                r = lvalue_root(n["obj"])
                if r:
                    out.append((r, "call:" + nm, n))
        elif k == "un" and n.get("op") == "&":
            r = lvalue_root(n["e"])
            if r:
                out.append((r, "addr", n))
    # constructor member initialisers
    for i in fn.raw.get("inits", []) or []:
        if i.get("field"):
            out.append((i["field"], "ctor-init", i.get("e")))
    return out


def range_length(fn, first, last):
    """Length node n when the iterator pair (first, last) is (p, p + n) for the same pointer
    expression p (after expanding single-definition locals); else None."""
    want = xcanon(fn, first)
    for b in (strip_all_casts(last), strip_all_casts(expand(fn, last, 1)), strip_all_casts(expand(fn, last))):
        if b.get("k") == "bin" and b.get("op") == "+":
            for base, n in ((b["l"], b["r"]), (b["r"], b["l"])):
                if xcanon(fn, base) == want and ((strip(base).get("t") or {}).get("k") == "ptr" or (strip_all_casts(base).get("t") or {}).get("k") == "ptr"):
                    return n
    return None


def vector_sizing(fn, field=None):
    """Sizing operations on vector members in fn: [(field, kind, call node, length node)] with kind
    'set' (size becomes length: resize(n), assign(p, p+n), assign(n, v)) or 'grow' (size increases
    by length: insert(end(), p, p+n), resize(size() + n), push_back/emplace_back -> length None = 1)."""
    out = []
    for n in fn.nodes():
        if n.get("k") != "call" or "obj" not in n:
            continue
        o = strip_all_casts(n["obj"])
        fld = o.get("field") if o.get("k") == "member" else None
        if fld is None or (field is not None and fld != field):
            continue
        nm = (n.get("callee") or {}).get("nm")
        args = n.get("args", [])
        if nm == "resize" and args:
            out.append((fld, "set", n, args[0]))
        elif nm == "assign" and len(args) == 2:
            ln = range_length(fn, args[0], args[1])
            if ln is not None:
                out.append((fld, "set", n, ln))
            elif (strip(args[0]).get("t") or {}).get("k") == "int":
                out.append((fld, "set", n, args[0]))
            else:
                out.append((fld, "unknown", n, None))
        elif nm == "insert" and len(args) == 3:
            pos = strip_all_casts(args[0])
            while pos.get("k") == "construct" and len(pos.get("args", [])) == 1 and "iterator" in (pos.get("rec") or ""):
                pos = strip_all_casts(pos["args"][0])  # iterator -> const_iterator conversion
            at_end = pos.get("k") == "call" and (pos.get("callee") or {}).get("nm") in ("end", "cend") and \
                strip_all_casts(pos.get("obj", {})).get("field") == fld
            ln = range_length(fn, args[1], args[2])
            out.append((fld, "grow" if at_end and ln is not None else "unknown", n, ln))
        elif nm in ("push_back", "emplace_back"):
            out.append((fld, "grow", n, None))
    return out


def local_defs(fn):
    """decl id -> list of expressions assigned to that local/param anywhere in fn."""
    defs = defaultdict(list)
    for n in fn.nodes():
        k = n.get("k")
        if k == "decl":
            for v in n.get("vars", []):
                if isinstance(v.get("init"), dict):
                    defs[v["decl"]].append(v["init"])
        elif k in ("assign", "cassign"):
            l = strip_all_casts(n["l"])
            if l.get("k") == "ref" and l.get("dk") in ("local", "param"):
                defs[l["decl"]].append(n["r"])
                if k == "cassign":
                    defs[l["decl"]].append(n["l"])
        elif k == "call" and n.get("op") == "=" and "obj" in n:
            l = strip_all_casts(n["obj"])
            if l.get("k") == "ref" and l.get("dk") in ("local", "param"):
                for a in n.get("args", []):
                    defs[l["decl"]].append(a)
        elif k == "rangefor":
            if n.get("var") and isinstance(n.get("range"), dict):
                defs[n["var"]].append(n["range"])
        elif k == "un" and n.get("op") in ("pre++", "post++", "pre--", "post--"):
            l = strip_all_casts(n["e"])
            if l.get("k") == "ref" and l.get("dk") in ("local", "param"):
                defs[l["decl"]].append(n)
    return defs


def depends(fn, n, depth=6):
    """G3: flow-insensitive dependence closure of expression n inside fn.
    Returns (set of decl keys incl. fields, set of callee names)."""
    defs = local_defs(fn)
    seen_decl = set()
    seen_calls = set()
    work = [n]
    seen_nodes = set()
    while work:
        x = work.pop()
        if not isinstance(x, dict) or x.get("id") in seen_nodes:
            continue
        seen_nodes.add(x.get("id"))
        seen_calls |= called_names(x)
        for d in reads(x):
            if d not in seen_decl:
                seen_decl.add(d)
                for e in defs.get(d, []):
                    work.append(e)
    return seen_decl, seen_calls


# ------------------------------------------------------------------ G1 must-facts

def _neg_op(op):
    return {"<": ">=", ">=": "<", ">": "<=", "<=": ">", "==": "!=", "!=": "=="}[op]


def _flip_op(op):
    return {"<": ">", ">": "<", "<=": ">=", ">=": "<=", "==": "==", "!=": "!="}[op]


def atom_of(cond, polarity):
    """Normalise a branch condition + outcome into a fact tuple.
    ('cmp', canon_lhs, op, canon_rhs, lhs_node, rhs_node) for comparisons,
    ('truth', canon, bool, node) otherwise."""
    c = strip(cond)
    neg = False
    while c.get("k") == "un" and c.get("op") == "!":
        neg = not neg
        c = strip(c["e"])
    pol = polarity != neg
    if c.get("k") == "bin" and c.get("op") in ("<", "<=", ">", ">=", "==", "!="):
        op = c["op"] if pol else _neg_op(c["op"])
        return ("cmp", canon(c["l"]), op, canon(c["r"]), c["l"], c["r"])
    if c.get("k") == "call" and c.get("op") in ("==", "!=") and len(c.get("args", [])) + (1 if "obj" in c else 0) == 2:
        ops = ([c["obj"]] if "obj" in c else []) + c.get("args", [])
        op = c["op"] if pol else _neg_op(c["op"])
        return ("cmp", canon(ops[0]), op, canon(ops[1]), ops[0], ops[1])
    return ("truth", canon(c), pol, c)


def substitute(e, mapping):
    """Copy of expression tree e with references to the declarations in mapping replaced by the mapped nodes."""
    def go(x):
        if isinstance(x, list):
            return [go(y) for y in x]
        if not isinstance(x, dict):
            return x
        if x.get("k") == "ref" and x.get("decl") in mapping:
            return mapping[x["decl"]]
        if "k" not in x:
            return x
        return {k2: (v if k2 in NONCHILD_KEYS or not isinstance(v, (dict, list)) else go(v)) for k2, v in x.items()}
    return go(e)


def inline_predicate(fb, call):
    """The boolean expression a call to a one-line in-repo predicate stands for — `return <expr over the
    parameters>;` in a free or static function, arguments substituted — or None."""
    if fb is None or call.get("k") != "call" or call.get("op") is not None:
        return None
    if "obj" in call and not (call.get("callee") or {}).get("static"):
        return None
    g = fb.resolve_call(call)
    if g is None or g.body is None or (g.raw.get("rett") or {}).get("k") != "bool":
        return None
    body = g.body.get("body", []) if g.body.get("k") == "compound" else [g.body]
    if len(body) != 1 or body[0].get("k") != "return" or not isinstance(body[0].get("e"), dict):
        return None
    args = call.get("args", [])
    if len(args) != len(g.params):
        return None
    e = body[0]["e"]
    # only expressions over the parameters (and constants): no state of its own
    pd = {p["decl"] for p in g.params}
    for x in walk(e):
        if x.get("k") == "ref" and x.get("dk") in ("local", "param") and x.get("decl") not in pd:
            return None
        if x.get("k") in ("assign", "cassign") or (x.get("k") == "un" and x.get("op") in ("pre++", "post++", "pre--", "post--")):
            return None
    # an argument with a call in it is evaluated once at the call; substituting it is only sound when it is used (it may be
    # evaluated lazily inside the predicate, which is the same or fewer evaluations of a side-effect-free getter)
    return substitute(e, {p["decl"]: a for p, a in zip(g.params, args)})


def predicate_summary(fb, call, polarity):
    """Atoms that hold whenever a call of a multi-statement in-repo predicate (free / static, bool, no loops, parameters not reassigned)
    returns `polarity`: what every path returning that value has in common — its branch outcomes and the conjuncts of the returned
    expression — with the parameters replaced by the call's arguments.  [] when the callee is not of that shape."""
    if fb is None or call.get("k") != "call" or call.get("op") is not None:
        return []
    if "obj" in call and not (call.get("callee") or {}).get("static"):
        return []
    g = fb.resolve_call(call)
    if g is None or g.body is None or not g.cfg_raw or (g.raw.get("rett") or {}).get("k") != "bool":
        return []
    args = call.get("args", [])
    if len(args) != len(g.params):
        return []
    pd = {q["decl"] for q in g.params}
    for x in g.nodes():
        if x.get("k") in ("while", "for", "do", "rangefor", "switch"):
            return []
        if x.get("k") in ("assign", "cassign") and lvalue_root(x["l"]) in pd:
            return []
    from . import paths as _paths
    mapping = {q["decl"]: a for q, a in zip(g.params, args)}
    common = None
    n = 0
    for pth in _paths.enumerate_paths(g):
        if pth.end != "exit":
            continue
        r = pth.returns()
        if r is None or not isinstance(r.get("e"), dict):
            continue
        cv = const_value(strip_all_casts(pth.value_of(r["e"], before=r["id"])))
        if cv is not None and bool(cv) != polarity:
            continue
        atoms = list(pth.atoms)
        if cv is None:
            atoms += conjuncts(r["e"], polarity, g)
        keyed = {}
        for a in atoms:
            nodes = [a[4], a[5]] if a[0] == "cmp" else [a[3]]
            if any(y.get("k") == "ref" and y.get("dk") == "local" for nd in nodes for y in walk(expand(g, nd))):
                continue  # speaks about a local of the predicate
            if a[0] == "cmp":
                l2, r2 = substitute(expand(g, a[4]), mapping), substitute(expand(g, a[5]), mapping)
                b = ("cmp", canon(l2), a[2], canon(r2), l2, r2)
            else:
                n2 = substitute(expand(g, a[3]), mapping)
                b = ("truth", canon(n2), a[2], n2)
            keyed[b[:3] if b[0] == "truth" else b[:4]] = b
        common = keyed if common is None else {k: v for k, v in common.items() if k in keyed}
        n += 1
        if n > 40:
            return []
    return list((common or {}).values())


def current_definition(fn, ref):
    """For a use `ref` of a local with exactly one definition: that definition's initialiser, provided nothing it
    reads (locals, parameters) is assigned on any path from the definition to this use — so the initialiser still
    describes the current state at the use (flow-sensitive; `expand` is the flow-insensitive, stricter version)."""
    x = strip_all_casts(ref)
    if x.get("k") != "ref" or x.get("dk") != "local" or not fn.cfg_raw:
        return None
    ds = local_defs(fn).get(x["decl"], [])
    if len(ds) != 1:
        return None
    init = ds[0]
    rd = {y["decl"] for y in walk(init) if y.get("k") == "ref" and y.get("dk") in ("local", "param")}
    if not rd:
        return init
    cfg = fn.cfg
    dn = next((n for n in fn.nodes() if n.get("k") == "decl" and any(v.get("decl") == x["decl"] for v in n.get("vars", []))), None)
    if dn is None:
        return None
    db, ub = cfg.block_for(dn), cfg.block_for(x)
    if db is None or ub is None or x.get("id") not in cfg.pos_of or dn.get("id") not in cfg.pos_of:
        return None
    writes = []
    for n in fn.nodes():
        if n.get("k") in ("assign", "cassign") and lvalue_root(n["l"]) in rd:
            writes.append(n)
        elif n.get("k") == "un" and n.get("op") in ("pre++", "post++", "pre--", "post--") and lvalue_root(n["e"]) in rd:
            writes.append(n)
    if not writes:
        return init
    # blocks on a path from the definition to the use that does not pass the definition again
    fwd = set()
    st = [s2 for s2 in cfg.succ[db] if s2 is not None] if db != ub or cfg.pos_of[x["id"]] < cfg.pos_of[dn["id"]] else []
    while st:
        b = st.pop()
        if b in fwd or b == db:
            continue
        fwd.add(b)
        if b == ub:
            continue
        st.extend(s2 for s2 in cfg.succ[b] if s2 is not None)
    # keep only those that can still reach the use
    can = {ub}
    changed = True
    while changed:
        changed = False
        for b in fwd:
            if b not in can and any(s2 in can for s2 in cfg.succ[b] if s2 is not None):
                can.add(b)
                changed = True
    between = (fwd & can) - {ub}
    for w in writes:
        wb = cfg.block_for(w)
        wid = min((y["id"] for y in walk(w) if y.get("id") in cfg.pos_of), default=None)
        wp = cfg.pos_of.get(w.get("id"), cfg.pos_of.get(wid, 0))
        if wb in between:
            return None
        if wb == db and wp > cfg.pos_of[dn["id"]] and (db != ub or wp < cfg.pos_of[x["id"]]):
            return None
        if wb == ub and db != ub and wp < cfg.pos_of[x["id"]]:
            return None
    return init


_SCALAR_KINDS = ("int", "bool", "enum", "ptr")


def dealias(fn):
    """Normalisation: a use of a local that is a plain copy of another scalar local or parameter (`const size_t left = static_cast<size_t>(cur);`)
    is rewritten, in place, into a conversion of the original — wherever that copy still equals the original at the use (nothing the
    initialiser reads is assigned on any path from the definition to the use: current_definition).  The rules then see the code as if
    the copy had never been introduced.  Returns the number of uses rewritten."""
    if not fn.body or not fn.cfg_raw:
        return 0
    cands = {}
    ndefs = {}
    for n in fn.nodes():
        if n.get("k") == "decl":
            for v in n.get("vars", []):
                init, t = v.get("init"), (v.get("t") or {})
                if not isinstance(init, dict) or t.get("ref") or t.get("k") not in _SCALAR_KINDS or v.get("static"):
                    continue
                r = strip_all_casts(init)
                if r.get("k") == "ref" and r.get("dk") in ("local", "param") and (r.get("t") or {}).get("k") in _SCALAR_KINDS and \
                        not (r.get("t") or {}).get("ref") and r.get("decl") != v["decl"]:
                    cands[v["decl"]] = (v, r)
    if not cands:
        return 0
    defs = local_defs(fn)
    cands = {d: vr for d, vr in cands.items() if len(defs.get(d, [])) == 1}
    if not cands:
        return 0
    addr = {lvalue_root(x["e"]) for x in fn.nodes() if x.get("k") == "un" and x.get("op") == "&"}
    uses = {}
    for x in fn.nodes():
        if x.get("k") == "ref" and x.get("decl") in cands:
            uses.setdefault(x["decl"], []).append(x)
    n = 0
    # a copy of a copy: the inner one first, so that the outer one's initialiser already names the original
    order = sorted(cands, key=lambda d: (cands[d][1].get("decl") in cands, d))
    for d in order:
        v = cands[d][0]
        r = strip_all_casts(v["init"])
        if r.get("k") != "ref" or r.get("dk") not in ("local", "param") or r.get("decl") == d:
            continue
        r = dict(r)
        if d in addr or r["decl"] in addr:
            continue
        for x in uses.get(d, []):
            if x.get("k") != "ref" or current_definition(fn, x) is None:
                continue
            # the copy's whole initialiser (conversions included: a narrowing copy stays a narrowing), with fresh node ids
            cnt = [0]

            def clone(y):
                if isinstance(y, list):
                    return [clone(z) for z in y]
                if not isinstance(y, dict):
                    return y
                out = {k2: (v2 if k2 in NONCHILD_KEYS else clone(v2)) for k2, v2 in y.items()}
                if "id" in out and "k" in out:
                    cnt[0] += 1
                    out["id"] = -(10 ** 7) - x["id"] * 64 - cnt[0]
                return out
            newref = clone(v["init"])
            old = dict(x)
            x.clear()
            x.update({"k": "cast", "id": old["id"], "t": v["t"], "e": newref, "ck": "NoOp", "alias": True})
            if old.get("loc"):
                x["loc"] = old["loc"]
            n += 1
        fn._nodes = None
        fn._parent = None
        if hasattr(fn, "_local_defs_cache"):
            del fn._local_defs_cache
    if n:
        fn._nodes = None
        fn._parent = None
        if hasattr(fn, "_local_defs_cache"):
            del fn._local_defs_cache
    return n


def single_return_expr(g):
    """The one expression a function returns when its body is `T a = <expr>; ...; return <expr>;` with every named part defined
    once (the parts substituted into the result); None for any other body."""
    if g is None or g.body is None:
        return None
    body = g.body.get("body", []) if g.body.get("k") == "compound" else [g.body]
    named = {}
    while len(body) > 1 and body[0].get("k") == "decl" and len(body[0].get("vars", [])) == 1 and isinstance(body[0]["vars"][0].get("init"), dict) and \
            not body[0]["vars"][0].get("static"):
        v = body[0]["vars"][0]
        named[v["decl"]] = v["init"]
        body = body[1:]
    if len(body) != 1 or body[0].get("k") != "return" or not isinstance(body[0].get("e"), dict):
        return None
    e = body[0]["e"]
    if named:
        if any(len(ds) != 1 for d, ds in local_defs(g).items() if d in named):
            return None
        for _ in range(len(named)):
            e = substitute(e, named)
    return e


def inline_accessor(fb, call):
    """The expression a call of a one-line accessor stands for: an in-repo function whose body is `return <expr>;`
    — a free/static function, or a const member called on the same object (`this->f(..)` / `f(..)`), so that the
    fields it reads are the caller's own.  Parameters are replaced by the arguments.  None otherwise."""
    if fb is None or call.get("k") != "call" or call.get("op") is not None:
        return None
    c = call.get("callee") or {}
    if "obj" in call:
        o = strip_all_casts(call["obj"])
        if o.get("k") != "this":
            return None
    g = fb.resolve_call(call)
    if g is None or g.body is None:
        return None
    body = g.body.get("body", []) if g.body.get("k") == "compound" else [g.body]
    # `T& a = <expr>; const auto b = <expr>; return <expr>;` — named parts of one expression, each defined once
    named = {}
    while len(body) > 1 and body[0].get("k") == "decl" and len(body[0].get("vars", [])) == 1 and isinstance(body[0]["vars"][0].get("init"), dict) and \
            not body[0]["vars"][0].get("static"):
        v = body[0]["vars"][0]
        named[v["decl"]] = v["init"]
        body = body[1:]
    if len(body) != 1 or body[0].get("k") != "return" or not isinstance(body[0].get("e"), dict):
        return None
    args = effective_call(call).get("args", [])
    if len(args) != len(g.params):
        return None
    e = body[0]["e"]
    if named:
        if any(len(ds) != 1 for d, ds in local_defs(g).items() if d in named):
            return None
        for _ in range(len(named)):
            e = substitute(e, named)
    pd = {p["decl"] for p in g.params}
    pure_std = ("back", "front", "data", "size", "begin", "end", "cbegin", "cend", "empty", "at", "length")
    for x in walk(e):
        if x.get("k") == "ref" and x.get("dk") in ("local", "param") and x.get("decl") not in pd:
            return None
        if x.get("k") in ("assign", "cassign", "lambda") or (x.get("k") == "un" and x.get("op") in ("pre++", "post++", "pre--", "post--")):
            return None
        if "obj" in call and not c.get("const") and x.get("k") == "call":
            # a non-const member counts when its expression cannot change the object: const callees, value accessors of std containers
            # (operator[] of a vector / array / string, not of a map, which inserts)
            cc = x.get("callee") or {}
            nmq = cc.get("name") or ""
            if cc.get("const") or (x.get("op") is not None and "obj" not in x):
                continue
            if nmq.startswith("std::") and (cc.get("nm") in pure_std or (cc.get("nm") == "operator[]" and
                                                                        nmq.split("<")[0] in ("std::vector::operator[]", "std::array::operator[]", "std::basic_string::operator[]"))):
                continue
            if "obj" not in x and not cc.get("rec"):
                continue  # free function
            return None
    return substitute(e, {p["decl"]: a for p, a in zip(g.params, args)})


def inline_accessors(fb, e, depth=2):
    """Copy of e with one-line accessors (see inline_accessor) replaced by their expressions, depth levels deep."""
    if depth <= 0 or fb is None:
        return e

    def go(x):
        if isinstance(x, list):
            return [go(y) for y in x]
        if not isinstance(x, dict) or "k" not in x:
            return x
        if x.get("k") == "call":
            y = inline_accessor(fb, x)
            if y is not None:
                return inline_accessors(fb, y, depth - 1)
        return {k2: (v if k2 in NONCHILD_KEYS or not isinstance(v, (dict, list)) else go(v)) for k2, v in x.items()}
    return go(e)


def inline_lambda_call(fn, call):
    """The expression a call of a local lambda stands for, when the lambda's body is one `return <expr>;`
    (parameters replaced by the arguments; captures refer to the enclosing function's variables as they are)."""
    if call.get("k") != "call" or (call.get("callee") or {}).get("nm") != "operator()" or "obj" not in call:
        return None
    o = strip_all_casts(call["obj"])
    if o.get("k") != "ref" or o.get("dk") != "local":
        return None
    ds = local_defs(fn).get(o["decl"], [])
    if len(ds) != 1:
        return None
    lam = strip_all_casts(ds[0])
    while lam.get("k") == "construct" and len(lam.get("args", [])) == 1:
        lam = strip_all_casts(lam["args"][0])
    if lam.get("k") != "lambda":
        return None
    body = lam.get("body") or {}
    stmts = body.get("body", []) if body.get("k") == "compound" else [body]
    if len(stmts) != 1 or stmts[0].get("k") != "return" or not isinstance(stmts[0].get("e"), dict):
        return None
    prms = lam.get("params", [])
    args = call.get("args", [])
    if len(prms) != len(args):
        return None
    # captured variables must not be reassigned in the enclosing function (by-value captures would otherwise be stale)
    pd = {q["decl"] for q in prms}
    defs = local_defs(fn)
    for x in walk(stmts[0]["e"]):
        if x.get("k") == "ref" and x.get("dk") in ("local", "param") and x.get("decl") not in pd:
            n = len(defs.get(x["decl"], []))
            if n > 1 or (n == 1 and x.get("dk") == "param"):
                return None
        if x.get("k") in ("assign", "cassign"):
            return None
    return substitute(stmts[0]["e"], {q["decl"]: a for q, a in zip(prms, args)})


def conjuncts(e, polarity=True, fn=None, _depth=0):
    """Atoms that must hold when expression e evaluates to `polarity`.  With fn given, boolean locals
    with one stable definition and one-line in-repo predicates are looked through."""
    e = strip(e)
    if e.get("k") == "bin" and e.get("op") == "&&" and polarity:
        return conjuncts(e["l"], True, fn, _depth) + conjuncts(e["r"], True, fn, _depth)
    if e.get("k") == "bin" and e.get("op") == "||" and not polarity:
        return conjuncts(e["l"], False, fn, _depth) + conjuncts(e["r"], False, fn, _depth)
    if e.get("k") == "un" and e.get("op") == "!":
        return conjuncts(e["e"], not polarity, fn, _depth)
    if fn is not None and _depth < 4:
        x = strip_all_casts(e)
        if x.get("k") == "ref" and x.get("dk") == "local" and (x.get("t") or {}).get("k") == "bool":
            y = expand(fn, x, 1)
            if y is not x and strip_all_casts(y).get("k") != "ref":
                return [atom_of(e, polarity)] + conjuncts(y, polarity, fn, _depth + 1)
            y = current_definition(fn, x)  # e.g. `const bool ok = validate(cursor, left);` tested before the cursor moves
            if y is not None:
                return [atom_of(e, polarity)] + conjuncts(y, polarity, fn, _depth + 1)
        if x.get("k") == "call":
            y = inline_predicate(getattr(fn, "fb", None), x)
            if y is None:
                y = inline_lambda_call(fn, x)
            if y is not None:
                return [atom_of(e, polarity)] + conjuncts(y, polarity, fn, _depth + 1)
            # a predicate with several statements (early returns): what all its paths with this result have in common
            ps = predicate_summary(getattr(fn, "fb", None), x, polarity)
            if ps:
                return [atom_of(e, polarity)] + ps
    return [atom_of(e, polarity)]


class MustFacts:
    """Forward must-analysis over a CFG: branch outcomes that hold on every path
    to a block.  A fact is killed by a write to any declaration it reads and — for
    facts that read fields of `this` or call results — by calls that may write them
    (non-const member calls on the same object)."""

    def __init__(self, fn, call_kills=None):
        self.fn = fn
        self.cfg = fn.cfg
        self.call_kills = call_kills
        self._kill_cache = {}
        self.entry_facts = None
        self._solve()

    def _fact_key(self, a):
        return a[:4] if a[0] == "cmp" else a[:3]

    def _fact_reads(self, a):
        if a[0] == "cmp":
            return reads(a[4]) | reads(a[5]), called_names(a[4]) | called_names(a[5])
        return reads(a[3]), called_names(a[3])

    def _this_dependent(self, a):
        """some call inside the fact looks at this object (a member call on this or on one of its members, or an
        argument that mentions this): a static/free function over locals — a validator on (pointer, size) — does not"""
        nodes = [a[4], a[5]] if a[0] == "cmp" else [a[3]]
        for root in nodes:
            for x in walk(root):
                if x.get("k") == "this":
                    return True
                if x.get("k") == "member" and x.get("dk") == "field" and strip(x.get("base", {})).get("k") == "this":
                    return True
                if x.get("k") == "call" and "obj" not in x and (x.get("callee") or {}).get("rec") and not (x.get("callee") or {}).get("static") and \
                        x.get("ck") == "member":
                    return True
        return False

    def _element_kills(self, n):
        """(set of decl keys written, kills_this_fields: bool) for one CFG element."""
        k = n.get("k")
        w = set()
        this_fields = False
        if k in ("assign", "cassign"):
            r = lvalue_root(n["l"])
            if r:
                w.add(r)
        elif k == "un" and n.get("op") in ("pre++", "pre--", "post++", "post--"):
            r = lvalue_root(n["e"])
            if r:
                w.add(r)
        elif k == "call":
            c = n.get("callee") or {}
            if "obj" in n and not c.get("const") and (c.get("inrepo") or c.get("nm") in MUTATING_METHODS):
                r = lvalue_root(n["obj"])
                if r:
                    w.add(r)
                o = strip_all_casts(n["obj"])
                if o.get("k") == "this":
                    this_fields = True
            if n.get("op") == "=" and "obj" in n:
                r = lvalue_root(n["obj"])
                if r:
                    w.add(r)
            # arguments passed by non-const reference / pointer to local
            for a in n.get("args", []):
                a2 = strip_all_casts(a)
                if a2.get("k") == "un" and a2.get("op") == "&":
                    r = lvalue_root(a2["e"])
                    if r:
                        w.add(r)
        elif k == "decl":
            for v in n.get("vars", []):
                w.add(v.get("decl"))
        return w, this_fields

    def _block_transfer(self, bid, facts, upto=None):
        b = self.cfg.blocks[bid]
        cur = dict(facts)
        for e in b.get("el", []):
            if upto is not None and e == upto:
                break
            n = self.fn.node(e) if e >= 0 else None
            if n is None:
                continue
            if n.get("k") not in ("assign", "cassign", "un", "call", "decl"):
                continue
            w, tf = self._element_kills(n)
            if not w and not tf:
                continue
            for key in list(cur):
                rd, cl = self._fact_reads(cur[key])
                if rd & w:
                    del cur[key]
                elif tf and (any("::" in d for d in rd) or (cl and self._this_dependent(cur[key]))):
                    # a non-const call on this may change members / results of calls that look at this object
                    del cur[key]
        return cur

    def _solve(self):
        cfg = self.cfg
        reach = cfg.reachable()
        TOP = None
        inn = {b: TOP for b in reach}
        inn[cfg.entry] = {}
        work = [cfg.entry]
        order = sorted(reach, reverse=True)
        changed = True
        iters = 0
        while changed:
            changed = False
            iters += 1
            if iters > 200:
                raise Broken("must-facts did not converge in %s" % self.fn.name)
            for b in order:
                if b == cfg.entry:
                    continue
                acc = TOP
                for p, idx in cfg.pred[b]:
                    if p not in reach or inn[p] is TOP:
                        continue
                    out = self._block_transfer(p, inn[p])
                    if cfg.is_cond_branch(p):
                        leaf = cfg.branch_leaf(p)
                        if leaf is not None:
                            for a in conjuncts(leaf, idx == 0, self.fn):
                                out[self._fact_key(a)] = a
                    if acc is TOP:
                        acc = out
                    else:
                        acc = {k: v for k, v in acc.items() if k in out}
                if acc is TOP:
                    continue
                if inn[b] is TOP or set(inn[b]) != set(acc):
                    inn[b] = acc
                    changed = True
        self.entry_facts = {b: (inn[b] if inn[b] is not TOP else {}) for b in reach}

    def at(self, n):
        """Facts that hold on every path just before node n is evaluated."""
        bid = self.cfg.block_for(n)
        if bid is None or bid not in self.entry_facts:
            return []
        first = None
        nid = n["id"]
        if nid in self.cfg.block_of:
            first = nid
        else:
            for d in walk(n):
                if d["id"] in self.cfg.block_of and self.cfg.block_of[d["id"]] == bid:
                    # earliest element of this subtree in the block
                    if first is None or self.cfg.pos_of[d["id"]] < self.cfg.pos_of[first]:
                        first = d["id"]
        if first is None:
            for a in self.cfg.fn.ancestors(n):
                if a.get("id") in self.cfg.block_of and self.cfg.block_of[a["id"]] == bid:
                    first = a["id"]  # (a normalised node: positioned at the element it stands in for)
                    break
        # the earliest evaluated descendant
        if first is not None:
            sub = [d["id"] for d in walk(n) if d["id"] in self.cfg.block_of and self.cfg.block_of[d["id"]] == bid]
            if sub:
                first = min(sub, key=lambda i: self.cfg.pos_of[i])
        facts = self._block_transfer(bid, self.entry_facts[bid], upto=first)
        return list(facts.values())

    def at_block_entry(self, bid):
        return list(self.entry_facts.get(bid, {}).values())


def fact_implies_ge(facts, lhs_canon, k):
    """Is `lhs >= k` implied by one of the facts (lhs given in canonical text)?"""
    for a in facts:
        if a[0] != "cmp":
            continue
        _, l, op, r, ln, rn = a
        lv, rv = const_value(ln), const_value(rn)
        if l == lhs_canon and rv is not None:
            if (op == ">=" and rv >= k) or (op == ">" and rv + 1 >= k) or (op == "==" and rv >= k):
                return a
        if r == lhs_canon and lv is not None:
            if (op == "<=" and lv >= k) or (op == "<" and lv + 1 >= k) or (op == "==" and lv >= k):
                return a
    return None
