"""Acyclic CFG path enumeration with branch atoms (G2/G5 helper).

A Path records, in order, the blocks it visits, the outcome atoms of every
conditional / switch edge it takes, and the CFG elements (AST nodes) it evaluates.
`value_of` resolves the value an expression has *on that path* through simple local
assignments and ?: operators.
"""
from .build import Broken
from .facts import callee_name, canon, conjuncts, const_value, strip, strip_all_casts, walk


class Path:
    def __init__(self, fn):
        self.fn = fn
        self.blocks = []
        self.atoms = []  # fact tuples (see facts.atom_of) plus ('switch', canon, value|'default', cases)
        self.decisions = {}  # terminator node id -> succ index taken
        self.end = None  # 'exit' | 'stop'

    def copy(self):
        p = Path(self.fn)
        p.blocks = list(self.blocks)
        p.atoms = list(self.atoms)
        p.decisions = dict(self.decisions)
        return p

    def elems(self):
        cfg = self.fn.cfg
        for b in self.blocks:
            for e in cfg.blocks[b].get("el", []):
                if e >= 0:
                    n = self.fn.node(e)
                    if n is not None:
                        yield b, n

    def calls(self, *names):
        for _, n in self.elems():
            if n.get("k") in ("call", "construct"):
                nm = (n.get("callee") or {}).get("name")
                if not names or nm in names:
                    yield n

    def truth_labels(self):
        """{callee name: polarity} for branch atoms that test a call result."""
        out = {}
        for a in self.atoms:
            if a[0] == "truth":
                n = a[3]
                if n.get("k") == "ref":
                    n = strip(self.value_of(n))
                    neg = False
                    while n.get("k") == "un" and n.get("op") == "!":
                        neg = not neg
                        n = strip(n["e"])
                    if n.get("k") == "call":
                        out[(n.get("callee") or {}).get("name")] = a[2] != neg
                    continue
                if n.get("k") == "call":
                    out[(n.get("callee") or {}).get("name")] = a[2]
            elif a[0] == "cmp":
                # call compared with a constant bool/0
                pass
        return out

    def returns(self):
        """Return statement node this path ends with (or None)."""
        last = None
        for _, n in self.elems():
            if n.get("k") == "return":
                last = n
        return last

    def value_of(self, e, before=None, depth=0):
        """Resolve expression e on this path to a node: follows ?: decisions and the
        last simple assignment to a local before position `before` (element id)."""
        if depth > 12:
            return e
        s = strip(e)
        if s.get("k") == "cond":
            d = self.decisions.get(s["id"])
            if d is not None:
                return self.value_of(s["a"] if d == 0 else s["b"], before, depth + 1)
            return s
        if s.get("k") == "ref" and s.get("dk") in ("local",):
            last = None
            for _, n in self.elems():
                if before is not None and n["id"] == before:
                    break
                if n.get("k") == "decl":
                    for v in n.get("vars", []):
                        if v.get("decl") == s["decl"] and isinstance(v.get("init"), dict):
                            last = v["init"]
                elif n.get("k") == "assign":
                    l = strip_all_casts(n["l"])
                    if l.get("k") == "ref" and l.get("decl") == s["decl"]:
                        last = n["r"]
                elif n.get("k") == "call" and n.get("op") == "=" and "obj" in n and n.get("args"):
                    l = strip_all_casts(n["obj"])
                    if l.get("k") == "ref" and l.get("decl") == s["decl"]:
                        last = n["args"][0]
            if last is not None:
                return self.value_of(last, before, depth + 1)
        return s


class SplicedPath(Path):
    """A path of a caller with the paths of a helper spliced in at the helper's call: the helper's elements and
    branch atoms appear in place, its parameters replaced by the call's arguments."""

    def __init__(self, outer, elems, atoms):
        Path.__init__(self, outer.fn)
        self.blocks = list(outer.blocks)
        self.decisions = dict(outer.decisions)
        self.end = outer.end
        self.end_block = getattr(outer, "end_block", None)
        self._elems = elems
        self.atoms = atoms

    def copy(self):
        q = SplicedPath(self, list(self._elems), list(self.atoms))
        return q

    def elems(self):
        for b, n in self._elems:
            yield b, n


def splice_helpers(fb, pths, is_helper, depth=1):
    """Replace calls of helpers (is_helper(callee Function) -> bool) on each path by the helper's own paths."""
    from .facts import substitute, effective_call
    out = []
    for p in pths:
        els = list(p.elems())
        idx = None
        for i, (b, n) in enumerate(els):
            if n.get("k") == "call":
                g = fb.resolve_call(n)
                if g is not None and g.cfg_raw and g.key != p.fn.key and is_helper(g):
                    # only whole-statement calls (the element is not nested in another element of the path)
                    idx = (i, n, g)
                    break
        if idx is None:
            out.append(p)
            continue
        i, call, g = idx
        args = effective_call(call).get("args", [])
        mapping = {prm["decl"]: a for prm, a in zip(g.params, args)}
        hp = [q for q in enumerate_paths(g) if q.end == "exit"]
        if not hp or len(hp) > 200:
            out.append(p)
            continue
        # the caller's atoms are not positioned; keep them all in front (they hold for the whole path)
        for q in hp:
            qel = []
            for b2, n2 in q.elems():
                if n2.get("k") == "return":
                    continue
                n3 = substitute(n2, mapping)
                if n3 is n2:
                    n3 = dict(n2)
                n3["_site"] = call.get("id")  # where, in the caller, this element runs
                qel.append((els[i][0], n3))
            qat = []
            for a in q.atoms:
                if a[0] == "cmp":
                    l, r = substitute(a[4], mapping), substitute(a[5], mapping)
                    qat.append(("cmp", canon(l), a[2], canon(r), l, r))
                elif a[0] == "truth":
                    n3 = substitute(a[3], mapping)
                    qat.append(("truth", canon(n3), a[2], n3))
                elif a[0] == "switch":
                    c3 = substitute(a[4], mapping) if a[4] is not None else None
                    qat.append(("switch", canon(c3) if c3 is not None else a[1], a[2], a[3], c3))
                else:
                    qat.append(a)
            sp = SplicedPath(p, els[:i + 1] + qel + els[i + 1:], list(p.atoms) + qat)
            out.append(sp)
    if depth > 1:
        return splice_helpers(fb, out, is_helper, depth - 1)
    return out


def is_null_value(e):
    """The expression is a null pointer / empty smart pointer: nullptr, 0, or a default-constructed
    object, possibly wrapped in conversions and copy/move constructions."""
    e = strip_all_casts(e)
    while e.get("k") == "construct" and len(e.get("args", [])) == 1:
        e = strip_all_casts(e["args"][0])
    return bool(e.get("null")) or const_value(e) == 0 or (e.get("k") == "construct" and not e.get("args")) or \
        (e.get("k") == "initlist" and not e.get("inits"))


def path_value(p, e, before=None):
    """Value of expression e on path p just before element `before`: looks through casts, copy/move
    constructions and std::move/forward, and through locals assigned (or initialised) on the path."""
    for _ in range(8):
        e = strip_all_casts(e)
        if e.get("k") == "construct" and len(e.get("args", [])) == 1:
            e = e["args"][0]
            continue
        if e.get("k") == "call" and callee_name(e) in ("std::move", "std::forward") and e.get("args"):
            e = e["args"][0]
            continue
        v = strip_all_casts(p.value_of(e, before))
        if v is e or v.get("id") == e.get("id"):
            return v
        e = v
    return strip_all_casts(e)


def returned_value(p):
    """The value returned at the end of path p, resolved through locals assigned on the path."""
    r = p.returns()
    if r is None or r.get("e") is None:
        return None
    e = strip_all_casts(r["e"])
    while e.get("k") == "construct" and len(e.get("args", [])) == 1:
        e = strip_all_casts(e["args"][0])
    if e.get("k") == "call" and callee_name(e) in ("std::move", "std::forward") and e.get("args"):
        e = strip_all_casts(e["args"][0])
    return strip_all_casts(p.value_of(e))


def _defs(fn):
    from .facts import local_defs
    d = getattr(fn, "_local_defs_cache", None)
    if d is None:
        d = local_defs(fn)
        fn._local_defs_cache = d
    return d


def enumerate_paths(fn, start=None, stop=None, limit=5000, follow_back=False):
    """All acyclic paths from block `start` (default: entry) to the exit block, or
    to the first block for which stop(bid) is true (that block is recorded as
    path.end_block but not entered)."""
    cfg = fn.cfg
    start = cfg.entry if start is None else start
    out = []
    init = Path(fn)
    stack = [(start, init, frozenset())]
    while stack:
        b, p, seen = stack.pop()
        if len(out) > limit:
            raise Broken("path explosion in %s" % fn.name)
        if stop is not None and p.blocks and stop(b):
            p.end = "stop"
            p.end_block = b
            out.append(p)
            continue
        if b in seen:
            p.end = "cycle"
            p.end_block = b
            out.append(p)
            continue
        p.blocks.append(b)
        if b == cfg.exit:
            p.end = "exit"
            p.end_block = b
            out.append(p)
            continue
        blk = cfg.blocks[b]
        ss = cfg.succ[b]
        live = [(i, s) for i, s in enumerate(ss) if s is not None]
        if not live:
            p.end = "dead"
            p.end_block = b
            out.append(p)
            continue
        if blk.get("tk") == "SwitchStmt":
            condn = fn.node(blk["cond"]) if blk.get("cond", -1) >= 0 else None
            ctext = canon(condn) if condn else "?"
            cases = [cfg.blocks[s].get("case") for _, s in live if "case" in cfg.blocks[s]]
            for i, s in live:
                q = p.copy()
                sb = cfg.blocks[s]
                if "case" in sb:
                    q.atoms.append(("switch", ctext, sb["case"], tuple(cases), condn))
                else:
                    q.atoms.append(("switch", ctext, "default", tuple(cases), condn))
                stack.append((s, q, seen | {b}))
            continue
        if cfg.is_cond_branch(b) and len(live) == 2:
            leaf = cfg.branch_leaf(b)
            for i, s in live:
                q = p.copy()
                if leaf is not None:
                    new_atoms = conjuncts(leaf, i == 0, fn)
                    # a path that takes two different outcomes for the same never-reassigned bool local is infeasible
                    first = new_atoms[0] if new_atoms else None
                    if first is not None and first[0] == "truth" and strip_all_casts(first[3]).get("k") == "ref" and \
                            strip_all_casts(first[3]).get("dk") == "local" and len(_defs(fn).get(strip_all_casts(first[3])["decl"], [])) == 1 and \
                            any(a[0] == "truth" and a[1] == first[1] and a[2] != first[2] for a in p.atoms):
                        continue
                    # ... and so is one that branches against the constant the bool was last given on this very path (the result local of an
                    # inlined helper: `result = false;` ... `if (!result)` — only the outcome that agrees with the constant is feasible)
                    if first is not None and first[0] == "truth" and strip_all_casts(first[3]).get("k") == "ref" and \
                            strip_all_casts(first[3]).get("dk") == "local":
                        d0 = strip_all_casts(first[3])["decl"]
                        last = None
                        for bb in p.blocks:
                            for eid in cfg.blocks[bb].get("el", []):
                                nd = fn.node(eid) if isinstance(eid, int) and eid >= 0 else None
                                if nd is not None and nd.get("k") == "assign" and strip_all_casts(nd["l"]).get("decl") == d0:
                                    last = nd
                        if last is not None:
                            cv0 = const_value(strip_all_casts(last["r"]))
                            if cv0 is not None and bool(cv0) != first[2]:
                                continue
                            if cv0 is None and last.get("inl_return") and len(new_atoms) == 1:
                                # the result local of an inlined helper, tested right where the call stood: the outcome says the same about
                                # the expression the helper returned on this path
                                new_atoms = new_atoms + conjuncts(last["r"], first[2], fn)
                    q.atoms.extend(new_atoms)
                if blk.get("term", -1) >= 0:
                    q.decisions[blk["term"]] = i
                stack.append((s, q, seen | {b}))
            continue
        for i, s in live:
            q = p.copy() if len(live) > 1 else p
            stack.append((s, q, seen | {b}))
    return out


def loop_header(fn, kinds=("WhileStmt", "ForStmt", "DoStmt", "CXXForRangeStmt")):
    """Blocks whose terminator is a loop statement: [(block id, terminator node)]."""
    out = []
    cfg = fn.cfg
    for bid, b in cfg.blocks.items():
        if b.get("tk") in kinds and b.get("term", -1) >= 0 and len(cfg.succ[bid]) == 2:
            out.append((bid, fn.node(b["term"])))
    return out


def paths_through(fn, n):
    """Feasible acyclic entry-to-exit paths that evaluate node n."""
    bid = fn.cfg.block_for(n)
    return [p for p in enumerate_paths(fn) if bid in p.blocks]


def facts_at(fn, n):
    """Must-facts before node n, path-sensitively where that is sound: the facts of the forward must-analysis
    (facts.MustFacts) plus, in a function without loops, the atoms that every *feasible* path through n has
    established before n and not invalidated since (a join of an infeasible path does not lose them)."""
    from .facts import MustFacts
    mf = MustFacts(fn)
    base = list(mf.at(n))
    if loop_header(fn):
        return base
    cfg = fn.cfg
    target = cfg.block_for(n)
    if target is None:
        return base
    first = None
    if n["id"] in cfg.block_of:
        first = n["id"]
    else:
        for d in walk(n):
            if d["id"] in cfg.block_of and cfg.block_of[d["id"]] == target:
                if first is None or cfg.pos_of[d["id"]] < cfg.pos_of[first]:
                    first = d["id"]
    common = None
    for p in enumerate_paths(fn):
        if target not in p.blocks:
            continue
        cur = {}
        for i, b in enumerate(p.blocks):
            if b == target:
                cur = mf._block_transfer(b, cur, upto=first)
                break
            cur = mf._block_transfer(b, cur)
            if cfg.is_cond_branch(b) and i + 1 < len(p.blocks):
                leaf = cfg.branch_leaf(b)
                ss = cfg.succ[b]
                if leaf is not None and len(ss) == 2 and ss[0] != ss[1] and p.blocks[i + 1] in ss:
                    for a in conjuncts(leaf, ss.index(p.blocks[i + 1]) == 0, fn):
                        cur[mf._fact_key(a)] = a
        common = cur if common is None else {k: v for k, v in common.items() if k in cur}
    have = {mf._fact_key(a) for a in base}
    return base + [v for k, v in (common or {}).items() if k not in have]


class Row:
    """One way a function produces its result: branch atoms accumulated along the path (through
    callees whose result is returned unchanged) and the final return statement."""

    def __init__(self, atoms, ret, fn, chain):
        self.atoms, self.ret, self.fn, self.chain = atoms, ret, fn, chain


def return_rows(fb, fn, is_leaf, depth=2, _atoms=(), _chain=()):
    """Rows of fn: a path whose return expression satisfies is_leaf(expr) is a row; a path that
    returns the result of one in-repo callee (template instantiations included) is replaced by
    that callee's rows, with the caller's atoms in front."""
    out = []
    for p in enumerate_paths(fn):
        r = p.returns()
        if r is None or r.get("e") is None:
            continue
        atoms = list(_atoms) + list(p.atoms)
        if is_leaf(r["e"]):
            out.append(Row(atoms, r, fn, list(_chain) + [fn.name]))
            continue
        callees = []
        for x in walk(r["e"]):
            if x.get("k") == "call":
                g = fb.resolve_call(x)
                if g is not None and g.body is not None and g.cfg_raw and g.key != fn.key:
                    callees.append(g)
        if len(callees) == 1 and depth > 0:
            out.extend(return_rows(fb, callees[0], is_leaf, depth - 1, atoms, list(_chain) + [fn.name]))
        else:
            out.append(Row(atoms, r, fn, list(_chain) + [fn.name]))
    return out
