"""Thorough tier: cross-check of the AST-derived call graph against the linked LLVM IR
("cover what the build covers").  Every library function the IR reaches from the decode
and encode entry points through direct calls must also be reachable in the AST call graph
the rules use; otherwise a callee is hidden from the analyses (exit 2)."""
import re
import subprocess

from .build import Broken

ENTRIES = ["_ZN4ASAM3CMP7Decoder6decodeEPKvm", "_ZN5TECMP7Decoder6DecodeEPKvm",
           "_ZN4ASAM3CMP7Encoder6encodeERKNS0_6PacketERKNS0_11DataContextE", "_ZN4ASAM3CMP6Status6updateERKNS0_6PacketE"]


def ir_callgraph(path):
    edges = {}
    cur = None
    rx_def = re.compile(r'^define .*?@("?[^ ("]+"?)\(')
    rx_call = re.compile(r'(?:call|invoke) .*?@("?[A-Za-z0-9_.$]+"?)\(')
    with open(path) as fh:
        for line in fh:
            if line.startswith("define "):
                m = rx_def.match(line)
                cur = m.group(1).strip('"') if m else None
                if cur:
                    edges.setdefault(cur, set())
            elif line.startswith("}"):
                cur = None
            elif cur and ("call " in line or "invoke " in line):
                for m in rx_call.finditer(line):
                    edges[cur].add(m.group(1).strip('"'))
    return edges


def run(ctx):
    fb = ctx.fb("default", ())
    edges = ir_callgraph(ctx.ir())
    by_mangled = {f.mangled: f for f in fb.all_functions() if f.mangled}
    # constructors/destructors: C1/C2 (D1/D2) variants name the same function
    def canon(n):
        return re.sub(r"([CD])[12](E)", r"\g<1>2\2", n)
    by_canon = {canon(k): v for k, v in by_mangled.items()}
    out = {"entries": [], "ir_functions": len(edges)}
    missing_total = []
    for ent in ENTRIES:
        if ent not in edges:
            raise Broken("cross-check: entry %s not defined in the linked IR" % ent)
        seen = set()
        st = [ent]
        while st:
            x = st.pop()
            if x in seen:
                continue
            seen.add(x)
            st.extend(edges.get(x, ()))
        ir_repo = {canon(x) for x in seen if canon(x) in by_canon}
        root_fn = by_canon.get(canon(ent))
        if root_fn is None:
            raise Broken("cross-check: entry %s has no AST definition" % ent)
        ast = {canon(f.mangled) for f in fb.reachable_from([root_fn]).values() if f.mangled}
        missing = sorted(ir_repo - ast)
        out["entries"].append({"entry": root_fn.name, "ir_reachable_library_functions": len(ir_repo), "ast_reachable": len(ast), "missing_in_ast": len(missing)})
        missing_total += [(root_fn.name, by_canon[m].name) for m in missing]
    if missing_total:
        raise Broken("call-graph cross-check: the IR reaches library functions the AST call graph does not: %s" % missing_total[:6])
    return out
