"""Fact production for a source tree (E1/E2/E3 of DESIGN.md).

Everything is derived from the *current* content of the analysed root: a compile
database is generated with cmake in a scratch directory outside /repo and /verif
(removed afterwards), the exporter runs once per library unit (plus the witness
unit that instantiates the Encoder::encode<> templates), and the results are cached
under /verif/.cache/<sha256 of the inputs>.  A cache entry is only ever used for the
tree whose hash it carries.
"""
import hashlib
import json
import os
import shlex
import shutil
import subprocess
import tempfile
import time
from concurrent.futures import ThreadPoolExecutor

VERIF = os.path.dirname(os.path.dirname(os.path.dirname(os.path.abspath(__file__))))
CACHE = os.path.join(VERIF, ".cache")
CMPFACTS = os.path.join(VERIF, "bin", "cmpfacts")
RESOURCE_DIR = "/usr/lib/llvm-14/lib/clang/14.0.6"
WITNESS_DIR = os.path.join(VERIF, "witness")


class Broken(Exception):
    """Analysis broken (exit 2): tool failure, vanished anchor, floor not met."""


def _scratch_base():
    base = os.environ.get("VERIF_SCRATCH") or os.path.join(tempfile.gettempdir(), "cmpverif-scratch")
    os.makedirs(base, exist_ok=True)
    return base


def tree_files(root):
    out = []
    for sub in ("src", "include"):
        for dp, dn, fn in os.walk(os.path.join(root, sub)):
            dn.sort()
            for f in sorted(fn):
                out.append(os.path.join(dp, f))
    for f in ("CMakeLists.txt", "external/CMakeLists.txt"):
        p = os.path.join(root, f)
        if os.path.exists(p):
            out.append(p)
    return out


def tree_hash(root, extra=()):
    h = hashlib.sha256()
    for p in tree_files(root):
        h.update(os.path.relpath(p, root).encode())
        h.update(b"\0")
        with open(p, "rb") as fh:
            h.update(fh.read())
        h.update(b"\0")
    for p in extra:
        if os.path.exists(p):
            h.update(p.encode())
            with open(p, "rb") as fh:
                h.update(fh.read())
    return h.hexdigest()


def _tool_inputs():
    extra = [CMPFACTS]
    if os.path.isdir(WITNESS_DIR):
        for f in sorted(os.listdir(WITNESS_DIR)):
            extra.append(os.path.join(WITNESS_DIR, f))
    return extra


def compile_db(root):
    """cmake-configure `root` into a scratch dir and return the de-duplicated
    list of (file, flags) for the library units."""
    scratch = tempfile.mkdtemp(prefix="cdb-", dir=_scratch_base())
    try:
        r = subprocess.run(
            ["cmake", "-S", root, "-B", scratch, "-G", "Ninja", "-DASAM_CMP_LIB_ENABLE_TESTS=OFF",
             "-DASAM_CMP_LIB_BUILD_EXAMPLE=OFF", "-DCMAKE_EXPORT_COMPILE_COMMANDS=ON"],
            stdout=subprocess.PIPE, stderr=subprocess.STDOUT, text=True)
        if r.returncode != 0:
            raise Broken("cmake configure failed:\n" + r.stdout[-2000:])
        with open(os.path.join(scratch, "compile_commands.json")) as fh:
            db = json.load(fh)
    finally:
        shutil.rmtree(scratch, ignore_errors=True)
    units = {}
    for e in db:
        args = shlex.split(e["command"]) if "command" in e else list(e["arguments"])
        flags = []
        skip = False
        for a in args[1:]:
            if skip:
                skip = False
                continue
            if a in ("-o", "-c"):
                skip = True
                continue
            if a == "-Werror" or a.startswith("-W") or a == "-pedantic":
                continue
            if a.startswith(scratch):
                continue
            if a.startswith("-I" + scratch):
                continue
            flags.append(a)
        if not any(f.startswith("-std=") for f in flags):
            flags.append("-std=c++17")
        # assert() is analysed as in a release build (a no-op): a condition that is only asserted guards nothing, and adding
        # asserts to the code changes nothing the rules see
        if "-DNDEBUG" not in flags:
            flags = [f for f in flags if f != "-UNDEBUG"] + ["-DNDEBUG"]
        units[os.path.realpath(e["file"])] = flags
    if not units:
        raise Broken("empty compile database")
    return sorted(units.items())


def _run_exporter(args):
    src, flags, root, out, extra = args
    cmd = [CMPFACTS, "--root=" + root, "--out=" + out, src, "--"] + flags + list(extra) + \
          ["-w", "-resource-dir", RESOURCE_DIR]
    r = subprocess.run(cmd, stdout=subprocess.PIPE, stderr=subprocess.STDOUT, text=True)
    return src, r.returncode, r.stdout


def facts_dir(root="/repo", config="default", extra_flags=()):
    """Return (dir with one fact file per unit, meta dict). Builds on a cache miss."""
    root = os.path.realpath(root)
    if not os.path.exists(CMPFACTS):
        raise Broken("exporter not built: run MANIFEST.setup_cmd (make -C /verif)")
    key = tree_hash(root, _tool_inputs() + [__file__])
    d = os.path.join(CACHE, key, "facts-" + config)
    meta_p = os.path.join(d, "META.json")
    if os.path.exists(meta_p):
        try:
            os.utime(os.path.join(CACHE, key), None)  # in use: keeps the entry out of reach of prune_cache
        except OSError:
            pass
        with open(meta_p) as fh:
            meta = json.load(fh)
        if meta.get("root") != root:
            # same content analysed earlier under another root (scratch copy): re-anchor the paths
            old = meta["root"]
            meta = dict(meta)
            meta["units"] = [u.replace(old, root, 1) if u.startswith(old) else u for u in meta["units"]]
            meta["flags"] = [f.replace(old, root) for f in meta["flags"]]
            meta["root"] = root
        return d, meta
    t0 = time.time()
    tmpd = d + ".tmp%d" % os.getpid()
    shutil.rmtree(tmpd, ignore_errors=True)
    os.makedirs(tmpd)
    units = compile_db(root)
    jobs = []
    for src, flags in units:
        out = os.path.join(tmpd, os.path.basename(src) + ".json")
        jobs.append((src, flags, root, out, extra_flags))
    # witness unit: instantiates templates that only clients instantiate
    wit = os.path.join(WITNESS_DIR, "instantiate.cpp")
    if os.path.exists(wit):
        jobs.append((wit, units[0][1], root, os.path.join(tmpd, "_witness_instantiate.cpp.json"), extra_flags))
    with ThreadPoolExecutor(max_workers=min(16, os.cpu_count() or 4)) as ex:
        results = list(ex.map(_run_exporter, jobs))
    bad = [(s, o) for s, rc, o in results if rc != 0]
    if bad:
        shutil.rmtree(tmpd, ignore_errors=True)
        raise Broken("exporter failed on %s:\n%s" % (bad[0][0], bad[0][1][-3000:]))
    meta = {"root": root, "tree_hash": key, "config": config, "units": [s for s, _ in units],
            "flags": units[0][1] + list(extra_flags), "export_wall_s": round(time.time() - t0, 2),
            "witness_unit": os.path.exists(wit)}
    with open(os.path.join(tmpd, "META.json"), "w") as fh:
        json.dump(meta, fh, indent=1)
    os.makedirs(os.path.dirname(d), exist_ok=True)
    if os.path.exists(d):
        shutil.rmtree(tmpd, ignore_errors=True)
    else:
        os.rename(tmpd, d)
    return d, meta


def ir_module(root="/repo"):
    """E2: per-unit LLVM IR (clang++ -O0 -g -S -emit-llvm) linked with llvm-link-14.
    Returns path of the linked textual module (cached by tree hash)."""
    root = os.path.realpath(root)
    key = tree_hash(root, [__file__])
    d = os.path.join(CACHE, key, "ir")
    out = os.path.join(d, "library.ll")
    if os.path.exists(out):
        try:
            os.utime(os.path.join(CACHE, key), None)
        except OSError:
            pass
        return out
    tmpd = d + ".tmp%d" % os.getpid()
    shutil.rmtree(tmpd, ignore_errors=True)
    os.makedirs(tmpd)
    units = compile_db(root)

    def one(u):
        src, flags = u
        o = os.path.join(tmpd, os.path.basename(src) + ".ll")
        cmd = ["clang++"] + flags + ["-w", "-O0", "-Xclang", "-disable-O0-optnone", "-g", "-S", "-emit-llvm", src, "-o", o]
        r = subprocess.run(cmd, stdout=subprocess.PIPE, stderr=subprocess.STDOUT, text=True)
        return src, r.returncode, r.stdout, o

    with ThreadPoolExecutor(max_workers=min(16, os.cpu_count() or 4)) as ex:
        res = list(ex.map(one, units))
    bad = [(s, o) for s, rc, o, _ in res if rc != 0]
    if bad:
        shutil.rmtree(tmpd, ignore_errors=True)
        raise Broken("clang++ -emit-llvm failed on %s:\n%s" % (bad[0][0], bad[0][1][-3000:]))
    r = subprocess.run(["llvm-link-14", "-S", "-o", os.path.join(tmpd, "library.ll")] + [o for _, _, _, o in res],
                       stdout=subprocess.PIPE, stderr=subprocess.STDOUT, text=True)
    if r.returncode != 0:
        shutil.rmtree(tmpd, ignore_errors=True)
        raise Broken("llvm-link-14 failed:\n" + r.stdout[-3000:])
    for _, _, _, o in res:
        os.remove(o)
    os.makedirs(os.path.dirname(d), exist_ok=True)
    if os.path.exists(d):
        shutil.rmtree(tmpd, ignore_errors=True)
    else:
        os.rename(tmpd, d)
    return out


def syntax_check(root, src, flags=(), extra=()):
    """E3: clang++ -fsyntax-only on one file with the library's include path.
    Returns (returncode, diagnostics text)."""
    cmd = ["clang++", "-std=c++17", "-fsyntax-only", "-ferror-limit=0", "-I" + os.path.join(root, "include")]
    cmd += list(flags) + [src] + list(extra)
    r = subprocess.run(cmd, stdout=subprocess.PIPE, stderr=subprocess.STDOUT, text=True)
    return r.returncode, r.stdout


def prune_cache(keep=6):
    if not os.path.isdir(CACHE):
        return
    ents = []
    for n in os.listdir(CACHE):
        p = os.path.join(CACHE, n)
        try:
            ents.append((os.path.getmtime(p), p))
        except OSError:
            pass
    ents.sort(reverse=True)
    # never remove an entry another run may still be reading: entries touched in the last 20 minutes stay, whatever their number
    # (the tools run dozens of checks on different trees at the same time)
    import time
    now = time.time()
    for mt, p in ents[max(keep, 8):]:
        if now - mt > 1200:
            shutil.rmtree(p, ignore_errors=True)
