"""Obligations, verdicts, known findings, evidence files and exit codes."""
import json
import os
import time

from .build import VERIF, Broken

KNOWN_FINDINGS = os.path.join(VERIF, "known_findings.json")


CURRENT = {}  # property id -> the Result being filled (so that a run that breaks half-way can still report what it found)


class Result:
    """Collects rule instances (obligations) of one property check."""

    def __init__(self, prop):
        CURRENT[prop] = self
        self.prop = prop
        self.obligations = []  # dicts: rule, key, loc, ok, detail
        self.rules = {}  # rule id -> text
        self.assumptions = []
        self.not_decided = []
        self.notes = []
        self.floors = []  # (rule, expected_min, got)
        self.deficits = []
        self.extra = {}

    def rule(self, rid, text):
        self.rules[rid] = text

    def ok(self, rule, key, loc="", detail=""):
        self.obligations.append({"rule": rule, "key": key, "loc": loc, "ok": True, "detail": detail})

    def bad(self, rule, key, loc="", detail=""):
        for o in self.obligations:
            if not o["ok"] and o["rule"] == rule and o["key"] == key:
                return
        self.obligations.append({"rule": rule, "key": key, "loc": loc, "ok": False, "detail": detail})

    def check(self, cond, rule, key, loc="", detail="", bad_detail=None):
        if cond:
            self.ok(rule, key, loc, detail)
        else:
            self.bad(rule, key, loc, bad_detail if bad_detail is not None else detail)
        return cond

    def floor(self, rule, expected_min, got=None):
        """Fail as analysis-broken when fewer instances than confirmed by hand."""
        if got is None:
            got = sum(1 for o in self.obligations if o["rule"] == rule)
        self.floors.append((rule, expected_min, got))
        if got < expected_min:
            # deferred: reported as analysis-broken (exit 2) unless a violation was found, which is real either way
            self.deficits.append("%s %s: %d rule instance(s) found, floor confirmed by hand is %d — anchor vanished or "
                                 "code restructured; re-derive the rule" % (self.prop, rule, got, expected_min))

    def count(self, rule):
        return sum(1 for o in self.obligations if o["rule"] == rule)


def load_known():
    if not os.path.exists(KNOWN_FINDINGS):
        return {"findings": [], "fixed": []}
    with open(KNOWN_FINDINGS) as fh:
        return json.load(fh)


def finish(res, tier, seed, t0, meta, level="other", selftest=None, extra_cov=None):
    """Print verdict lines, write evidence and reports; return the exit code."""
    prop = res.prop
    known = [k for k in load_known().get("findings", []) if prop in k.get("properties", [k.get("property")])]
    known_keys = {(k["rule"], k["key"]): k for k in known}
    viol = [o for o in res.obligations if not o["ok"]]
    unlisted = []
    listed = []
    for o in viol:
        kf = known_keys.get((o["rule"], o["key"]))
        if kf is not None:
            listed.append((o, kf))
        else:
            unlisted.append(o)
    # the registered outputs (/verif/evidence, /verif/reports) belong to runs on /repo itself; a run on a scratch copy (--root, used by
    # the self-test and the tools) keeps its files inside that copy, so it can neither overwrite evidence nor race with a run on /repo
    out_base = VERIF
    if meta.get("root") and os.path.realpath(meta["root"]) != os.path.realpath(os.environ.get("VERIF_REPO", "/repo")):
        out_base = os.path.join(os.path.realpath(meta["root"]), ".verif-out")
    rep_dir = os.path.join(out_base, "reports", prop)
    os.makedirs(rep_dir, exist_ok=True)
    for f in os.listdir(rep_dir):
        try:
            os.remove(os.path.join(rep_dir, f))
        except OSError:
            pass
    for o, kf in listed:
        print("KNOWN-FINDING: property=%s %s [%s %s at %s]" % (prop, kf.get("what", o["detail"]), o["rule"], o["key"], o["loc"]))
    for o in unlisted:
        safe = "".join(ch if ch.isalnum() or ch in "-_." else "_" for ch in (o["rule"] + "-" + o["key"]))[:150]
        path = os.path.join(rep_dir, safe + ".json")
        with open(path, "w") as fh:
            json.dump({"property": prop, "rule": o["rule"], "rule_text": res.rules.get(o["rule"], ""), "key": o["key"],
                       "loc": o["loc"], "detail": o["detail"], "root": meta.get("root"),
                       "tree_hash": meta.get("tree_hash")}, fh, indent=1)
        print("VIOLATION property=%s replay=%s" % (prop, path))
        print("  rule %s: %s" % (o["rule"], res.rules.get(o["rule"], "")))
        print("  at %s  [%s]" % (o["loc"], o["key"]))
        print("  %s" % o["detail"])
    n = len(res.obligations)
    good = sum(1 for o in res.obligations if o["ok"])
    distinct = len({(o["rule"], o["key"]) for o in res.obligations})
    samples = []
    seen_rules = set()
    for o in res.obligations:
        if o["rule"] not in seen_rules and o["ok"]:
            seen_rules.add(o["rule"])
            samples.append({"rule": o["rule"], "instance": o["key"], "at": o["loc"], "discharged_by": o["detail"][:300]})
    for o in viol[:10]:
        samples.append({"rule": o["rule"], "instance": o["key"], "at": o["loc"], "violated": o["detail"][:300]})
    by_rule = {}
    for o in res.obligations:
        r = by_rule.setdefault(o["rule"], {"text": res.rules.get(o["rule"], ""), "instances": 0, "discharged": 0})
        r["instances"] += 1
        r["discharged"] += 1 if o["ok"] else 0
    cov = {
        "explanation": "static analysis of the resolved program (clang 14 AST + CFG exported by /verif/bin/cmpfacts, "
                       "rules in /verif/rules/%s.py): each obligation is one rule instance on a named construct of the "
                       "current /repo tree; nothing is executed" % prop.lower(),
        "obligations": n,
        "discharged": good,
        "evaluations": n,
        "distinct_nontrivial": distinct,
        "rule": "one evaluation = one rule instance (rule id + construct key) found in the fact base of the current "
                "tree; distinct = distinct (rule, construct) pairs; all are non-trivial in that each names a real "
                "source construct",
        "samples": samples,
        "rules": by_rule,
        "floors": [{"rule": r, "min_confirmed_by_hand": e, "found": g} for r, e, g in res.floors],
        "units_analysed": len(meta.get("units", [])) + (1 if meta.get("witness_unit") else 0),
        "tree_hash": meta.get("tree_hash"),
        "root": meta.get("root"),
        "checker_cmd": "./check %s --tier %s" % (prop, tier),
        "trusted_base": ["clang 14 front end, CFG builder and ASTRecordLayout", "x86-64 little-endian target",
                         "spec tables under /verif/spec", "libstdc++ semantics of the containers named in the rules"],
        "not_decided": res.not_decided,
        "known_findings_reported": len(listed),
        "exhaustive": True,
    }
    if selftest is not None:
        cov["selftest"] = selftest
    cov.update(res.extra)
    if extra_cov:
        cov.update(extra_cov)
    ev = {"property_id": prop, "tier": tier, "seed": seed, "level": level, "coverage": cov,
          "assumptions": res.assumptions, "wall_s": round(time.time() - t0, 3), "violations": len(unlisted)}
    os.makedirs(os.path.join(out_base, "evidence"), exist_ok=True)
    with open(os.path.join(out_base, "evidence", prop + ".json"), "w") as fh:
        json.dump(ev, fh, indent=1)
    print("%s: %d obligations, %d discharged, %d known finding(s), %d violation(s) [%s, %.1fs]" %
          (prop, n, good, len(listed), len(unlisted), tier, time.time() - t0))
    if unlisted:
        return 1
    if res.deficits:
        for d in res.deficits:
            print("ANALYSIS-BROKEN property=%s: %s" % (prop, d))
        return 2
    return 0
