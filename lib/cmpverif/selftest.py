"""Checker self-test (thorough tier): seeded edits kept as patches under
/verif/selftest/<ID>/.  A *mutant* breaks one rule instance and must be reported
(naming that rule); a *benign* refactor keeps behaviour and must leave the set of
reports unchanged.  Each edit is applied to a scratch copy of the analysed tree
(outside /repo and /verif), analysed with the same rules, and deleted.

The verdict of a case is relative to the current tree.  A case that does not apply
or does not compile is `skipped`.  A mutant that is not caught / a refactor that
alarms is a checker failure: exit 2 on a tree whose source hash is a known baseline
(/verif/selftest/baselines.json), `degraded` (no effect on the exit code) elsewhere.
"""
import importlib
import json
import os
import shutil
import subprocess
import tempfile

from . import build
from .build import Broken, VERIF

ST_DIR = os.path.join(VERIF, "selftest")


def src_hash(root):
    return build.tree_hash(root)


def make_scratch(root):
    base = build._scratch_base()
    d = tempfile.mkdtemp(prefix="st-", dir=base)
    for sub in ("src", "include", "external"):
        s = os.path.join(root, sub)
        if os.path.isdir(s):
            shutil.copytree(s, os.path.join(d, sub))
    shutil.copy(os.path.join(root, "CMakeLists.txt"), os.path.join(d, "CMakeLists.txt"))
    return d


def apply_patch(d, patch):
    r = subprocess.run(["git", "apply", "--whitespace=nowarn", "--unsafe-paths", "--directory=" + d, patch],
                       cwd="/", stdout=subprocess.PIPE, stderr=subprocess.STDOUT, text=True)
    if r.returncode != 0:
        r = subprocess.run(["patch", "-p1", "-s", "-f", "--no-backup-if-mismatch", "-d", d, "-i", patch],
                           stdout=subprocess.PIPE, stderr=subprocess.STDOUT, text=True)
    return r.returncode == 0, r.stdout


def violations_of(res):
    return {(o["rule"], o["key"]) for o in res.obligations if not o["ok"]}


def run_case(prop, root, patch):
    """Returns ('skipped', why) or ('ran', set of violations)."""
    from .driver import run_property
    d = make_scratch(root)
    try:
        ok, out = apply_patch(d, patch)
        if not ok:
            return "skipped", "patch does not apply: " + out.strip()[:200]
        try:
            _, res = run_property(prop, d)
        except Broken as e:
            return "broken", str(e)[:300]
        return "ran", violations_of(res)
    finally:
        shutil.rmtree(d, ignore_errors=True)
        # drop the cache entry of the scratch tree
        build.prune_cache(keep=8)


def run(prop, ctx, res):
    cdir = os.path.join(ST_DIR, prop)
    out = {"mutants": 0, "caught": 0, "refactors": 0, "silent": 0, "skipped": 0, "cases": [], "failed": []}
    if not os.path.isdir(cdir):
        os.makedirs(cdir, exist_ok=True)
    base = violations_of(res)
    try:
        with open(os.path.join(ST_DIR, "baselines.json")) as fh:
            baselines = set(json.load(fh).get("tree_hashes", []))
    except OSError:
        baselines = set()
    on_baseline = src_hash(ctx.root) in baselines
    seed = ctx.seed
    names = sorted(f[:-5] for f in os.listdir(cdir) if f.endswith(".json"))
    if seed:
        names = names[seed % len(names):] + names[:seed % len(names)] if names else names
    cases = []
    for nm in names:
        with open(os.path.join(cdir, nm + ".json")) as fh:
            cases.append((nm, json.load(fh), os.path.join(cdir, nm + ".patch")))
    # the vetted changes of independent sub-agents that target this property (/verif/seeded/<name>/)
    sdir = os.path.join(VERIF, "seeded")
    for nm in sorted(os.listdir(sdir)) if os.path.isdir(sdir) else []:
        mp = os.path.join(sdir, nm, "meta.json")
        if os.path.isfile(mp):
            with open(mp) as fh:
                sm = json.load(fh)
            if sm.get("property") == prop and os.path.isfile(os.path.join(sdir, nm, "patch.diff")):
                cases.append(("seeded/" + nm, {"expect": "violation", "what": sm.get("needs_to_manifest", "")}, os.path.join(sdir, nm, "patch.diff")))
    for nm, meta, patch in cases:
        st, val = run_case(prop, ctx.root, patch)
        case = {"name": nm, "expect": meta["expect"], "status": st}
        if st != "ran":
            out["skipped"] += 1
            case["why"] = val
            if st == "broken" and meta["expect"] == "silent" and on_baseline:
                out["failed"].append(nm + ": benign refactor breaks the analysis: " + val)
            out["cases"].append(case)
            continue
        new = val - base
        gone = base - val
        if meta["expect"] == "violation":
            out["mutants"] += 1
            hit = [v for v in new if v[0] == meta.get("rule", v[0]) and meta.get("key_contains", "") in v[1]]
            case["reported"] = sorted("%s %s" % v for v in new)[:6]
            if hit:
                out["caught"] += 1
            elif on_baseline:
                out["failed"].append("%s: mutant not reported by %s" % (nm, meta.get("rule")))
            else:
                case["status"] = "degraded"
        else:
            out["refactors"] += 1
            if not new and not gone:
                out["silent"] += 1
            elif on_baseline:
                out["failed"].append("%s: benign refactor changes the reports: +%s -%s" % (nm, sorted(new)[:3], sorted(gone)[:3]))
            else:
                case["status"] = "degraded"
        out["cases"].append(case)
    out["on_known_baseline"] = on_baseline
    return out
