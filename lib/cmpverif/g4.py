"""G4 — bit-provenance abstract interpretation of accessor bodies.

Every integer value is a vector of bit terms.  A term is
  ('c',0|1)                 constant
  ('S',i)                   storage bit i of the object on entry (memory bit index:
                            8*byte + bit, little-endian target)
  ('P',name,j)              bit j of parameter `name`
  ('n',t) ('and',fs) ('or',fs) ('xor',fs) ('ite',c,a,b)   boolean structure
  ('mix',fs)                unknown function of the atoms in fs (outside vocabulary)
The object is a flat array of storage bits, so unions, nested structs and packed
layouts need no special treatment.  The interpreter walks the (structured) AST of
straight-line accessors: compound, decl, expression statements, if/else, ?:, return;
calls to library functions are inlined.  Loops and switches are outside the
vocabulary (Unsupported).
"""
from .build import Broken
from .facts import strip, const_value, strip_all_casts

C0 = ("c", 0)
C1 = ("c", 1)


class Unsupported(Exception):
    pass


def S(i):
    return ("S", i)


def P(name, j):
    return ("P", name, j)


def is_const(t):
    return t[0] == "c"


def atoms(t, out=None):
    if out is None:
        out = set()
    k = t[0]
    if k in ("S", "P"):
        out.add(t)
    elif k == "n":
        atoms(t[1], out)
    elif k in ("and", "or", "xor", "mix"):
        for x in t[1]:
            if isinstance(x, tuple):
                atoms(x, out)
    elif k == "ite":
        atoms(t[1], out)
        atoms(t[2], out)
        atoms(t[3], out)
    elif k == "tt":
        out.update(t[1])
    return out


def t_not(x):
    if x[0] == "c":
        return C1 if x[1] == 0 else C0
    if x[0] == "n":
        return x[1]
    if x[0] == "mix":
        return x
    return ("n", x)


def _mix(*ts):
    s = set()
    for t in ts:
        atoms(t, s)
    return ("mix", frozenset(s))


def t_and(x, y):
    if x == C0 or y == C0:
        return C0
    if x == C1:
        return y
    if y == C1:
        return x
    if x == y:
        return x
    if x == t_not(y):
        return C0
    if x[0] == "mix" or y[0] == "mix":
        return _mix(x, y)
    xs = x[1] if x[0] == "and" else frozenset([x])
    ys = y[1] if y[0] == "and" else frozenset([y])
    return ("and", xs | ys)


def t_or(x, y):
    if x == C1 or y == C1:
        return C1
    if x == C0:
        return y
    if y == C0:
        return x
    if x == y:
        return x
    if x == t_not(y):
        return C1
    if x[0] == "mix" or y[0] == "mix":
        return _mix(x, y)
    xs = x[1] if x[0] == "or" else frozenset([x])
    ys = y[1] if y[0] == "or" else frozenset([y])
    return ("or", xs | ys)


def t_xor(x, y):
    if x == C0:
        return y
    if y == C0:
        return x
    if x == C1:
        return t_not(y)
    if y == C1:
        return t_not(x)
    if x == y:
        return C0
    if x[0] == "mix" or y[0] == "mix":
        return _mix(x, y)
    return ("xor", frozenset([x, y]))


def t_ite(c, a, b):
    if c == C1:
        return a
    if c == C0:
        return b
    if a == b:
        return a
    if a == C1 and b == C0:
        return c
    if a == C0 and b == C1:
        return t_not(c)
    return ("ite", c, a, b)


def subst(t, env):
    """Substitute atoms by terms (env: atom -> term)."""
    k = t[0]
    if k == "c":
        return t
    if k in ("S", "P"):
        return env.get(t, t)
    if k == "n":
        return t_not(subst(t[1], env))
    if k == "and":
        r = C1
        for x in t[1]:
            r = t_and(r, subst(x, env))
        return r
    if k == "or":
        r = C0
        for x in t[1]:
            r = t_or(r, subst(x, env))
        return r
    if k == "xor":
        r = C0
        for x in t[1]:
            r = t_xor(r, subst(x, env))
        return r
    if k == "ite":
        return t_ite(subst(t[1], env), subst(t[2], env), subst(t[3], env))
    if k == "mix":
        return ("mix", frozenset(a for a in t[1] if env.get(a, a)[0] != "c") | frozenset(
            x for a in t[1] for x in atoms(env.get(a, a)) if env.get(a, a)[0] != "c"))
    if k == "tt":
        # rebuild as a sum of products and substitute
        r = C0
        for i, v in enumerate(t[2]):
            if v:
                prod = C1
                for j, a in enumerate(t[1]):
                    lit = subst(a, env)
                    prod = t_and(prod, lit if (i >> j) & 1 else t_not(lit))
                r = t_or(r, prod)
        return norm(r)
    return t


def evaluate(t, val):
    """Truth value of a term under an assignment atom -> 0/1 (mix terms are not evaluable)."""
    k = t[0]
    if k == "c":
        return t[1]
    if k in ("S", "P"):
        return val[t]
    if k == "n":
        return 1 - evaluate(t[1], val)
    if k == "and":
        return int(all(evaluate(x, val) for x in t[1]))
    if k == "or":
        return int(any(evaluate(x, val) for x in t[1]))
    if k == "xor":
        r = 0
        for x in t[1]:
            r ^= evaluate(x, val)
        return r
    if k == "ite":
        return evaluate(t[2], val) if evaluate(t[1], val) else evaluate(t[3], val)
    if k == "tt":
        i = 0
        for j, a in enumerate(t[1]):
            i |= val[a] << j
        return t[2][i]
    raise Unsupported("mix term")


def norm(t, limit=8):
    """Canonical form of a boolean term with few atoms: constant, atom, negated atom, or its
    truth table over the sorted atoms (so syntactically different but equal terms compare equal)."""
    if t[0] in ("c", "S", "P"):
        return t
    try:
        ats = sorted(atoms(t))
    except Exception:
        return t
    if len(ats) > limit or _has_mix(t):
        return t
    table = []
    for i in range(1 << len(ats)):
        val = {a: (i >> j) & 1 for j, a in enumerate(ats)}
        table.append(evaluate(t, val))
    if all(v == 0 for v in table):
        return C0
    if all(v == 1 for v in table):
        return C1
    # drop atoms the function does not depend on
    dep = []
    for j, a in enumerate(ats):
        if any(table[i] != table[i ^ (1 << j)] for i in range(len(table))):
            dep.append(a)
    if len(dep) == 1:
        a = dep[0]
        j = ats.index(a)
        return a if table[1 << j] == 1 else ("n", a)
    if len(dep) < len(ats):
        t2 = []
        for i in range(1 << len(dep)):
            val = {a: 0 for a in ats}
            for j, a in enumerate(dep):
                val[a] = (i >> j) & 1
            t2.append(evaluate(t, val))
        return ("tt", tuple(dep), tuple(t2))
    return ("tt", tuple(ats), tuple(table))


def _has_mix(t):
    k = t[0]
    if k == "mix":
        return True
    if k == "n":
        return _has_mix(t[1])
    if k in ("and", "or", "xor"):
        return any(_has_mix(x) for x in t[1])
    if k == "ite":
        return _has_mix(t[1]) or _has_mix(t[2]) or _has_mix(t[3])
    return False


def term_str(t):
    k = t[0]
    if k == "c":
        return str(t[1])
    if k == "S":
        return "old[byte %d bit %d]" % (t[1] // 8, t[1] % 8)
    if k == "P":
        return "%s[%d]" % (t[1], t[2])
    if k == "n":
        return "!" + term_str(t[1])
    if k in ("and", "or", "xor"):
        op = {"and": "&", "or": "|", "xor": "^"}[k]
        return "(" + op.join(sorted(term_str(x) for x in t[1])) + ")"
    if k == "ite":
        return "(%s?%s:%s)" % (term_str(t[1]), term_str(t[2]), term_str(t[3]))
    if k == "mix":
        names = {}
        for x in t[1]:
            if x[0] == "P":
                names.setdefault(x[1], []).append(x)
        whole = {nm for nm, xs in names.items() if len(xs) > 4}
        parts = sorted(term_str(x) for x in t[1] if not (x[0] == "P" and x[1] in whole)) + sorted(whole)
        return "mix{" + ",".join(parts) + "}"
    if k == "tt":
        return "f(" + ",".join(term_str(a) for a in t[1]) + ")"
    return str(t)


class BV:
    __slots__ = ("bits", "signed")

    def __init__(self, bits, signed=False):
        self.bits = list(bits)
        self.signed = signed

    @property
    def w(self):
        return len(self.bits)

    @staticmethod
    def const(v, w, signed=False):
        v &= (1 << w) - 1
        return BV([C1 if (v >> i) & 1 else C0 for i in range(w)], signed)

    @staticmethod
    def param(name, w, signed=False, inrange=None):
        return BV([P(name, i) if (inrange is None or i < inrange) else C0 for i in range(w)], signed)

    def value(self):
        v = 0
        for i, b in enumerate(self.bits):
            if b[0] != "c":
                return None
            v |= b[1] << i
        if self.signed and self.w and (v >> (self.w - 1)) & 1:
            v -= 1 << self.w
        return v

    def resize(self, w, signed=None):
        """Integral conversion to width w (extension by own signedness)."""
        sg = self.signed if signed is None else signed
        if w <= self.w:
            return BV(self.bits[:w], sg)
        ext = self.bits[-1] if (self.signed and self.bits) else C0
        return BV(self.bits + [ext] * (w - self.w), sg)

    def any(self):
        r = C0
        for b in self.bits:
            r = t_or(r, b)
        return r

    def __repr__(self):
        return "BV[" + " ".join(term_str(b) for b in reversed(self.bits)) + "]"


def type_width(t):
    if t is None:
        raise Unsupported("no type")
    k = t.get("k")
    if k == "bool":
        return 1, False
    if k in ("int", "enum"):
        if "bits" not in t:
            raise Unsupported("incomplete integer type " + t.get("s", "?"))
        return t["bits"], bool(t.get("sg"))
    if k == "float":
        return t["bits"], False
    raise Unsupported("non-scalar type %s" % t.get("s"))


class Env:
    def __init__(self, storage, params, this_rec, objs=None):
        self.storage = storage  # list of terms or None
        self.vars = dict(params)
        self.this_rec = this_rec
        self.objs = objs or {}  # parameter decl -> storage of the object it refers to (read-only)
        self.ret = None
        self.done = C0  # condition under which the function has already returned
        self.arrays = {}  # local constant arrays: decl -> list of BV

    @property
    def returned(self):
        return self.done == C1

    def fork(self):
        e = Env(list(self.storage) if self.storage is not None else None, self.vars, self.this_rec, self.objs)
        e.vars = dict(self.vars)
        e.ret = self.ret
        e.done = self.done
        e.arrays = self.arrays
        return e


class Interp:
    def __init__(self, fb, max_depth=6):
        self.fb = fb
        self.max_depth = max_depth
        self.float_swap_perm = None

    # ---------------------------------------------------------------- layout
    def field_offset(self, rec, name):
        r = self.fb.record(rec)
        for f in r["fields"]:
            if f["name"] == name:
                return f["offset_bits"], f
        raise Unsupported("field %s::%s not in layout" % (rec, name))

    def lvalue(self, n, env):
        """Resolve an lvalue to ('storage', bit offset, width, signed) or ('var', decl, w, signed)."""
        n = strip(n)
        k = n.get("k")
        if k == "ref" and n.get("dk") in ("local", "param"):
            w, sg = type_width(n["t"])
            return ("var", n["decl"], w, sg)
        if k == "member" and n.get("dk") == "field":
            off = 0
            cur = n
            w, sg = None, None
            chain = []
            while True:
                cur = strip(cur)
                if cur.get("k") == "member" and cur.get("dk") == "field":
                    o, f = self.field_offset(cur["rec"], cur["name"])
                    chain.append((o, f))
                    cur = cur["base"]
                    continue
                if cur.get("k") == "this":
                    objdecl = None
                    break
                if cur.get("k") == "ref" and cur.get("decl") in env.objs:
                    objdecl = cur["decl"]
                    break
                raise Unsupported("member access on non-this object: %s" % cur.get("k"))
            off = sum(o for o, _ in chain)
            f0 = chain[0][1]
            if f0["t"].get("k") in ("int", "enum", "bool", "float"):
                w, sg = type_width(f0["t"])
                if f0["t"].get("k") == "bool":
                    w = f0["t"].get("sbits", 8)
                if objdecl is not None:
                    return ("obj:" + objdecl, off, w, sg)
                return ("storage", off, w, sg)
            raise Unsupported("aggregate member %s used as scalar" % f0["name"])
        raise Unsupported("unsupported lvalue %s" % k)

    def load(self, lv, env):
        kind, a, w, sg = lv
        if kind == "var":
            if a not in env.vars:
                raise Unsupported("read of unknown variable %s" % a)
            return env.vars[a].resize(w, sg) if env.vars[a].w != w else BV(env.vars[a].bits, sg)
        if kind.startswith("obj:"):
            return BV(env.objs[kind[4:]][a:a + w], sg)
        if env.storage is None:
            raise Unsupported("storage access without object")
        return BV(env.storage[a:a + w], sg)

    def store(self, lv, val, env):
        kind, a, w, sg = lv
        v = val.resize(w, sg)
        if kind == "var":
            env.vars[a] = v
        elif kind.startswith("obj:"):
            raise Unsupported("write to an object passed by reference")
        else:
            if env.storage is None:
                raise Unsupported("storage access without object")
            env.storage[a:a + w] = v.bits

    # ---------------------------------------------------------------- expressions
    def ev(self, n, env, depth=0):
        n0 = n
        n = strip(n)
        k = n.get("k")
        t = n.get("t")
        if k not in ("assign", "cassign", "call", "un") or (k == "un" and not n["op"].startswith(("pre", "post"))):
            if "cv" in n or "cvs" in n:
                if t and t.get("k") in ("int", "enum", "bool"):
                    w, sg = type_width(t)
                    return BV.const(const_value(n), w, sg)
        if k == "lit":
            if "cvf" in n:
                try:
                    if float(n["cvf"]) == 0.0 and not str(n["cvf"]).startswith("-"):
                        return BV.const(0, (t or {}).get("bits", 32), False)  # +0.0 is the all-zero pattern
                except (TypeError, ValueError):
                    pass
                raise Unsupported("floating literal")
            raise Unsupported("literal without value")
        if k == "ref":
            if n.get("dk") in ("param", "local"):
                return self.load(self.lvalue(n, env), env)
            raise Unsupported("reference to %s %s" % (n.get("dk"), n.get("decl")))
        if k == "member":
            return self.load(self.lvalue(n, env), env)
        if k == "cast":
            ck = n.get("ck")
            v = self.ev(n["e"], env, depth)
            if ck in ("IntegralCast", "BooleanToSignedIntegral"):
                w, sg = type_width(t)
                return v.resize(w, sg)
            if ck == "IntegralToBoolean":
                return BV([v.any()], False)
            if ck in ("NoOp", "LValueToRValue"):
                return v
            raise Unsupported("cast kind %s" % ck)
        if k == "un":
            op = n["op"]
            if op == "~":
                v = self.ev(n["e"], env, depth)
                return BV([t_not(b) for b in v.bits], v.signed)
            if op == "!":
                v = self.ev(n["e"], env, depth)
                return BV([t_not(v.any())], False)
            if op in ("-", "+"):
                v = self.ev(n["e"], env, depth)
                c = v.value()
                if c is None:
                    return BV([_mix(*v.bits)] * v.w, v.signed)
                return BV.const(-c if op == "-" else c, v.w, v.signed)
            if op in ("pre++", "pre--", "post++", "post--"):
                lv = self.lvalue(n["e"], env)
                old = self.load(lv, env)
                c = old.value()
                if c is None:
                    new = BV([_mix(*old.bits)] * old.w, old.signed)
                else:
                    new = BV.const(c + (1 if "++" in op else -1), old.w, old.signed)
                self.store(lv, new, env)
                return new if op.startswith("pre") else old
            raise Unsupported("unary %s" % op)
        if k == "bin":
            return self.binop(n["op"], self.ev(n["l"], env, depth), self.ev(n["r"], env, depth), t)
        if k == "assign":
            v = self.ev(n["r"], env, depth)
            lv = self.lvalue(n["l"], env)
            self.store(lv, v, env)
            return self.load(lv, env)
        if k == "cassign":
            lv = self.lvalue(n["l"], env)
            old = self.load(lv, env)
            r = self.ev(n["r"], env, depth)
            cw, csg = type_width(n["ct"])
            res = self.binop(n["op"], old.resize(cw, csg) if old.w != cw else BV(old.bits, csg), r.resize(cw, csg) if r.w != cw else r, n["ct"])
            self.store(lv, res, env)
            return self.load(lv, env)
        if k == "cond":
            c = self.ev(n["c"], env, depth)
            ct = c.any()
            if ct == C1:
                return self.ev(n["a"], env, depth)
            if ct == C0:
                return self.ev(n["b"], env, depth)
            ea, eb = env.fork(), env.fork()
            a = self.ev(n["a"], ea, depth)
            b = self.ev(n["b"], eb, depth)
            self.join(env, ct, ea, eb)
            w = max(a.w, b.w)
            a, b = a.resize(w), b.resize(w)
            return BV([t_ite(ct, x, y) for x, y in zip(a.bits, b.bits)], a.signed)
        if k == "call":
            return self.call(n, env, depth)
        if k == "subscript":
            b = strip_all_casts(n["base"])
            if b.get("k") == "ref" and b.get("decl") in env.arrays:
                tab = env.arrays[b["decl"]]
                idx = self.ev(n["idx"], env, depth)
                iv = idx.value()
                if iv is not None:
                    if not 0 <= iv < len(tab):
                        raise Unsupported("constant index %d outside the %d-element table" % (iv, len(tab)))
                    return tab[iv]
                # symbolic index: a multiplexer over the table; an index the table does not have reads foreign memory — outside the vocabulary
                live = [j for j, bt in enumerate(idx.bits) if bt != C0]
                if len(live) > 8 or (1 << (max(live) + 1 if live else 0)) > len(tab) or (idx.signed and idx.bits[-1] != C0):
                    # (whether the index stays inside the table is C02's question — tables.OutOfTable; for the bits that come back it is enough
                    # that they are some function of the index other than the index itself, unless every element equals its own index)
                    if all(el.value() == j for j, el in enumerate(tab)):
                        raise Unsupported("identity table of %d elements indexed by a value that is not confined to it" % len(tab))
                    return BV([_mix(*idx.bits)] * tab[0].w, tab[0].signed)
                w0 = tab[0].w
                res = BV.const(0, w0, tab[0].signed)
                for j, el in enumerate(tab):
                    if j >= (1 << (max(live) + 1 if live else 0)):
                        break
                    hit = C1
                    for bpos in live:
                        bit = idx.bits[bpos]
                        hit = t_and(hit, bit if (j >> bpos) & 1 else t_not(bit))
                    res = BV([t_ite(hit, x, y) for x, y in zip(el.bits, res.bits)], tab[0].signed)
                return res
            raise Unsupported("subscript of something that is not a local constant table")
        if k == "sizeof":
            raise Unsupported("sizeof without constant value")
        if k == "initlist" and len(n.get("inits", [])) == 1 and (t or {}).get("k") in ("int", "enum", "bool", "float"):
            v = self.ev(n["inits"][0], env, depth)  # scalar list-initialisation: T x{value}
            w, sg = type_width(t)
            return v.resize(w, sg) if v.w != w else BV(v.bits, sg)
        if k == "initlist" and not n.get("inits") and (t or {}).get("k") in ("int", "enum", "bool", "float"):
            w, sg = type_width(t)
            return BV.const(0, w, sg)
        raise Unsupported("expression kind %s (%s)" % (k, n.get("cls", "")))

    def binop(self, op, a, b, t):
        if t is not None and t.get("k") in ("int", "enum", "bool", "float"):
            w, sg = type_width(t)
        else:
            w, sg = max(a.w, b.w), a.signed
        if op in ("&", "|", "^"):
            a, b = a.resize(w), b.resize(w)
            f = {"&": t_and, "|": t_or, "^": t_xor}[op]
            return BV([f(x, y) for x, y in zip(a.bits, b.bits)], sg)
        if op in ("<<", ">>"):
            sh = b.value()
            a = a.resize(w) if a.w != w else a
            if sh is None:
                return BV([_mix(*(a.bits + b.bits))] * w, sg)
            if sh < 0 or sh >= w:
                raise Unsupported("shift by %d of %d-bit value" % (sh, w))
            if op == "<<":
                return BV([C0] * sh + a.bits[:w - sh], sg)
            fill = a.bits[-1] if a.signed else C0
            return BV(a.bits[sh:] + [fill] * sh, sg)
        if op in ("==", "!="):
            ww = max(a.w, b.w)
            a2, b2 = a.resize(ww), b.resize(ww)
            d = C0
            for x, y in zip(a2.bits, b2.bits):
                d = t_or(d, t_xor(x, y))
            return BV([d if op == "!=" else t_not(d)], False)
        if op in ("&&", "||"):
            f = t_and if op == "&&" else t_or
            return BV([f(a.any(), b.any())], False)
        av, bv = a.value(), b.value()
        if av is not None and bv is not None:
            try:
                r = {"+": lambda: av + bv, "-": lambda: av - bv, "*": lambda: av * bv,
                     "/": lambda: int(av / bv) if bv else None, "%": lambda: av - bv * int(av / bv) if bv else None,
                     "<": lambda: int(av < bv), "<=": lambda: int(av <= bv), ">": lambda: int(av > bv),
                     ">=": lambda: int(av >= bv)}[op]()
            except KeyError:
                raise Unsupported("binary operator %s" % op)
            if r is None:
                raise Unsupported("division by zero")
            return BV.const(r, w, sg)
        if op == "+":
            a2, b2 = a.resize(w), b.resize(w)
            if all(x == C0 or y == C0 for x, y in zip(a2.bits, b2.bits)):
                return BV([t_or(x, y) for x, y in zip(a2.bits, b2.bits)], sg)
        if op in ("+", "-", "*", "/", "%", "<", "<=", ">", ">="):
            m = _mix(*(a.bits + b.bits))
            if op in ("<", "<=", ">", ">="):
                return BV([m], False)
            return BV([m] * w, sg)
        raise Unsupported("binary operator %s" % op)

    # ---------------------------------------------------------------- calls
    def call(self, n, env, depth):
        c = n.get("callee") or {}
        if depth >= self.max_depth:
            raise Unsupported("inlining depth exceeded at %s" % c.get("name"))
        if c.get("name") in ("memcpy", "std::memcpy", "memmove", "std::memmove") and len(n.get("args", [])) == 3:
            # bit copy between two scalar variables of the same size: memcpy(&a, &b, sizeof a)
            d, s_, ln = (strip_all_casts(a) for a in n["args"])
            nbytes = const_value(ln)
            if d.get("k") == "un" and d.get("op") == "&" and s_.get("k") == "un" and s_.get("op") == "&" and nbytes is not None:
                dl, sl = self.lvalue(d["e"], env), self.lvalue(s_["e"], env)
                if dl[0] == "var" and sl[0] == "var" and dl[2] == sl[2] == 8 * nbytes:
                    env.vars[dl[1]] = BV(self.load(sl, env).bits, dl[3])
                    return BV([], False)
            raise Unsupported("memcpy that is not a whole-object copy between two scalars")
        if n.get("op") in ("==", "!=") and (c.get("name") or "").startswith("std::operator"):
            # std::tie(a, b, ..) == std::tie(c, d, ..): member-wise equality of the tied values
            ops = ([n["obj"]] if "obj" in n else []) + list(n.get("args", []))

            def tied(x):
                for _ in range(6):
                    x = strip_all_casts(x)
                    if x.get("k") in ("construct", "temp") and len(x.get("args", [])) == 1:
                        x = x["args"][0]
                        continue
                    break
                return x.get("args", []) if x.get("k") == "call" and (x.get("callee") or {}).get("name") == "std::tie" else None
            if len(ops) == 2:
                ta, tb = tied(ops[0]), tied(ops[1])
                if ta is not None and tb is not None and len(ta) == len(tb) and ta:
                    acc = C1
                    for x, y in zip(ta, tb):
                        acc = t_and(acc, self.binop("==", self.ev(x, env, depth), self.ev(y, env, depth), None).bits[0])
                    return BV([acc if n["op"] == "==" else t_not(acc)], False)
        g = self.fb.resolve_call(n)
        if g is None or g.body is None:
            raise Unsupported("call to %s (no body under the analysed root)" % c.get("name"))
        # the float overload of swapEndian is recognised as a byte permutation
        if c.get("name") == "ASAM::CMP::swapEndian" and c.get("ptypes") == ["const float"] or \
                (c.get("name") == "ASAM::CMP::swapEndian" and c.get("ptypes") == ["float"]):
            v = self.ev(n["args"][0], env, depth)
            try:
                sub = Env(None, {g.params[0]["decl"]: BV(v.bits, False)}, None)
                self.block(g.body, sub, depth + 1)
                if sub.ret is not None and sub.done == C1 and sub.ret.w == 32:
                    return BV(sub.ret.bits, False)
            except Unsupported:
                pass
            perm = self.float_swap(g)
            return BV([v.bits[8 * perm[i // 8] + i % 8] for i in range(32)], False)
        args = [self.ev(a, env, depth) for a in n.get("args", [])]
        params = {}
        for p, a in zip(g.params, args):
            pw, psg = type_width(p["t"])
            params[p["decl"]] = a.resize(pw, psg) if a.w != pw else BV(a.bits, psg)
        if "obj" in n:
            o = strip(n["obj"])
            if o.get("k") == "ref" and o.get("decl") in env.objs and c.get("const"):
                sub = Env(list(env.objs[o["decl"]]), params, g.rec)
                self.block(g.body, sub, depth + 1)
                if sub.ret is None or sub.done != C1:
                    raise Unsupported("callee %s does not return a value on every path" % g.name)
                return sub.ret
            if o.get("k") != "this":
                raise Unsupported("member call on object other than this: %s" % c.get("name"))
            sub = Env(env.storage, params, g.rec, env.objs)
        elif c.get("rec") and not c.get("static") and n.get("ck") == "member":
            sub = Env(env.storage, params, g.rec)
        else:
            sub = Env(None, params, None)
        self.block(g.body, sub, depth + 1)
        if sub.storage is not None:
            env.storage = sub.storage
        rt = g.raw.get("rett") or {}
        if rt.get("k") == "void":
            return BV([], False)
        if sub.ret is None or sub.done != C1:
            raise Unsupported("callee %s does not return a value on every path" % g.name)
        return sub.ret

    def float_swap(self, g):
        """Recognise the byte-assignment body of swapEndian(float) and return the
        permutation perm[out_byte] = in_byte."""
        if self.float_swap_perm is not None:
            return self.float_swap_perm
        ptr_of = {}
        perm = {}
        ret_var = None
        for s in g.body.get("body", []):
            k = s.get("k")
            if k == "decl":
                for v in s["vars"]:
                    init = v.get("init")
                    if init is None:
                        continue
                    i = init
                    while i.get("k") == "cast":
                        i = i["e"]
                    if i.get("k") == "un" and i.get("op") == "&":
                        tgt = strip(i["e"])
                        if tgt.get("k") == "ref":
                            ptr_of[v["decl"]] = tgt["decl"]
                            continue
                    if v["t"].get("k") == "float":
                        ret_var = v["decl"]
                        continue
                    raise Unsupported("swapEndian(float): unrecognised declaration")
            elif k == "assign":
                l, r = strip(s["l"]), strip(s["r"])
                while r.get("k") == "cast":
                    r = r["e"]
                if l.get("k") == "subscript" and r.get("k") == "subscript":
                    lb, rb = strip(l["base"]), strip(r["base"])
                    li, ri = const_value(l["idx"]), const_value(r["idx"])
                    if lb.get("k") == "ref" and rb.get("k") == "ref" and li is not None and ri is not None:
                        if ptr_of.get(lb["decl"]) == ret_var and ptr_of.get(rb["decl"], "").startswith("p0"):
                            perm[li] = ri
                            continue
                raise Unsupported("swapEndian(float): unrecognised assignment")
            elif k == "return":
                e = strip(s.get("e"))
                if not (e.get("k") == "ref" and e.get("decl") == ret_var):
                    raise Unsupported("swapEndian(float): returns something else")
            else:
                raise Unsupported("swapEndian(float): statement %s" % k)
        if sorted(perm) != [0, 1, 2, 3] or sorted(perm.values()) != [0, 1, 2, 3]:
            raise Unsupported("swapEndian(float): not a byte permutation: %r" % perm)
        self.float_swap_perm = perm
        return perm

    # ---------------------------------------------------------------- statements
    @staticmethod
    def _merge_bv(c, a, b):
        if a is None:
            return b
        if b is None:
            return a
        w = max(a.w, b.w)
        a, b = a.resize(w), b.resize(w)
        return BV([t_ite(c, x, y) for x, y in zip(a.bits, b.bits)], a.signed)

    def join(self, env, c, ea, eb):
        """env := c ? ea : eb.  A branch that returned contributes its return value under its
        own `done` condition; statements after the join run guarded by the merged condition."""
        if env.storage is not None:
            env.storage = [t_ite(c, x, y) for x, y in zip(ea.storage, eb.storage)]
        for v in set(ea.vars) | set(eb.vars):
            a, b = ea.vars.get(v), eb.vars.get(v)
            if a is None or b is None:
                continue
            env.vars[v] = self._merge_bv(c, a, b)
        env.done = t_ite(c, ea.done, eb.done)
        env.ret = self._merge_bv(c, ea.ret, eb.ret)

    def block(self, s, env, depth=0):
        if env.returned:
            return
        k = s.get("k")
        if env.done != C0 and k != "compound":
            # some paths have returned already: run the statement on the others only
            d = env.done
            e2 = env.fork()
            e2.done, e2.ret = C0, None
            self.block(s, e2, depth)
            if env.storage is not None:
                env.storage = [t_ite(d, x, y) for x, y in zip(env.storage, e2.storage)]
            for v, b in e2.vars.items():
                a = env.vars.get(v)
                env.vars[v] = b if a is None else self._merge_bv(d, a, b)
            env.ret = self._merge_bv(d, env.ret, e2.ret)
            env.done = t_or(d, e2.done)
            return
        if k == "compound":
            for x in s.get("body", []):
                self.block(x, env, depth)
                if env.returned:
                    return
        elif k == "decl":
            for v in s["vars"]:
                if "other" in v:
                    continue
                if (v.get("t") or {}).get("k") == "array" and isinstance(v.get("init"), dict) and strip(v["init"]).get("k") == "initlist":
                    # a local table of constants (e.g. a DLC-to-length table): kept element by element, read by `subscript`
                    elems = [self.ev(x, env, depth) for x in strip(v["init"]).get("inits", [])]
                    n = (v["t"] or {}).get("n") or len(elems)
                    if elems and len(elems) < n:
                        elems += [BV.const(0, elems[0].w, elems[0].signed)] * (n - len(elems))
                    if not elems or any(e.value() is None for e in elems):
                        raise Unsupported("local array %s is not a table of constants" % v.get("name"))
                    env.arrays = dict(env.arrays)
                    env.arrays[v["decl"]] = elems
                    continue
                if isinstance(v.get("init"), dict):
                    val = self.ev(v["init"], env, depth)
                    w, sg = type_width(v["t"])
                    env.vars[v["decl"]] = val.resize(w, sg) if val.w != w else BV(val.bits, sg)
                else:
                    raise Unsupported("uninitialised local %s" % v.get("name"))
        elif k == "if":
            if "init" in s or "condvar" in s:
                raise Unsupported("if with init statement")
            c = self.ev(s["cond"], env, depth).any()
            if c == C1:
                self.block(s["then"], env, depth)
            elif c == C0:
                if "else" in s:
                    self.block(s["else"], env, depth)
            else:
                ea, eb = env.fork(), env.fork()
                self.block(s["then"], ea, depth)
                if "else" in s:
                    self.block(s["else"], eb, depth)
                self.join(env, c, ea, eb)
        elif k == "return":
            if "e" in s and s["e"] is not None:
                env.ret = self.ev(s["e"], env, depth)
            env.done = C1
        elif k == "null":
            pass
        elif k == "switch":
            self.switch(s, env, depth)
        elif k == "break":
            raise Unsupported("break outside the top level of a switch section")
        elif k in ("while", "for", "do", "rangefor", "try"):
            raise Unsupported("statement kind %s" % k)
        else:
            self.ev(s, env, depth)

    def switch(self, s, env, depth):
        """switch over a value with constant case labels: every entry point (a run of labels) is executed on a fork of the state from
        its first statement to the next top-level `break` (fall-through included); the forks are merged by the label conditions."""
        for key in ("init", "condvar"):
            if isinstance(s.get(key), dict):
                self.block(s[key], env, depth)
        c = self.ev(s["cond"], env, depth)
        body = s.get("body") or {}
        items = body.get("body", []) if body.get("k") == "compound" else [body]
        flat = []  # (labels of this statement, statement)
        for it in items:
            labels = []
            while isinstance(it, dict) and it.get("k") in ("case", "default"):
                if it["k"] == "case":
                    v = const_value(it["value"])
                    if v is None:
                        raise Unsupported("case label without constant value")
                    labels.append(v)
                else:
                    labels.append("default")
                it = it.get("sub")
            flat.append((labels, it))
        if flat and not flat[0][0]:
            raise Unsupported("statement before the first case label")
        all_cases = [v for ls, _ in flat for v in ls if v != "default"]

        def is_value(v):
            return self.binop("==", c, BV.const(v, c.w, c.signed), None).bits[0]
        entries = []
        for i, (ls, _) in enumerate(flat):
            if not ls:
                continue
            cond = C0
            for v in ls:
                if v == "default":
                    d = C1
                    for w in all_cases:
                        d = t_and(d, t_not(is_value(w)))
                    cond = t_or(cond, d)
                else:
                    cond = t_or(cond, is_value(v))
            e2 = env.fork()
            for _, st in flat[i:]:
                if isinstance(st, dict) and st.get("k") == "break":
                    break
                if isinstance(st, dict):
                    self.block(st, e2, depth)
                if e2.returned:
                    break
            entries.append((cond, e2))
        base = env.fork()  # no label matches and there is no default: the switch does nothing
        for cond, e2 in reversed(entries):
            tmp = env.fork()
            self.join(tmp, cond, e2, base)
            base = tmp
        env.storage, env.vars, env.done, env.ret = base.storage, base.vars, base.done, base.ret

    # ---------------------------------------------------------------- entry points
    def run(self, fn, rec_size_bytes, params, storage=None, objs=None):
        """Interpret member function `fn` on an object of rec_size_bytes.
        params: decl id -> BV. Returns (storage after, return BV or None)."""
        if storage is None:
            storage = [S(i) for i in range(rec_size_bytes * 8)]
        env = Env(list(storage), params, fn.rec, objs)
        self.block(fn.body, env)
        st = [norm(b) for b in env.storage]
        ret = BV([norm(b) for b in env.ret.bits], env.ret.signed) if env.ret is not None else None
        return st, ret
