"""G8 — definitely-reset-before-read, lifted to data members.

For a record R, `Effects(fb, R).summary(fn, consts)` returns, for member function fn
(with the given parameters bound to constants), over all paths through fn and its
callees on *this:
  must_write  members that are definitely (re)defined on every path to the exit:
              plain assignment, clear(), assignment from another object;
  read_first  members that may be read (or read-modified) before they were defined
              on some path from fn's entry.
Read-modify-write operations (++, +=, push_back, resize …) read the old content and
do not count as a definition.
"""
from .build import Broken
from .facts import const_value, strip, strip_all_casts

RESET_METHODS = {"clear", "operator="}


class Effects:
    def __init__(self, fb, rec):
        self.fb = fb
        self.rec = rec
        self.fields = {f["qname"] for f in fb.record(rec)["fields"]}
        self._memo = {}
        self._stack = []
        self._may = {}

    def _member(self, n):
        n = strip_all_casts(n)
        if n.get("k") == "member" and n.get("dk") == "field" and n.get("field") in self.fields and \
                strip(n.get("base", {})).get("k") == "this":
            return n["field"]
        return None

    def _pruned_succ(self, fn, bid, consts):
        cfg = fn.cfg
        ss = cfg.succ[bid]
        if consts and cfg.is_cond_branch(bid):
            leaf = cfg.branch_leaf(bid)
            # the branch is decided when its condition evaluates under the constant parameter bindings alone
            # (a bool flag, `policy == Policy::reset`, `!flag`, ...)
            from . import tables
            try:
                v = tables.ev(leaf, dict(consts)) if leaf is not None else None
            except tables.Unsupported:
                v = None
            if v is not None and len(ss) == 2:
                return [ss[0]] if v else [ss[1]]
        return [s for s in ss]

    def summary(self, fn, consts=None):
        consts = dict(consts or {})
        key = (fn.key, tuple(sorted(consts.items())))
        if key in self._memo:
            return self._memo[key]
        if key in self._stack:
            raise Broken("recursion in %s" % fn.name)
        self._stack.append(key)
        cfg = fn.cfg
        parent = fn.parent
        # reachable blocks under pruning
        order = []
        seen = {cfg.entry}
        st = [cfg.entry]
        while st:
            b = st.pop()
            order.append(b)
            for s in self._pruned_succ(fn, b, consts):
                if s is not None and s not in seen:
                    seen.add(s)
                    st.append(s)
        preds = {b: [] for b in seen}
        for b in seen:
            for s in self._pruned_succ(fn, b, consts):
                if s is not None and s in seen:
                    preds[s].append(b)
        TOP = None
        inn = {b: TOP for b in seen}
        inn[cfg.entry] = frozenset()
        read_first = set()

        def transfer(b, W, collect):
            W = set(W)
            for e in cfg.blocks[b].get("el", []):
                if e < 0:
                    continue
                n = fn.node(e)
                if n is None:
                    continue
                k = n.get("k")
                if k == "member":
                    f = self._member(n)
                    if f is None:
                        continue
                    p = parent(n)
                    while p is not None and p.get("k") == "cast":
                        p = parent(p)
                    write_only = False
                    if p is not None:
                        if p.get("k") == "assign" and strip_all_casts(p["l"]).get("id") == n["id"]:
                            write_only = True
                        elif p.get("k") == "call" and "obj" in p and strip_all_casts(p["obj"]).get("id") == n["id"] and \
                                (p.get("callee") or {}).get("nm") in RESET_METHODS:
                            write_only = True
                    if not write_only and f not in W and collect:
                        read_first.add(f)
                elif k == "assign":
                    f = self._member(n["l"])
                    if f:
                        W.add(f)
                elif k == "call":
                    c = n.get("callee") or {}
                    if "obj" in n:
                        f = self._member(n["obj"])
                        if f and c.get("nm") in RESET_METHODS:
                            W.add(f)
                            continue
                        o = strip_all_casts(n["obj"])
                        if o.get("k") == "this" and c.get("rec") == self.rec:
                            g = self.fb.resolve_call(n)
                            if g is not None and g.cfg_raw:
                                sub = {}
                                for prm, a in zip(g.params, n.get("args", [])):
                                    a0 = strip(a)
                                    cv = const_value(a0)
                                    if cv is not None:
                                        sub[prm["decl"]] = cv
                                    elif a0.get("k") == "ref" and a0.get("decl") in consts:
                                        sub[prm["decl"]] = consts[a0["decl"]]
                                # default arguments are exported as the default expression
                                mw, rf = self.summary(g, sub)
                                if collect:
                                    read_first.update(rf - W)
                                W |= mw
            return frozenset(W)

        changed = True
        it = 0
        while changed:
            changed = False
            it += 1
            if it > 100:
                raise Broken("effects analysis did not converge in %s" % fn.name)
            for b in order:
                if b == cfg.entry:
                    continue
                acc = TOP
                for p in preds[b]:
                    if inn[p] is TOP:
                        continue
                    out = transfer(p, inn[p], False)
                    acc = out if acc is TOP else (acc & out)
                if acc is TOP:
                    continue
                if inn[b] is TOP or inn[b] != acc:
                    inn[b] = acc
                    changed = True
        for b in order:
            if inn[b] is not TOP:
                transfer(b, inn[b], True)
        if cfg.exit in seen and inn[cfg.exit] is not TOP:
            must = set(inn[cfg.exit])
        else:
            must = set()
        self._stack.pop()
        self._memo[key] = (must, read_first)
        return must, read_first


    def may_assign(self, fn, consts=None, _stack=None):
        """Members that some path through fn (and its callees on *this, with constant arguments propagated and the
        branches they decide pruned) assigns a plain value to — `m = expr`, `m.clear()` — as opposed to read-modify-write
        (`++m`, `m += ..`).  Returns {member: [assignment node, ...]}."""
        consts = dict(consts or {})
        key = (fn.key, tuple(sorted(consts.items())))
        if key in self._may:
            return self._may[key]
        _stack = _stack or []
        if key in _stack or not fn.cfg_raw:
            return {}
        _stack = _stack + [key]
        cfg = fn.cfg
        seen = {cfg.entry}
        st = [cfg.entry]
        out = {}
        while st:
            b = st.pop()
            for e in cfg.blocks[b].get("el", []):
                n = fn.node(e) if e >= 0 else None
                if n is None:
                    continue
                if n.get("k") == "assign":
                    f = self._member(n["l"])
                    from .facts import walk
                    if f and not any(self._member(y) == f for y in walk(n["r"]) if y.get("k") == "member"):
                        # (m = m + 1 is a read-modify-write spelled as an assignment, not a new value)
                        out.setdefault(f, []).append(n)
                elif n.get("k") == "call":
                    c = n.get("callee") or {}
                    if "obj" in n:
                        f = self._member(n["obj"])
                        if f and c.get("nm") in RESET_METHODS:
                            out.setdefault(f, []).append(n)
                            continue
                        o = strip_all_casts(n["obj"])
                        if o.get("k") == "this" and c.get("rec") == self.rec:
                            g = self.fb.resolve_call(n)
                            if g is not None and g.cfg_raw:
                                sub = {}
                                for prm, a in zip(g.params, n.get("args", [])):
                                    a0 = strip(a)
                                    cv = const_value(a0)
                                    if cv is not None:
                                        sub[prm["decl"]] = cv
                                    elif a0.get("k") == "ref" and a0.get("decl") in consts:
                                        sub[prm["decl"]] = consts[a0["decl"]]
                                for f2, ns in self.may_assign(g, sub, _stack).items():
                                    out.setdefault(f2, []).extend(ns)
            for s2 in self._pruned_succ(fn, b, consts):
                if s2 is not None and s2 not in seen:
                    seen.add(s2)
                    st.append(s2)
        self._may[key] = out
        return out
