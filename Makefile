# setup_cmd: builds the one compiled artefact, the fact exporter (E1).
LLVM_CXXFLAGS := $(shell llvm-config-14 --cxxflags)
LLVM_LIBDIR   := /usr/lib/llvm-14/lib

all: bin/cmpfacts

bin/cmpfacts: tools/cmpfacts.cpp
	mkdir -p bin
	clang++ $(LLVM_CXXFLAGS) -std=c++17 -fno-rtti -O1 $< -o $@ \
	    $(LLVM_LIBDIR)/libclang-cpp.so.14 $(LLVM_LIBDIR)/libLLVM-14.so

clean:
	rm -rf bin .cache reports
