"""C18 — Endpoints are isolated from each other (non-interference premises)."""
from cmpverif.report import Result
from rules import decoder_rules as D

LEVEL = "proof"


def run(ctx):
    fb = ctx.fb()
    res = Result("C18")
    m = D.DecodeModel(fb)
    res.rule("C18-R1", "the reassembly table is the only state that survives a decode call: Decoder has exactly one data member, no "
                        "static one, decode-reachable code references no mutable static object, entries hold values only")
    res.rule("C18-R2", "every use of the table is a keyed operation (operator[], erase, find, at, emplace...) inside decode whose key "
                        "is {getDeviceId(), getStreamId()} of this call's frame header in Endpoint field order; no iteration, no whole-table operation")
    res.rule("C18-R3", "Endpoint equality compares every field of both operands; the hash reads key fields only")
    res.rule("C18-R5", "all table uses are dominated by the undersized-buffer and TECMP early returns; TECMP decoder/converter are static "
                        "functions that take no Decoder")
    res.rule("C18-R6", "every packet pushed to the result is built from the current buffer or taken from the current key's entry")
    res.assumptions += ["semantics of std::unordered_map: entries of different keys are independent objects",
                        "the premises together imply non-interference: the only channel between calls is the table, a call touches only the entry of its own key"]
    res.not_decided += ["none beyond the trusted semantics of std::unordered_map"]
    D.rule_table_only_state(res, "C18-R1", m)
    n = D.rule_keyed_access(res, "C18-R2", m)
    D.rule_key_equality(res, "C18-R3", m)
    D.rule_early_returns(res, "C18-R5", m)
    D.rule_entry_classification(res, "C18-R5", m, parts=("cm-path",))  # a zero-leading (TECMP or cut-short TECMP) buffer never reaches the table
    k = D.rule_output_sources(res, "C18-R6", m)
    res.floor("C18-R2", 5)
    res.floor("C18-R6", 2, k)
    res.floor("C18-R1", 7)
    return res
