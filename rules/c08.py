"""C08 — Segmentation and aggregation follow the protocol rules (structural clauses)."""
from cmpverif import accessors
from cmpverif.build import Broken
from cmpverif.report import Result
from rules import encoder_rules as E

LEVEL = "other"


def run(ctx):
    fb = ctx.fb()
    res = Result("C08")
    m = E.EncoderModel(fb)
    res.rule("C08-R1", "segment-flag table read off the CFG paths of the flag builder: not segmented -> unsegmented; segmented and first index "
                        "-> first; segmented, later, position+chunk == total -> last; else intermediary; the total is the packet's payload length")
    res.rule("C08-R2", "the flag lands in bits 2-3 of the common flags with wire values 0..3 (G4 result for set/getSegmentType)")
    res.rule("C08-R3", "the frame header announces the type of its messages: after a message-type change the template is rebuilt or invalidated "
                        "before the next frame is opened (or the type is stamped on the new frame)")
    res.rule("C08-R4", "segmentation is decided against an empty frame: the fit checker's positive answer is re-evaluated after opening a frame, "
                        "and the test compares sizeof(MessageHeader) + payload length with the free bytes")
    res.rule("C08-R5", "batch order: encode walks the range once, forwards, one putPacket per element; the frame list is only appended to")
    res.rule("C08-R6", "every message header written into a frame gets its segment type and payload length set after the raw header copy, on every path")
    res.rule("C08-R7", "a frame is built with this call's sizes and every chunk is cut at full width: frame template, free count and min/max are "
                        "(re)defined from this call's DataContext before use (shared with C10-R2/C07-R7); the room `free - 16` reaches min() "
                        "without narrowing and every write lands inside the frame (shared with C07-R6)")
    res.rule("C08-R8", "a last segment closes its frame: on every loop-body path taken with the flag == lastSegment the free-byte count ends at the "
                        "constant 0 (or a frame is opened) after the slice was placed")
    res.not_decided += ["'fits => appended', 'all but last fill to max' (depend on run-time sizes)"]
    E.rule_flag_table(res, "C08-R1", m)
    obs, ast = accessors.analyse(fb, ctx.spec("layout.json"), scope=lambda cls, stem: cls == "ASAM::CMP::MessageHeader" and stem == "SegmentType")
    for o in obs:
        if o.cls == "ASAM::CMP::MessageHeader" and "SegmentType" in o.key:
            res.check(o.ok, "C08-R2", o.key, o.loc, o.detail)
    accessors.require_supported(ast)
    # the type a frame announces is the packet's: read through Packet::getMessageType() -> PayloadType::getMessageType(), written through
    # CmpHeader::setMessageType(); both hand every value through unchanged (a range check that maps `vendor` to `undefined` makes vendor frames
    # announce 0 — and, first in a batch, skips the frame opening altogether)
    obs2, ast2 = accessors.analyse(fb, ctx.spec("layout.json"), scope=lambda cls, stem: stem == "MessageType" and cls in ("ASAM::CMP::PayloadType", "ASAM::CMP::CmpHeader"))
    k2 = 0
    for o in obs2:
        if o.cls in ("ASAM::CMP::PayloadType", "ASAM::CMP::CmpHeader") and "MessageType" in o.key and o.tag in ("position", "readback", "frame"):
            res.check(o.ok, "C08-R3", "type-accessor:" + o.key.replace("ASAM::CMP::", ""), o.loc, o.detail)
            k2 += 1
    accessors.require_supported(ast2)
    if k2 < 6:
        raise Broken("C08-R3: message-type accessor obligations not found (%d)" % k2)
    E.rule_type_change_rebuilds_template(res, "C08-R3", m)
    E.rule_type_change_opens_frame(res, "C08-R3", m)
    E.rule_open_reasons(res, "C08-R3", m)
    n4 = E.rule_fit_decided_on_fresh_frame(res, "C08-R4", m, placement=True)
    E.rule_batch_order(res, "C08-R5", m)
    E.rule_header_fully_stamped(res, "C08-R6", m)
    E.rule_state_reset(res, "C08-R7", "C08-R7", m)
    E.rule_limits_taken_unchanged(res, "C08-R7", m)  # the maximum the fit test works against is the caller's, in every entry point
    E.rule_writes_inside_frame(res, "C08-R7", m, placement=True)
    E.rule_last_segment_closes_frame(res, "C08-R8", m)
    res.floor("C08-R8", 1)
    res.floor("C08-R7", 20)
    res.floor("C08-R1", 4)
    res.floor("C08-R2", 12)
    res.floor("C08-R3", 1)
    res.floor("C08-R4", 1, n4)
    res.floor("C08-R5", 5)
    res.floor("C08-R6", 2)
    return res
