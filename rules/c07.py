"""C07 — Every encoded frame is well-formed and within the configured size bounds (structural clauses)."""
from cmpverif.report import Result
from rules import encoder_rules as E

LEVEL = "other"


def run(ctx):
    fb = ctx.fb()
    res = Result("C07")
    m = E.EncoderModel(fb)
    res.rule("C07-R1", "frames are born zeroed at maximum size and trimmed: the template's only sizing is resize(max, 0); every resize of a frame is "
                        "resize(max(used, min), 0); no reserve; the previous frame is trimmed before each push and the last before return")
    res.rule("C07-R2", "no frame without a message: over all paths of putPacket, a (may-)open is never followed by another (may-)open or by the "
                        "function exit / loop back edge without a message-header write in between")
    res.rule("C07-R3", "empty batch: element access on the frame list in the finisher is guarded by a non-emptiness test")
    res.rule("C07-R4", "tiling: declared payload length == copied length == payload-position movement == free-byte movement; header written before the slice")
    res.rule("C07-R5", "each payload byte once, in order: the copy source advances with the loop position")
    res.rule("C07-R6", "writes stay inside the frame: the message header is written only with >= 16 free bytes on every path (test taken false, or a "
                        "frame opened just before), the chunk is min(free - 16, ...) computed before the header write, the header writer takes exactly "
                        "16 bytes, and header and chunk are written at frame[size() - free]")
    res.rule("C07-R7", "the sizes a call works with are this call's: the frame template, the free-byte count and min/max are (re)defined from this call's "
                        "DataContext on every path before they are read (C10-R2's definite-reset analysis) — a template kept from a call with another "
                        "maximum gives frames of the old size while the free count follows the new one")
    res.not_decided += ["min <= len <= max and exact tiling as arithmetic over all (min, max, len)"]
    nt, nf = E.rule_frames_zeroed_trimmed(res, "C07-R1", m)
    E.rule_no_empty_frame(res, "C07-R2", m)
    E.rule_empty_batch(res, "C07-R3", m)
    E.rule_one_length(res, "C07-R4", m)
    E.rule_header_fully_stamped(res, "C07-R4", m, only=("payload length",))  # the declared length is stamped on every path of the header writer, whatever the flag
    E.rule_segment_source_advances(res, "C07-R5", m)
    E.rule_puts_are_flushed(res, "C07-R5", m)  # every payload byte appears: what was put is handed out
    E.rule_batch_order(res, "C07-R5", m)  # ... in batch order: every encode overload walks [begin, end) once, forwards (shared with C08-R5)
    E.rule_writes_inside_frame(res, "C07-R6", m)
    E.rule_state_reset(res, "C07-R7", "C07-R7", m)
    E.rule_free_count_writers(res, "C07-R1", m)
    E.rule_limits_taken_unchanged(res, "C07-R7", m)
    res.floor("C07-R7", 15)
    res.floor("C07-R1", 5)
    res.floor("C07-R4", 4)
    res.floor("C07-R5", 1)
    res.floor("C07-R6", 7)
    return res
