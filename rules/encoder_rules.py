"""Shared analyses of the Encoder used by C01, C07, C08, C09, C10.

Roles are discovered from effects (DESIGN §3): the frame list is the
vector<vector<uint8_t>> member, the opener is the method that pushes onto it, the
message-header writer is the method that calls Packet::getRawMessageHeader, etc.
"""
from cmpverif import facts, paths
from cmpverif.build import Broken
from cmpverif.effects import Effects
from cmpverif.facts import (MustFacts, canon, callee_name, const_value, depends, lvalue_root, reads, strip,
                            strip_all_casts, walk, writes_of, called_names)

ENC = "ASAM::CMP::Encoder"
PKT = "ASAM::CMP::Packet"
MH = "ASAM::CMP::MessageHeader"
CH = "ASAM::CMP::CmpHeader"


class EncoderModel:
    def __init__(self, fb):
        self.fb = fb
        rec = fb.record(ENC)
        self.rec = rec
        F = rec["fields"]

        def one(pred, what):
            c = [f for f in F if pred(f)]
            if len(c) != 1:
                raise Broken("Encoder: cannot bind role '%s' (%d candidates)" % (what, len(c)))
            return c[0]["qname"]

        self.frames = one(lambda f: f["t"]["s"].startswith("std::vector<std::vector<unsigned char"), "frame list")
        self.template = one(lambda f: f["t"]["s"].startswith("std::vector<unsigned char"), "frame template")
        self.msgtype = one(lambda f: f["t"].get("enum") == CH + "::MessageType", "remembered message type")
        def returned_by(getter, what):
            """the member the public getter returns (a role by meaning: further members of the same type do not disturb it)"""
            g = fb.fn_opt(ENC + "::" + getter)
            rets = [strip_all_casts(r["e"]).get("field") for r in (g.returns() if g is not None else []) if isinstance(r.get("e"), dict)]
            if len(rets) != 1 or rets[0] not in {f["qname"] for f in F}:
                raise Broken("Encoder: cannot bind role '%s' (%s() does not return one member)" % (what, getter))
            return rets[0]
        u8 = [f for f in F if f["t"].get("k") == "int" and f["t"].get("bits") == 8]
        self.streamId = u8[0]["qname"] if len(u8) == 1 else returned_by("getStreamId", "stream id")
        self.methods = [f for f in fb.all_functions() if f.rec == ENC]
        if len(self.methods) < 15:
            raise Broken("Encoder: only %d method definitions found" % len(self.methods))
        self.writes = {}
        for f in self.methods:
            for d, kind, n in writes_of(f):
                if d.startswith(ENC + "::"):
                    self.writes.setdefault(d, []).append((f, kind, n))
        u16 = [f["qname"] for f in F if f["t"].get("k") == "int" and f["t"].get("bits") == 16]
        # the counter is the member the public getSequenceCounter() returns (however it is advanced)
        gsc = fb.fn_opt(ENC + "::getSequenceCounter")
        inc = []
        ints = [f["qname"] for f in F if f["t"].get("k") == "int"]
        if gsc is not None:
            rets = gsc.returns()
            # (whatever integer type the member has: its width is C09-R1's question, not a reason to lose the role)
            if len(rets) == 1 and isinstance(rets[0].get("e"), dict) and strip_all_casts(rets[0]["e"]).get("field") in ints:
                inc = [strip_all_casts(rets[0]["e"])["field"]]
        if not inc:
            inc = [q for q in u16 if any(k in ("pre++", "post++", "cassign") for _, k, _ in self.writes.get(q, []))]
        if len(inc) != 1:
            raise Broken("Encoder: cannot bind the sequence counter (16-bit members %s)" % u16)
        self.counter = inc[0]
        dev = [q for q in u16 if q != self.counter]
        if len(dev) != 1:
            dev = [returned_by("getDeviceId", "device id")]
        self.deviceId = dev[0]
        szt = [f["qname"] for f in F if f["t"]["s"] == "unsigned long"]
        if len(szt) != 3:
            raise Broken("Encoder: expected three size_t members (min, max, bytes left), found %d" % len(szt))
        # opener: the method pushing onto the frame list
        op = {f.key: f for f, k, n in self.writes.get(self.frames, []) if k in ("call:push_back", "call:emplace_back") and
              strip_all_casts(n.get("obj", {})).get("field") == self.frames}
        if len(op) != 1:
            raise Broken("Encoder: expected exactly one method pushing frames, found %d" % len(op))
        self.opener = list(op.values())[0]
        self.bytesLeft = None
        for q in szt:
            if any(k == "cassign" for _, k, _ in self.writes.get(q, [])):
                self.bytesLeft = q
        if not self.bytesLeft:
            raise Broken("Encoder: cannot bind the free-byte counter")
        # min / max: the members assigned from the public DataContext fields
        self.maxBytes = self.minBytes = None
        for q in szt:
            for f, k, n in self.writes.get(q, []):
                if k == "assign" and isinstance(n, dict):
                    for x in walk(n["r"]):
                        if x.get("k") == "member" and (x.get("rec") or "").endswith("DataContext"):
                            if x.get("name") == "maxBytesPerMessage":
                                self.maxBytes = q
                            elif x.get("name") == "minBytesPerMessage":
                                self.minBytes = q
        if not self.maxBytes or not self.minBytes or len({self.maxBytes, self.minBytes, self.bytesLeft}) != 3:
            raise Broken("Encoder: cannot bind the minimum / maximum frame size members")

        def method_with(pred, what, many=False):
            c = [f for f in self.methods if pred(f)]
            if not many and len(c) != 1:
                raise Broken("Encoder: cannot bind role '%s' (%d candidates)" % (what, len(c)))
            return c if many else c[0]

        self.header_writer = method_with(lambda f: any(True for _ in f.calls(PKT + "::getRawMessageHeader")), "message-header writer")
        self.template_builder = method_with(lambda f: any(strip_all_casts(c.get("obj", {})).get("field") == self.template
                                                          for c in f.calls() if (c.get("callee") or {}).get("nm") in ("resize", "assign", "reserve")),
                                            "template builder (sizes the template)")
        self.putPacket = method_with(lambda f: f.cfg_raw and any(
            PKT + "::getPayloadLength" in called_names(facts.expand(f, fn_node)) for _, fn_node in
            [(b, f.node(f.cfg.blocks[b]["cond"])) for b, _ in paths.loop_header(f) if f.cfg.blocks[b].get("cond", -1) >= 0]),
            "segmentation loop owner")
        def takes_packet_type(f):
            """f assigns the remembered type from the packet's getMessageType() — read in place, or handed in through a parameter that
            every call site fills from it"""
            for ff, k, n in self.writes.get(self.msgtype, []):
                if ff is not f or k != "assign":
                    continue
                if PKT + "::getMessageType" in called_names(n):
                    return True
                r = strip_all_casts(n["r"])
                pd = [q["decl"] for q in f.params]
                if r.get("k") == "ref" and r.get("dk") == "param" and r.get("decl") in pd:
                    i = pd.index(r["decl"])
                    sites = [(h, facts.effective_call(c)) for h in self.methods for c in h.calls() if fb.resolve_call(c) is f]

                    def from_packet(h, a):
                        if PKT + "::getMessageType" in called_names(facts.expand(h, a)):
                            return True
                        d = facts.current_definition(h, a) if h.cfg_raw else None
                        return d is not None and PKT + "::getMessageType" in called_names(d)
                    if sites and all(len(c.get("args", [])) > i and from_packet(h, c["args"][i]) for h, c in sites):
                        return True
            return False
        self.type_setter = method_with(takes_packet_type, "message-type setter")
        self.fit_checker = method_with(lambda f: (f.raw.get("rett") or {}).get("k") == "bool" and any(
            self.fb.resolve_call(c) is self.opener for c in f.calls()), "fit checker")
        # the flag builder may be a member or a file-local function: whatever the segmentation loop calls that returns a SegmentType
        fbs = {}
        for c in self.putPacket.calls():
            g = fb.resolve_call(c)
            if g is not None and g.body is not None and (g.raw.get("rett") or {}).get("enum") == MH + "::SegmentType" and not g.name.startswith(MH):
                fbs[g.key] = g
        if len(fbs) != 1:
            raise Broken("Encoder: cannot bind role 'segment-flag builder' (%d candidates)" % len(fbs))
        self.flag_builder = list(fbs.values())[0]
        # the finisher hands the frames out: returns the frame list type, takes no packet, and is not an encode entry point (nor a range helper of one)
        self.finisher = method_with(lambda f: (f.raw.get("rett") or {}).get("s", "").startswith("std::vector<std::vector<unsigned char") and
                                    f.name.split("::")[-1] != "encode" and not f.params and
                                    not any(fb.resolve_call(c) is self.putPacket for c in f.calls()), "frame finisher")
        self.encodes = [f for f in self.methods if f.name == ENC + "::encode"]
        if len(self.encodes) < 3:
            raise Broken("Encoder: expected at least 3 encode overloads (incl. witness instantiations), found %d" % len(self.encodes))
        self.eff = Effects(fb, ENC)
        loops = paths.loop_header(self.putPacket)
        if len(loops) != 1:
            raise Broken("putPacket: expected one loop")
        self.loop_block, self.loop_stmt = loops[0]

    def short(self, q):
        return q.split("::")[-1]

    def calls_fn(self, n, fn):
        return n.get("k") == "call" and self.fb.resolve_call(n) is fn

    def may_open(self, fn, _seen=None):
        """True when some path of fn calls the opener (through callees)."""
        if fn is self.opener:
            return True
        _seen = _seen or set()
        if fn.key in _seen:
            return False
        _seen.add(fn.key)
        for c in fn.calls():
            g = self.fb.resolve_call(c)
            if g is not None and g.rec == ENC and self.may_open(g, _seen):
                return True
        return False

    def opener_paths(self):
        """[(path of the opener, pushes a frame on it)]"""
        if getattr(self, "_opener_paths", None) is None:
            out = []
            for p in paths.enumerate_paths(self.opener):
                if p.end != "exit":
                    continue
                pushes = any(x.get("k") == "call" and (x.get("callee") or {}).get("nm") in ("push_back", "emplace_back") and
                             strip_all_casts(x.get("obj", {})).get("field") == self.frames for _, x in p.elems())
                out.append((p, pushes))
            self._opener_paths = out
        return self._opener_paths

    def must_open(self, fn):
        """True when every path of fn calls a must-open function (the opener itself: when every path of it pushes a frame — an opener
        that declines under some condition, e.g. while the current frame is still empty, only *may* open)."""
        if fn is self.opener:
            return all(pushes for _, pushes in self.opener_paths())
        ps = paths.enumerate_paths(fn)
        for p in ps:
            if not any((self.fb.resolve_call(c) is not None and self.fb.resolve_call(c).rec == ENC and
                        self.fb.resolve_call(c) is not fn and self.must_open(self.fb.resolve_call(c))) for c in p.calls()):
                return False
        return True


def encode_tag(e):
    pt = e.raw.get("ptypes", [])
    if len(pt) == 2:
        return "single-packet"
    return "range-of-pointers" if "shared_ptr" in pt[0] else "range-of-packets"


# ---------------------------------------------------------------------------- C10

def rule_state_reset(res, rid_class, rid_reset, m):
    """C10-R1/R2: classify every data member; scratch members are dead on entry of every encode overload."""
    fb = m.fb
    public_setters = {f.key for f in m.methods if f.raw.get("access") == "public" and f.name != ENC + "::encode"}
    cls = {}
    for fld in m.rec["fields"]:
        q = fld["qname"]
        ws = m.writes.get(q, [])
        if q == m.counter:
            cls[q] = "counter"
            continue
        init_like = True
        for f, kind, n in ws:
            if f.key in public_setters and kind == "assign":
                continue
            # written from the DataContext argument (init)
            if kind == "assign" and isinstance(n, dict) and any(
                    x.get("k") == "member" and (x.get("rec") or "").endswith("DataContext") for x in walk(n["r"])):
                continue
            init_like = False
        cls[q] = "configuration" if (ws and init_like) else "scratch"
        res.ok(rid_class, "member:" + fld["name"], fld["loc"], "classified as %s (%d write sites)" % (cls[q], len(ws)))
    res.ok(rid_class, "member:" + m.short(m.counter), "", "classified as counter (the offset the property allows)")
    scratch = {q for q, c in cls.items() if c == "scratch"}
    for e in m.encodes:
        must, rf = m.eff.summary(e)
        tag = encode_tag(e)
        for q in sorted(scratch):
            res.check(q not in rf, rid_reset, "encode(%s):%s" % (tag, m.short(q)), e.loc,
                      "%s is (re)defined on every path before its first read" % m.short(q),
                      "scratch member %s may be read before it is reset on a path from encode(): output depends on what an earlier "
                      "encode call left in it" % m.short(q))
        # configuration min/max come from this call's DataContext
        for q in (m.minBytes, m.maxBytes):
            res.check(q not in rf, rid_reset, "encode(%s):%s" % (tag, m.short(q)), e.loc, "%s is taken from this call's DataContext before use" % m.short(q),
                      "%s of an earlier call may be used" % m.short(q))
    return cls


# ---------------------------------------------------------------------------- C09

def rule_counter_writers(res, rid, m, reported=True):
    ws = m.writes.get(m.counter, [])
    f16 = m.fb.field(ENC, m.short(m.counter))
    if reported:
        # what getSequenceCounter() reports is the counter of the last emitted frame only if the member itself wraps where the 16-bit wire field does
        # (the frames stay consecutive modulo 2^16 either way: the header setter narrows — so this is C09's clause, not C01's or C10's)
        res.check(f16["t"].get("bits") == 16 and not f16["t"].get("sg"), rid, "counter:type", f16["loc"], "sequence counter is uint16_t (wraps modulo 65536 by type)",
                  "sequence counter has type %s: after 65536 frames the reported counter no longer equals the counter of the last emitted frame" % f16["t"]["s"])
    for f, kind, n in ws:
        if kind == "pre++":
            okk = f is m.opener
            res.check(okk, rid, "counter:%s:%s" % (f.name.split("::")[-1], kind), n.get("loc"), "pre-increment in the frame opener",
                      "sequence counter incremented outside the frame opener (in %s): frames and counters no longer pair up" % f.name)
        elif kind == "assign" and const_value(n["r"]) != 0 and f is m.opener:
            # an explicit successor: must be counter + 1 reduced modulo 2^16 by the conversion to the 16-bit member and by nothing else
            def syms(x):
                return "c" if x.get("k") == "member" and x.get("field") == m.counter else None
            from rules.decoder_rules import _linear
            form = _linear(f, n["r"], syms)
            ok = form is not None and form.get("c") == 1 and form.get(1, 0) == 1 and set(form) <= {"c", 1}
            res.check(ok, rid, "counter:%s:successor" % f.name.split("::")[-1], n.get("loc"), "counter := counter + 1 (wraps modulo 65536 by the member's type)",
                      "the sequence counter is advanced by `%s`, which is not `counter + 1` modulo 2^16: some value is skipped or repeated at the wrap" % canon(n["r"])[:120])
        elif kind == "assign":
            res.check(const_value(n["r"]) == 0, rid, "counter:%s:%s" % (f.name.split("::")[-1], kind), n.get("loc"), "reset to 0",
                      "sequence counter assigned %s in %s" % (canon(n["r"]), f.name))
        else:
            res.bad(rid, "counter:%s:%s" % (f.name.split("::")[-1], kind), n.get("loc") if isinstance(n, dict) else "",
                    "sequence counter modified by `%s` in %s: only a pre-increment per opened frame and resets to 0 are expected" % (kind, f.name))
    g = m.fb.fn(ENC + "::getSequenceCounter")
    rets = [n for n in g.nodes() if n.get("k") == "return"]
    okg = len(rets) == 1 and strip_all_casts(rets[0]["e"]).get("field") == m.counter
    res.check(okg, rid, "getSequenceCounter", g.loc, "returns the counter member unchanged", "getSequenceCounter does not return the counter member")


def rule_counter_survives_encode(res, rid, m):
    """Frames of one endpoint are numbered consecutively *across* encode calls: no path from an encode entry point
    (init, helpers, with the constant flags they pass propagated) assigns the sequence counter — it only advances."""
    n = 0
    for e in m.encodes:
        may = m.eff.may_assign(e)
        hits = may.get(m.counter, [])
        n += 1
        res.check(not hits, rid, "encode(%s):counter-not-reset" % encode_tag(e), (hits[0] if hits else e.raw).get("loc"),
                  "no path from this entry point assigns the sequence counter",
                  "a path from encode() assigns the sequence counter (`%s`): every call restarts the frame numbering, so counters repeat across "
                  "batches of one endpoint" % (canon(hits[0])[:80] if hits else ""))
    return n


def rule_frame_stamped(res, rid, m):
    """C09-R2: each push onto the frame list is followed by setSequenceCounter(++counter) on the pushed frame."""
    f = m.opener
    pushes = [n for ff, k, n in m.writes.get(m.frames, []) if k in ("call:push_back", "call:emplace_back") and
              strip_all_casts(n.get("obj", {})).get("field") == m.frames]
    cfg = f.cfg
    for pb in pushes:
        stamps = [c for c in f.calls(CH + "::setSequenceCounter")]
        ok = False
        why = "no setSequenceCounter call after the push"
        # advances of the counter in the opener: ++counter, or an explicit `counter = <successor>` (its arithmetic is C09-R1's)
        incs = [n for ff, k, n in m.writes.get(m.counter, []) if ff is f and (k in ("pre++", "post++") or (k == "assign" and const_value(n["r"]) != 0))]
        for s in stamps:
            a = strip_all_casts(s["args"][0])
            d_obj, c_obj = depends(f, s["obj"])
            arg_ok = a.get("k") == "un" and a.get("op") == "pre++" and lvalue_root(a["e"]) == m.counter
            if not arg_ok and a.get("field") == m.counter and len(incs) == 1:
                # `++counter; stamp(counter)`: the single increment lies between the push and the stamp in the same block
                bi, bs2 = cfg.block_for(incs[0]), cfg.block_for(s)
                arg_ok = bi == bs2 == cfg.block_for(pb) and cfg.pos_of[pb["id"]] < cfg.pos_of[incs[0]["id"]] < cfg.pos_of[s["id"]]
            on_frame = m.frames in d_obj and any(x.endswith(("::back", "::emplace_back", "::operator[]", "::data")) for x in c_obj)
            bp, bs = cfg.block_for(pb), cfg.block_for(s)
            after = (bp == bs and cfg.pos_of.get(s["id"], 0) > cfg.pos_of.get(pb["id"], 0)) or (bp != bs and bs in cfg.postdominators().get(bp, set()))
            if arg_ok and on_frame and after:
                ok = True
            else:
                why = "stamp %s: pre-incremented counter=%s, on the pushed frame=%s, after the push on every path=%s" % (canon(s), arg_ok, on_frame, after)
        res.check(ok, rid, "push:stamped", pb.get("loc"), "pushed frame is stamped with ++counter on every path", why)
    # nobody else replaces a frame (or the list) as a whole: the counter stamped on it would be replaced with it
    whole = [(ff, k, n) for ff, k, n in m.writes.get(m.frames, []) if k in ("call:operator=", "call:assign", "call:swap", "assign", "call:insert", "call:emplace")]
    def empties_list(k, n):
        # `frames = {}` / `frames = decltype(frames)()` / swap with a fresh local: the list as a whole is emptied, same as clear()
        if not isinstance(n, dict) or k not in ("call:operator=", "assign"):
            return False
        tgt = strip_all_casts(n.get("obj") or n.get("l") or {})
        src = (n.get("args") or [n.get("r")])[0]
        src = strip_all_casts(src) if isinstance(src, dict) else {}
        while src.get("k") in ("construct", "initlist", "temp", "bindtemp") and len(src.get("args", src.get("elems", [])) or []) == 1:
            src = strip_all_casts((src.get("args") or src.get("elems"))[0])
        return tgt.get("field") == m.frames and src.get("k") in ("construct", "initlist") and not (src.get("args") or src.get("elems"))
    whole = [(ff, k, n) for ff, k, n in whole if not empties_list(k, n)]
    for ff, k, n in whole:
        res.bad(rid, "frame-replaced:%s" % ff.name.split("::")[-1], n.get("loc") if isinstance(n, dict) else ff.loc,
                "%s replaces a frame of the list as a whole (%s): the sequence counter stamped on it when it was opened is replaced with it — the frame "
                "goes out with whatever counter the assigned bytes hold (0 for the template), the counter value it had is skipped" %
                (ff.name, k.replace("call:", "")))
    if not whole:
        res.ok(rid, "frames-only-pushed", f.loc, "frames enter the list through the opener's push only; no method replaces a frame or the list as a whole "
               "(writers: %s)" % ", ".join(sorted({k for _, k, _ in m.writes.get(m.frames, [])})))
    # the pushed value is the template
    for pb in pushes:
        a = strip_all_casts(pb["args"][0]) if pb.get("args") else {}
        while a.get("k") == "construct" and a.get("args"):
            a = strip_all_casts(a["args"][0])
        if a.get("field") != m.template and a.get("k") == "call":
            # a lazy accessor: returns (a reference to) the template member on every path
            g = m.fb.resolve_call(a)
            if g is not None and g.rec == ENC and g.body is not None:
                rets = g.returns()
                if rets and all(isinstance(r.get("e"), dict) and strip_all_casts(r["e"]).get("field") == m.template for r in rets):
                    a = strip_all_casts(rets[0]["e"])
        res.check(a.get("field") == m.template, rid, "push:template", pb.get("loc"), "every new frame is a copy of the frame template",
                  "a frame is pushed that is not the frame template: %s" % canon(pb["args"][0] if pb.get("args") else None))


def rule_identity(res, rid, m, identity_only=False):
    """C09-R3/R4: wherever a packet's raw CMP header is written into the frame template
    (or a frame), device id and stream id are afterwards overridden from the encoder's
    members; changing an id invalidates the template and resets the counter."""
    n_raw = 0
    for f in m.methods:
        raws = [c for c in f.calls(PKT + "::getRawCmpHeader") if {m.template, m.frames} & depends(f, c["args"][0])[0]]
        if not raws:
            continue
        cfg = f.cfg
        order = {}
        i = 0
        for b in sorted(cfg.blocks, reverse=True):
            for e in cfg.blocks[b].get("el", []):
                order[e] = i
                i += 1
        for raw in raws:
            n_raw += 1
            tag = f.name.split("::")[-1]
            # the raw header the packet hands out says the packet's version and message type, whatever their values: on every path
            # through getRawCmpHeader the header object copied out received setVersion(getVersion()) and setMessageType(getMessageType())
            g = m.fb.resolve_call(raw)
            if g is None or not g.cfg_raw:
                raise Broken("Packet::getRawCmpHeader has no body")
            for setter, getter, what in ((CH + "::setVersion", PKT + "::getVersion", "version"), (CH + "::setMessageType", PKT + "::getMessageType", "message type")):
                npaths = 0
                okp = True
                for p in paths.enumerate_paths(g):
                    if p.end != "exit":
                        continue
                    npaths += 1
                    okp = okp and any(c2.get("k") == "call" and callee_name(c2) == setter and c2.get("args") and getter in depends(g, c2["args"][0])[1]
                                      for _, c2 in p.elems())
                res.check(okp and npaths > 0, rid, "%s:raw-header:%s" % (tag, what.replace(" ", "-")), raw.get("loc"),
                          "the packet's raw CMP header carries the packet's %s on every path (%d)" % (what, npaths),
                          "Packet::getRawCmpHeader does not store the packet's %s into the header on every path: for some packets the frame "
                          "header keeps the default %s instead of the batch's" % (what, what))
            for setter, member, what in ((CH + "::setDeviceId", m.deviceId, "device id"), (CH + "::setStreamId", m.streamId, "stream id")):
                cs = list(f.calls(setter))
                ok = False
                for c in cs:
                    on_tpl = bool({m.template, m.frames} & depends(f, c["obj"])[0])
                    from_member = strip_all_casts(c["args"][0]).get("field") == member
                    bc, br = cfg.block_for(c), cfg.block_for(raw)
                    after = (bc == br and order.get(c["id"], -1) > order.get(raw["id"], 10 ** 9)) or (bc != br and bc in cfg.postdominators().get(br, set()))
                    if on_tpl and from_member and after:
                        ok = True
                res.check(ok, rid, "%s:%s" % (tag, what.replace(" ", "-")), raw.get("loc"),
                          "%s is overridden with the encoder's member after the raw header copy" % what,
                          "%s writes a packet's raw CMP header into the frame template without overriding the %s with the encoder's configured "
                          "value afterwards: frames carry the packet's own %s" % (f.name, what, what))
    if n_raw == 0:
        # the template's header may be composed field by field in a local CmpHeader that is then copied into the template: then every field
        # the frames need is set on it before the copy — version and message type from the packet, device and stream id from the members
        f = m.template_builder
        comp = 0
        for c in (f.calls() if f.cfg_raw else []):
            ca = facts.copy_args(c)
            if not ca or m.template not in depends(f, ca[0])[0]:
                continue
            s0 = strip_all_casts(ca[1])
            while s0.get("k") == "cast":
                s0 = s0["e"]
            if not (s0.get("k") == "un" and s0.get("op") == "&"):
                continue
            loc0 = strip_all_casts(s0["e"])
            if loc0.get("k") != "ref" or loc0.get("dk") != "local" or (loc0.get("t") or {}).get("rec") != CH:
                continue
            comp += 1
            tag = f.name.split("::")[-1]
            order = f.cfg.pos_of
            for setter, want, what in ((CH + "::setVersion", PKT + "::getVersion", "version"), (CH + "::setMessageType", PKT + "::getMessageType", "message type"),
                                       (CH + "::setDeviceId", m.deviceId, "device id"), (CH + "::setStreamId", m.streamId, "stream id")):
                ok = False
                for c2 in f.calls(setter):
                    if strip_all_casts(c2.get("obj", {})).get("decl") != loc0["decl"] or not c2.get("args"):
                        continue
                    before = f.cfg.block_for(c2) == f.cfg.block_for(c) and order.get(c2["id"], 10 ** 9) < order.get(c["id"], -1) or \
                        (f.cfg.block_for(c2) != f.cfg.block_for(c) and f.cfg.dominates(f.cfg.block_for(c2), f.cfg.block_for(c)))
                    src_ok = (want in depends(f, c2["args"][0])[1]) if "::get" in want else (strip_all_casts(c2["args"][0]).get("field") == want)
                    if before and src_ok:
                        ok = True
                res.check(ok, rid, "%s:composed-header:%s" % (tag, what.replace(" ", "-")), c.get("loc"),
                          "the composed frame header gets its %s from %s before it is copied into the template" % (what, "the packet" if "::get" in want else "the encoder's member"),
                          "%s composes the frame header in a local CmpHeader but never sets its %s from %s: every frame carries the default %s" %
                          (f.name, what, "the packet" if "::get" in want else "the encoder's member", what))
        if comp == 0:
            raise Broken("no function writes a raw CMP header into the frame template")
    # setters of the ids
    for member, what in ((m.deviceId, "device id"), (m.streamId, "stream id")):
        for wf, kind, n in m.writes.get(member, []):
            must, _ = m.eff.summary(wf)
            # counter reset to 0 and template cleared on every path
            if identity_only:
                res.check(m.template in must, rid, "set-%s:%s:template" % (what.replace(" ", "-"), wf.name.split("::")[-1]), wf.loc,
                          "changing the %s invalidates the cached frame template on every path" % what,
                          "%s writes the %s but does not (on every path) clear the frame template: later frames carry the old %s" % (wf.name, what, what))
                continue
            resets = {m.template, m.counter} <= must
            res.check(resets, rid, "set-%s:%s" % (what.replace(" ", "-"), wf.name.split("::")[-1]), wf.loc,
                      "changing the %s invalidates the cached template and resets the counter on every path" % what,
                      "%s writes the %s but does not (on every path) clear the frame template and reset the counter: must-write set %s" %
                      (wf.name, what, sorted(m.short(x) for x in must)))
    if identity_only:
        return
    r = m.fb.fn(ENC + "::restart")
    must, _ = m.eff.summary(r)
    res.check(m.counter in must, rid, "restart", r.loc, "restart() resets the counter", "restart() does not reset the counter on every path")


# ---------------------------------------------------------------------------- C08

def loop_position_vars(m):
    """Locals read by the segmentation loop's condition that the loop itself modifies (the payload
    position) — a cached total length or other loop-invariant local in the condition is not one."""
    cond = m.loop_stmt["cond"]
    written = set()
    for x in walk(m.loop_stmt.get("body", {})):
        if x.get("k") in ("assign", "cassign"):
            written.add(lvalue_root(x["l"]))
        elif x.get("k") == "un" and x.get("op") in ("pre++", "post++", "pre--", "post--"):
            written.add(lvalue_root(x["e"]))
    return [d for d in reads(cond) if facts.is_local_decl(d) and d in written]


def rule_flag_table(res, rid, m):
    """C08-R1: decision structure of the segment-flag builder, read off its CFG paths with
    its parameters bound to the arguments of its single call in the segmentation loop:
    not segmented -> unsegmented; segmented and segment index == 0 -> first; segmented,
    later, position + chunk == total -> last; else intermediary."""
    f = m.flag_builder
    pp = m.putPacket
    en = {e["value"]: e["name"] for e in m.fb.enum(MH + "::SegmentType")["enumerators"]}
    cs = [c for c in pp.calls() if m.calls_fn(c, f)]
    if len(cs) != 1:
        raise Broken("putPacket: expected one call of the flag builder")
    call = cs[0]
    bind = {p["decl"]: call["args"][i] for i, p in enumerate(f.params)}
    # roles of the caller's values
    fit = [v["decl"] for n in pp.nodes() if n.get("k") == "decl" for v in n.get("vars", []) if isinstance(v.get("init"), dict) and
           any(m.calls_fn(x, m.fit_checker) for x in walk(v["init"]) if x.get("k") == "call")]
    posv = loop_position_vars(m)
    if len(fit) != 1 or len(posv) != 1:
        raise Broken("putPacket: cannot bind the segmented flag / payload position")
    fit, posv = fit[0], posv[0]
    cps = segmentation_copy(m)
    if len(cps) != 1:
        raise Broken("putPacket: expected one payload copy")
    chunk = strip_all_casts(cps[0][3]).get("decl")
    idxv = [lvalue_root(x["e"]) for part in (m.loop_stmt.get("body", {}), m.loop_stmt.get("inc") or {}) for x in walk(part)
            if x.get("k") == "un" and x.get("op") in ("pre++", "post++")]
    idxv = [d for d in idxv if d and facts.is_local_decl(d) and d not in (posv,)]
    # the segment index must not wrap within one packet: up to 65535 segments (payload <= 65535 bytes, one byte per frame at worst)
    for n0 in pp.nodes():
        if n0.get("k") == "decl":
            for v in n0.get("vars", []):
                if v.get("decl") in idxv:
                    bits = (v.get("t") or {}).get("bits") or 0
                    sg = (v.get("t") or {}).get("sg")
                    res.check(bits - (1 if sg else 0) >= 16, rid, "flag:index-width", n0.get("loc"), "segment index has %d value bits" % (bits - (1 if sg else 0)),
                              "the per-packet segment index `%s` has only %d bits: it wraps to 0 within a packet of more than %d segments and that "
                              "segment is flagged 'first' again" % (v.get("name"), bits, 1 << bits))

    # ... also on its way into the flag builder: the parameter the index is bound to
    for i9, prm in enumerate(f.params):
        a9 = strip_all_casts(call["args"][i9]) if i9 < len(call.get("args", [])) else {}
        if a9.get("k") == "ref" and a9.get("decl") in idxv and prm["t"].get("k") == "int":
            bits9 = (prm["t"].get("bits") or 0) - (1 if prm["t"].get("sg") else 0)
            res.check(bits9 >= 16, rid, "flag:index-width:parameter", f.loc, "the flag builder takes the segment index in %d value bits" % bits9,
                      "the flag builder takes the segment index as `%s` (%d value bits): the index of a packet's segment %d arrives as 0 and that segment is "
                      "flagged 'first' again — the decoder restarts the reassembly and delivers the tail only" % (prm["t"].get("s"), bits9, 1 << bits9))
    # a bool that is true exactly in the first iteration: initialised true before the loop, set to false unconditionally in the loop body
    # after the flag builder was called (`bool isFirst = true; while (..) { flag(.., isFirst, ..); ...; isFirst = false; }`)
    firstflags = set()
    body = m.loop_stmt.get("body", {})
    top = body.get("body", []) if body.get("k") == "compound" else [body]
    ldefs = facts.local_defs(pp)
    for n0 in pp.nodes():
        if n0.get("k") != "decl":
            continue
        for v in n0.get("vars", []):
            if (v.get("t") or {}).get("k") != "bool" or const_value(v.get("init")) != 1:
                continue
            if any(a2.get("id") == m.loop_stmt.get("id") for a2 in pp.ancestors(n0)):
                continue
            ds = ldefs.get(v["decl"], [])
            asg = [x for x in pp.nodes() if x.get("k") == "assign" and strip_all_casts(x["l"]).get("decl") == v["decl"]]
            if len(ds) != 2 or len(asg) != 1 or const_value(asg[0]["r"]) != 0:
                continue
            # the assignment is a top-level statement of the loop body, after the statement that calls the flag builder
            def top_index(x):
                for i, st in enumerate(top):
                    if st.get("id") == x.get("id") or any(y.get("id") == x.get("id") for y in walk(st)):
                        return i
                return None
            ia, ic = top_index(asg[0]), top_index(call)
            direct = any(st.get("id") == asg[0].get("id") or (st.get("k") in ("exprstmt", "cast") and strip_all_casts(st.get("e", st)).get("id") == asg[0].get("id"))
                         for st in top) or (ia is not None and pp.parent(asg[0]) is not None and pp.parent(asg[0]).get("id") == body.get("id"))
            if ia is not None and ic is not None and ia > ic and direct:
                firstflags.add(v["decl"])

    def arg_of(node):
        n = strip_all_casts(node)
        if n.get("k") == "ref" and n.get("dk") == "param":
            return strip_all_casts(bind[n["decl"]])
        return None

    def is_last_pred(e):
        """e (over the caller's values) is `position + chunk == total payload length`."""
        e = strip(e)
        if e.get("k") == "bin" and e.get("op") == "==":
            for x, y in ((e["l"], e["r"]), (e["r"], e["l"])):
                x, y = strip_all_casts(x), strip_all_casts(y)
                if x.get("k") == "bin" and x.get("op") == "+" and {strip_all_casts(x["l"]).get("decl"), strip_all_casts(x["r"]).get("decl")} == {posv, chunk} and \
                        PKT + "::getPayloadLength" in called_names(facts.expand(pp, y)):
                    return True
        return False

    ps = paths.enumerate_paths(f)
    seen = set()
    for p in ps:
        r = p.returns()
        if r is None:
            continue
        v = p.value_of(r["e"], before=r["id"])
        name = en.get(const_value(v))
        seg = first = last = None
        unknown = []
        for a in p.atoms:
            if a[0] == "truth":
                arg = arg_of(a[3])
                if arg is None:
                    unknown.append(a[1])
                elif arg.get("decl") == fit:
                    seg = a[2]
                elif arg.get("decl") in firstflags:
                    first = a[2]
                elif is_last_pred(facts.expand(pp, arg, keep=(posv, chunk))) or \
                        (arg.get("k") == "ref" and arg.get("dk") == "local" and facts.current_definition(pp, arg) is not None and
                         is_last_pred(facts.current_definition(pp, arg))):
                    last = a[2]  # (also: a bool local computed in the caller from the values of this iteration)
                else:
                    unknown.append("%s := %s" % (a[1], canon(arg)))
            elif a[0] == "cmp" and a[2] in ("==", "!="):
                l, rr = strip_all_casts(a[4]), strip_all_casts(a[5])
                done = False
                for x, y in ((l, rr), (rr, l)):
                    ax = arg_of(x)
                    if ax is not None and const_value(y) == 0 and ax.get("decl") in idxv:
                        first = (a[2] == "==")
                        done = True
                    if x.get("k") == "bin" and x.get("op") == "+":
                        ops = [arg_of(x["l"]), arg_of(x["r"])]
                        ay = arg_of(y)
                        if all(o is not None for o in ops) and ay is not None and {o.get("decl") for o in ops} == {posv, chunk} and \
                                PKT + "::getPayloadLength" in called_names(facts.expand(pp, ay)):
                            last = (a[2] == "==")
                            done = True
                if not done:
                    unknown.append("%s %s %s" % (a[1], a[2], a[3]))
            else:
                unknown.append(str(a[1]))
        if seg is False:
            want = "unsegmented"
        elif seg is True and first is True:
            want = "firstSegment"
        elif seg is True and first is False and last is True:
            want = "lastSegment"
        elif seg is True and first is False and last is False:
            want = "intermediarySegment"
        else:
            want = None
        key = "flag:%s/%s/%s" % (seg, first, last)
        seen.add(want)
        if unknown and want is None:
            res.bad(rid, "flag:predicate:%s" % unknown[0][:60], r.get("loc"),
                    "the segment flag %s is decided by `%s`, which is none of the protocol's predicates (segmented; segment index == 0; position + chunk == "
                    "total payload length)" % (name, unknown[0]))
            continue
        res.check(name == want and want is not None, rid, key, r.get("loc"),
                  "segmented=%s, first index=%s, position+chunk==total=%s -> %s" % (seg, first, last, name),
                  "segment flag for (segmented=%s, index==0: %s, position+chunk==total: %s) is %s, protocol says %s" % (seg, first, last, name, want))
    missing = {"unsegmented", "firstSegment", "lastSegment", "intermediarySegment"} - seen
    if missing:
        res.bad(rid, "flag:coverage", f.loc, "the segment-flag builder has no path deciding %s by the protocol's predicates" % sorted(missing))


def rule_type_change_rebuilds_template(res, rid, m):
    """C08-R3: on a message-type change the frame template is rebuilt/invalidated
    before the next frame is opened, or the new frame's type is stamped after the push."""
    f = m.type_setter
    ps = paths.enumerate_paths(f)
    n = 0
    for p in ps:
        wrote = False
        fresh = False
        # the path itself may have established that the cached template already announces the new type, or is empty
        for a in p.atoms:
            if a[0] == "cmp" and a[2] == "==" and CH + "::getMessageType" in (called_names(a[4]) | called_names(a[5])) and \
                    m.template in (depends(f, a[4])[0] | depends(f, a[5])[0]):
                fresh = True
            if a[0] == "truth" and a[2] is True and a[3].get("k") == "call" and (a[3].get("callee") or {}).get("nm") == "empty" and \
                    strip_all_casts(a[3].get("obj", {})).get("field") == m.template:
                fresh = True
        path_fresh = fresh
        for _, x in p.elems():
            if x.get("k") == "assign" and lvalue_root(x["l"]) == m.msgtype:
                wrote = True
                fresh = path_fresh
            elif x.get("k") == "call":
                g = m.fb.resolve_call(x)
                nm = (x.get("callee") or {}).get("nm")
                if "obj" in x and strip_all_casts(x["obj"]).get("field") == m.template and nm in ("clear",):
                    fresh = True
                elif g is m.template_builder:
                    fresh = True
                elif callee_name(x) in (PKT + "::getRawCmpHeader", CH + "::setMessageType") and \
                        m.template in depends(f, x["args"][0] if callee_name(x).endswith("getRawCmpHeader") else x.get("obj", {}))[0]:
                    fresh = True  # the template's header (incl. message type) is rewritten from the current packet
                elif g is not None and g.rec == ENC and m.template in m.eff.summary(g)[0] and g is not m.opener:
                    fresh = True
                elif g is not None and g.rec == ENC and m.may_open(g) and wrote:
                    n += 1
                    # the opener stamps the type itself?
                    stamps = any(True for _ in m.opener.calls(CH + "::setMessageType"))
                    res.check(fresh or stamps, rid, "type-change:open", x.get("loc"),
                              "template invalidated/rebuilt between the type change and the next frame",
                              "after a message-type change a frame is opened from the cached template (built for the previous type): the "
                              "frame header announces the wrong message type")
    if n == 0:
        # the type setter does not open frames itself: the opener must rebuild lazily
        must, _ = m.eff.summary(f)
        res.check(m.template in must, rid, "type-change:invalidate", f.loc, "type change invalidates the template on every path",
                  "a message-type change neither opens a frame nor invalidates the cached template")
    return max(n, 1)


def rule_type_change_opens_frame(res, rid, m):
    """A frame announces one message type, stamped when it is opened: on every path on which the remembered message
    type is changed, a frame is opened before the next message header is written (and before the function returns to
    a caller that goes on writing).  Re-using the current frame — even one that holds no message yet — puts messages
    of the new type under a header that announces the previous one."""
    f = m.type_setter
    n = 0
    bad = None
    for p in paths.enumerate_paths(f):
        changed = False
        opened_after = False
        for _, x in p.elems():
            if x.get("k") == "assign" and lvalue_root(x["l"]) == m.msgtype:
                changed, opened_after = True, False
            elif x.get("k") == "call":
                g = m.fb.resolve_call(x)
                if g is not None and g.rec == ENC and m.must_open(g) and changed:
                    opened_after = True
                elif g is m.header_writer and changed and not opened_after and bad is None:
                    bad = x
        if changed:
            n += 1
            if not opened_after and bad is None and p.end == "exit":
                bad = p.returns() or f.raw
    res.check(bad is None, rid, "type-change:opens-frame", (bad or f.raw).get("loc") if isinstance(bad, dict) else f.loc,
              "every path that changes the remembered message type opens a frame afterwards (%d paths)" % n,
              "%s changes the remembered message type but, on some path, does not open a new frame: the next message goes into a frame "
              "whose header announces the previous type" % f.name)
    if n == 0:
        raise Broken("type setter: no path assigns the remembered message type")
    return n


OPEN_REASON_GETTERS = {PKT + "::getMessageType", PKT + "::getPayloadLength", PKT + "::getPayload"}


def rule_open_reasons(res, rid, m):
    """Messages of one type are aggregated: a frame is opened because the announced message type changes, because the message does not
    fit, or because there is no frame — nothing else about a packet decides it.  Closed world over the packet attributes that appear in a
    branch condition which governs a (may-)open: the message type and the payload length only."""
    n = 0
    bad = []
    for f in m.methods:
        if f.body is None:
            continue
        for c in f.calls():
            g = m.fb.resolve_call(c)
            if g is None or g.rec != ENC or not (g is m.opener or m.may_open(g)):
                continue
            n += 1
            x = c
            par = f.parent(x)
            while par is not None:
                cond = None
                if par.get("k") == "if" and par.get("cond") is not x:
                    cond = par.get("cond")
                elif par.get("k") in ("while", "for", "do") and par.get("cond") is not x:
                    cond = par.get("cond")
                elif par.get("k") == "cond" and par.get("c") is not x:
                    cond = par.get("c")
                if isinstance(cond, dict):
                    getters = {nm for nm in called_names(facts.expand(f, cond)) if nm.startswith(PKT + "::") and not nm.startswith(PKT + "::Packet")}
                    extra = sorted(getters - OPEN_REASON_GETTERS)
                    if extra:
                        bad.append((f, c, cond, extra))
                x, par = par, f.parent(par)
    if not n:
        raise Broken("no (may-)open call sites found")
    if bad:
        f, c, cond, extra = bad[0]
        res.bad(rid, "open-reasons:%s" % f.name.split("::")[-1], cond.get("loc") or c.get("loc"),
                "%s may open a frame (%s) under a condition that reads %s of the packet: packets of one message type that fit are no longer aggregated "
                "into the current frame when that attribute differs — the frame count and the position of every later message change" %
                (f.name, (callee_name(c) or "").split("::")[-1], ", ".join(e.split("::")[-1] + "()" for e in extra)))
    else:
        res.ok(rid, "open-reasons", m.putPacket.loc, "%d (may-)open call sites: the branch conditions that govern them read only the message type and the payload "
               "length of the packet" % n)
    return n


def rule_fit_decided_on_fresh_frame(res, rid, m, placement=False):
    """C08-R4: the fit checker's positive answer is computed after a frame was opened on
    that path, and its test reads sizeof(MessageHeader) + payload length against the free bytes."""
    f = m.fit_checker
    ps = paths.enumerate_paths(f)
    n = 0
    for p in ps:
        r = p.returns()
        if r is None:
            continue
        e = strip(r["e"])
        # paths that provably return false
        if e.get("k") == "ref":
            falsy = False
            last_assign_pos = -1
            els = list(p.elems())
            for i, (_, x) in enumerate(els):
                if x.get("k") == "assign" and strip_all_casts(x["l"]).get("decl") == e.get("decl"):
                    last_assign_pos = i
            for a in p.atoms:
                if a[0] == "truth" and a[3].get("k") == "ref" and a[3].get("decl") == e.get("decl") and a[2] is False and last_assign_pos < 0:
                    falsy = True
            if falsy:
                continue
        v = p.value_of(r["e"], before=r["id"])
        if const_value(v) == 0:
            continue
        n += 1
        v_orig = v
        v = facts.expand(f, v)
        # position of the evaluated test and of the opener call on the path
        els = [x["id"] for _, x in p.elems()]
        opens = [x for _, x in p.elems() if x.get("k") == "call" and m.fb.resolve_call(x) is not None and m.may_open(m.fb.resolve_call(x))]
        vids = [x["id"] for x in walk(v_orig) if x["id"] in els]
        okpos = bool(opens) and bool(vids) and els.index(opens[-1]["id"]) < min(els.index(i) for i in vids)
        if not okpos:
            # no open on this path: acceptable when the path has established that the current frame is still empty
            fresh_exprs = {canon(n["r"]) for ff, k, n in m.writes.get(m.bytesLeft, []) if ff is m.opener and k == "assign"}
            bl = "this->" + m.short(m.bytesLeft)
            okpos = any(a[0] == "cmp" and a[2] == "==" and ((a[1] == bl and a[3] in fresh_exprs) or (a[3] == bl and a[1] in fresh_exprs))
                        for a in p.atoms)
        rd = reads(v)
        cl = called_names(v)
        oktest = m.bytesLeft in rd and PKT + "::getPayloadLength" in cl  # (the header size in it is the exact-boundary obligation's linear form)
        # exact boundary: segmented iff free < sizeof(MessageHeader) + payload length (a packet that fits exactly is not split)
        def syms(z):
            if z.get("k") == "call" and callee_name(z) == PKT + "::getPayloadLength":
                return "len"
            if z.get("k") == "member" and z.get("field") == m.bytesLeft:
                return "free"
            return None
        from rules.decoder_rules import _linear
        exact = False
        for t in walk(v):
            if t.get("k") == "bin" and t.get("op") in ("<", ">"):
                lo, hi = (t["l"], t["r"]) if t["op"] == "<" else (t["r"], t["l"])
                fl, fh = _linear(f, lo, syms), _linear(f, hi, syms)
                if fl is not None and fh is not None and fl.get("free") == 1 and set(fl) <= {"free", 1} and fl.get(1, 0) == 0 and \
                        fh.get("len") == 1 and fh.get(1, 0) == m.fb.record(MH)["size"] and set(fh) <= {"len", 1}:
                    exact = True
        if placement and not getattr(res, "_fit_tests_done", False):
            res._fit_tests_done = True
            # every place where the fit checker compares the free bytes with the packet's length — also the first test, which decides
            # whether the packet goes into the current frame or a new one is opened — draws the line at the same exact boundary
            hdrs = m.fb.record(MH)["size"]
            for t in f.nodes():
                if t.get("k") == "bin" and t.get("op") in ("<", ">", "<=", ">="):
                    fl, fh = _linear(f, t["l"], syms), _linear(f, t["r"], syms)
                    if fl is None or fh is None:
                        continue
                    d = dict(fl)
                    for k2, v2 in fh.items():
                        d[k2] = d.get(k2, 0) - v2
                    if not (d.get("free") and d.get("len")):
                        continue
                    op = t["op"]
                    if d["free"] < 0:
                        d = {k2: -v2 for k2, v2 in d.items()}
                        op = {"<": ">", "<=": ">=", ">": "<", ">=": "<="}[op]
                    # free - len + c  op  0
                    c0 = d.get(1, 0)
                    okb = d.get("free") == 1 and d.get("len") == -1 and set(d) <= {"free", "len", 1} and \
                        ((op == "<" and c0 == -hdrs) or (op == "<=" and c0 == -hdrs + 1) or (op == ">=" and c0 == -hdrs) or (op == ">" and c0 == -hdrs + 1))
                    res.check(okb, rid, "fit:test@%s" % (t.get("loc") or "").split(":", 1)[-1], t.get("loc"),
                              "fits exactly when free >= %d + payload length" % hdrs,
                              "the fit checker compares the free bytes with the payload length as `%s`, not at `free < %d + payload length`: a packet that "
                              "exactly fills the rest of the current frame is not appended to it (or one that does not fit is)" % (canon(t)[:120], hdrs))
        res.check(exact, rid, "fit:exact-boundary", r.get("loc"), "does-not-fit test is exactly `free < %d + payload length`" % m.fb.record(MH)["size"],
                  "the fit test `%s` is not exactly `free bytes < sizeof(MessageHeader) + payload length`: packets at the fit boundary are split or overflow" % canon(v)[:160])
        oktest = oktest and exact
        res.check(okpos and oktest, rid, "fit:positive-path", r.get("loc"),
                  "a packet is marked segmented only after the fit test was re-evaluated against a freshly opened frame",
                  "the fit checker can answer 'segmented' from a test against a partially filled frame (opened before test: %s; test reads "
                  "free bytes, header size and payload length: %s)" % (okpos, oktest))
    return n


def rule_puts_are_flushed(res, rid, m):
    """Whatever was put is emitted: in every encode overload, a return that does not hand out the finisher's result (or another
    overload's) is not reachable from a putPacket call — otherwise frames that were opened, and the sequence counters they took,
    are dropped (the next emitted frame is not previous + 1 and getSequenceCounter() reports a frame nobody received)."""
    n = 0

    def hands_out(g, depth=2):
        """every return of helper g hands out the finisher's result (g owns the put loop and the flush)"""
        rets = [r for r in g.returns() if r.get("e") is not None]
        if not rets or depth < 0:
            return False
        for r in rets:
            cs = [x for x in walk(facts.expand(g, r["e"])) if x.get("k") == "call"]
            if not any(m.calls_fn(x, m.finisher) or (m.fb.resolve_call(x) is not None and m.fb.resolve_call(x).rec == ENC and
                                                     m.fb.resolve_call(x) is not g and m.fb.resolve_call(x).cfg_raw and hands_out(m.fb.resolve_call(x), depth - 1)) for x in cs):
                return False
        return True
    helpers = []
    for e in m.encodes:
        for c in e.calls():
            g = m.fb.resolve_call(c)
            if g is not None and g.rec == ENC and g not in m.encodes and g is not m.finisher and g.cfg_raw and g not in helpers and \
                    any(m.calls_fn(x, m.putPacket) for x in g.calls()) and g is not m.putPacket:
                helpers.append(g)
    for e in list(m.encodes) + helpers:
        if not e.cfg_raw:
            continue
        tag = encode_tag(e) if e in m.encodes else e.name.split("::")[-1]
        cfg = e.cfg
        puts = [c for c in e.calls() if m.calls_fn(c, m.putPacket) or
                (m.fb.resolve_call(c) is not None and m.fb.resolve_call(c).rec == ENC and m.fb.resolve_call(c) not in m.encodes and
                 m.fb.resolve_call(c) is not m.finisher and any(m.calls_fn(x, m.putPacket) for x in m.fb.resolve_call(c).calls()))]
        if not puts:
            continue
        def put_block(c):
            # a put inside a lambda (std::for_each(begin, end, [this](..) { putPacket(..); })) happens where the lambda is handed over
            b = cfg.block_for(c)
            for a in e.ancestors(c):
                if b is not None:
                    break
                b = cfg.block_of.get(a.get("id"))
            return b
        pblocks = {put_block(c) for c in puts}
        if None in pblocks:
            raise Broken("%s: a putPacket call cannot be placed in the control-flow graph" % e.name)
        reach = set()
        st = list(pblocks)
        while st:
            b = st.pop()
            for s2 in cfg.succ[b]:
                if s2 is not None and s2 not in reach:
                    reach.add(s2)
                    st.append(s2)
        for r in e.returns():
            if r.get("e") is None:
                continue
            calls = [x for x in walk(facts.expand(e, r["e"])) if x.get("k") == "call"]
            flushed = any(m.calls_fn(x, m.finisher) or (m.fb.resolve_call(x) in m.encodes) or
                          (m.fb.resolve_call(x) in helpers and hands_out(m.fb.resolve_call(x))) for x in calls)
            if flushed:
                n += 1
                continue
            rb = cfg.block_for(r)
            after_put = rb in reach or (rb in pblocks and any(cfg.pos_of.get(c["id"], -1) < cfg.pos_of.get(r["id"], -1) for c in puts if put_block(c) == rb))
            n += 1
            res.check(not after_put, rid, "encode(%s):return@%s" % (tag, (r.get("loc") or "").split(":", 1)[-1]), r.get("loc"),
                      "a return without the finisher's frames is only possible before anything was put",
                      "encode can return `%s` after packets of the batch were put: the frames already opened are never handed out, although their sequence "
                      "counters are taken" % canon(r["e"])[:60])
    if n == 0:
        raise Broken("no encode overload with a return statement found")
    return n


def rule_batch_order(res, rid, m):
    """C08-R5: encode walks the range once, forwards, one putPacket per element; frames are only appended."""
    for e0 in m.encodes:
        e = e0
        tag = encode_tag(e0)
        puts = [c for c in e.calls() if m.calls_fn(c, m.putPacket)]
        if not puts and not paths.loop_header(e):
            # the range is handed, unchanged, to one private range helper that owns the loop
            hs = [(c, m.fb.resolve_call(c)) for c in e.calls() if m.fb.resolve_call(c) is not None and m.fb.resolve_call(c).rec == ENC and
                  m.fb.resolve_call(c) not in m.encodes and any(m.calls_fn(x, m.putPacket) for x in m.fb.resolve_call(c).calls())]
            if len(hs) == 1 and len(e.params) >= 2 and len(hs[0][0].get("args", [])) >= 2:
                a = hs[0][0]["args"]

                def unwrap(x):
                    x = strip_all_casts(x)
                    while x.get("k") == "construct" and len(x.get("args", [])) == 1:
                        x = strip_all_casts(x["args"][0])
                    while x.get("k") == "call" and callee_name(x) in ("std::move", "std::forward") and x.get("args"):
                        x = strip_all_casts(x["args"][0])
                    return x
                fwd_ok = unwrap(a[0]).get("decl") == e.params[0]["decl"] and unwrap(a[1]).get("decl") == e.params[1]["decl"]
                res.check(fwd_ok, rid, "encode(%s):forwards-range" % tag, hs[0][0].get("loc"), "[begin, end) handed unchanged to %s" % hs[0][1].name.split("::")[-1],
                          "encode does not hand its own [begin, end) to the range helper unchanged")
                e = hs[0][1]
                puts = [c for c in e.calls() if m.calls_fn(c, m.putPacket)]
        loops = paths.loop_header(e)
        if not loops:
            dele = [c for c in e.calls() if m.fb.resolve_call(c) in m.encodes and m.fb.resolve_call(c) is not e]
            if not puts and len(dele) == 1 and len(dele[0].get("args", [])) >= 2:
                # single packet handed to a range overload as the one-element range [&packet, &packet + 1)
                a0, a1 = dele[0]["args"][0], dele[0]["args"][1]
                x = strip_all_casts(facts.expand(e, a0))
                is_addr = (x.get("k") == "un" and x.get("op") == "&" and strip_all_casts(x["e"]).get("dk") == "param") or \
                    (x.get("k") == "call" and callee_name(x) in ("std::addressof", "std::__addressof") and strip_all_casts(x["args"][0]).get("dk") == "param")
                one = const_value(facts.range_length(e, a0, a1)) == 1 if facts.range_length(e, a0, a1) is not None else False
                res.check(is_addr and one, rid, "encode(%s):single" % tag, e.loc, "single packet: delegates the one-element range [&packet, &packet + 1) to the range overload",
                          "encode delegates to another overload but not with exactly the range [&packet, &packet + 1)")
                continue
            if len(e.params) >= 3 and len(puts) == 1:
                # a range overload without a loop of its own: std::for_each(begin, end, [..](elem) { putPacket(elem); })
                fe = [c for c in e.calls() if callee_name(c) == "std::for_each" and len(c.get("args", [])) == 3]

                def unwrap0(x):
                    x = strip_all_casts(x)
                    for _ in range(6):
                        if x.get("k") in ("construct", "temp") and len(x.get("args", [])) == 1:
                            x = strip_all_casts(x["args"][0])
                        else:
                            break
                    return x
                if len(fe) != 1:
                    raise Broken("encode(%s): range overload without a loop or a std::for_each" % tag)
                a = fe[0]["args"]
                lam = [x for x in walk(a[2]) if x.get("k") == "lambda"]
                inlam = bool(lam) and any(y.get("id") == puts[0].get("id") for y in walk(lam[0].get("body", {})))
                lp = {q["decl"] for q in lam[0].get("params", [])} if lam else set()
                elem = inlam and bool(lp & {x.get("decl") for x in walk(puts[0]["args"][0]) if x.get("k") == "ref"})
                okfe = unwrap0(a[0]).get("decl") == e.params[0]["decl"] and unwrap0(a[1]).get("decl") == e.params[1]["decl"] and inlam and elem
                res.check(okfe, rid, "encode(%s):walks-the-batch" % tag, fe[0].get("loc"), "std::for_each over [begin, end) itself, one putPacket per element",
                          "encode does not feed the packets to putPacket in batch order: std::for_each does not run over (begin, end) with the element handed to putPacket")
                continue
            res.check(len(puts) == 1, rid, "encode(%s):single" % tag, e.loc, "single packet: one putPacket", "encode calls putPacket %d times" % len(puts))
            continue
        lb, ls = loops[0]
        inc = ls.get("inc")
        okinc = inc is not None and (strip(inc).get("op") in ("pre++", "post++") or (strip(inc).get("k") == "call" and strip(inc).get("op") == "++"))
        inloop = [c for c in puts if any(a.get("id") == ls["id"] for a in e.ancestors(c))]
        if ls.get("k") == "rangefor":
            okinc = True
        res.check(okinc and len(puts) == 1 and len(inloop) == 1, rid, "encode(%s):loop" % tag, ls.get("loc"),
                  "one forward pass, one putPacket per element", "encode does not call putPacket exactly once per element in forward order")
        # ... for every element: nothing inside the loop decides whether an element is put (a filter — skip packets that look invalid, stop at
        # the first empty one — drops their payload bytes from the output)
        if len(inloop) == 1:
            body = ls.get("body") or {}
            skips = [x for x in walk(body) if x.get("k") in ("if", "cond", "continue", "break", "return", "switch", "while", "for", "do")
                     and not any(a.get("k") == "lambda" for a in e.ancestors(x))]
            res.check(not skips, rid, "encode(%s):every-element" % tag, (skips[0] if skips else ls).get("loc"), "every element of the batch is put, unconditionally",
                      "the batch loop puts an element only under a condition (`%s` at %s): the packets it skips never reach a frame" %
                      (skips[0].get("k") if skips else "", (skips[0].get("loc") or "") if skips else ""))
        # what the loop walks is the caller's range itself, in its own order
        if len(e.params) >= 2 and len(puts) == 1:
            p0, p1 = e.params[0]["decl"], e.params[1]["decl"]

            def unwrap(x):
                x = strip_all_casts(x)
                for _ in range(6):
                    if x.get("k") in ("construct", "temp") and len(x.get("args", [])) == 1:
                        x = strip_all_casts(x["args"][0])
                    elif x.get("k") == "call" and callee_name(x) in ("std::move", "std::forward") and x.get("args"):
                        x = strip_all_casts(x["args"][0])
                    else:
                        break
                return x
            why = None
            known = False
            if ls.get("k") == "for" and isinstance(ls.get("init"), dict) and ls["init"].get("k") == "decl" and len(ls["init"].get("vars", [])) == 1:
                iv = ls["init"]["vars"][0]
                cond = strip(ls.get("cond") or {})
                ops = ([cond["obj"]] if "obj" in cond else []) + list(cond.get("args", [])) if cond.get("k") == "call" else [cond.get("l"), cond.get("r")]
                ops = [unwrap(o) for o in ops if isinstance(o, dict)]
                known = True
                if unwrap(iv.get("init") or {}).get("decl") != p0:
                    why = "the loop does not start at `begin`"
                elif not (cond.get("op") == "!=" and {o.get("decl") for o in ops} == {iv["decl"], p1}):
                    why = "the loop does not run until `end`"
                elif iv["decl"] not in depends(e, puts[0]["args"][0])[0]:
                    why = "the packet handed to putPacket is not the loop's current element"
                elif any(lvalue_root(x["l"]) == iv["decl"] for x in walk(ls.get("body", {})) if x.get("k") in ("assign", "cassign")):
                    why = "the iterator is modified inside the loop body"
            elif ls.get("k") == "rangefor":
                rng = unwrap(ls.get("range") or {})
                if rng.get("k") == "ref" and rng.get("dk") == "local":
                    ds = facts.local_defs(e).get(rng["decl"], [])
                    d0 = strip_all_casts(ds[0]) if len(ds) == 1 else {}
                    a = [unwrap(x) for x in d0.get("args", [])] if d0.get("k") == "construct" else []
                    if len(a) >= 2 and a[0].get("decl") == p0 and a[1].get("decl") == p1:
                        known = True
                        others = [x for x in e.nodes() if x.get("k") == "ref" and x.get("decl") == rng["decl"] and x.get("id") != rng.get("id")]
                        if others:
                            why = "the copy of the batch the loop walks is also used at %s (sorted, filtered or otherwise rearranged before encoding)" % (others[0].get("loc") or "?")
                        elif ls.get("var") not in depends(e, puts[0]["args"][0])[0]:
                            why = "the packet handed to putPacket is not the loop's current element"
            if not known:
                raise Broken("encode(%s): the batch loop is neither `for (it = begin; it != end; ++it)` nor a range-for over a copy of [begin, end)" % tag)
            res.check(why is None, rid, "encode(%s):walks-the-batch" % tag, ls.get("loc"), "the loop walks [begin, end) itself, front to back",
                      "encode does not feed the packets to putPacket in batch order: %s" % why)
    for f, k, n in m.writes.get(m.frames, []):
        if not (isinstance(n, dict) and n.get("k") == "call" and strip_all_casts(n.get("obj", {})).get("field") == m.frames):
            continue  # element-level access (back().resize …) does not reorder frames
        okk = k in ("call:push_back", "call:emplace_back", "call:clear", "call:operator=")
        res.check(okk, rid, "frames:%s:%s" % (f.name.split("::")[-1], k), n.get("loc") if isinstance(n, dict) else "",
                  "frame list is only appended to / cleared", "frame list is modified by %s in %s: wire order may differ from batch order" % (k, f.name))


# ---------------------------------------------------------------------------- C07

def frame_resizes(m):
    out = []
    for f in m.methods:
        for c in f.calls("std::vector::resize"):
            o = c.get("obj", {})
            d, cl = depends(f, o)
            if m.template in d and strip_all_casts(o).get("field") == m.template:
                out.append((f, c, "template"))
            elif m.frames in d:
                out.append((f, c, "frame"))
    return out


def max_operands(fn, e):
    """[x, y] when e computes max(x, y): std::max(x, y) or `x > y ? x : y` (any of the four orientations)."""
    e = strip_all_casts(e)
    if e.get("k") == "call" and callee_name(e) == "std::max" and len(e.get("args", [])) == 2:
        return list(e["args"])
    if e.get("k") == "cond":
        c = strip(e["c"])
        if c.get("k") == "bin" and c.get("op") in (">", ">=", "<", "<="):
            l, r = facts.xcanon(fn, c["l"]), facts.xcanon(fn, c["r"])
            a, b = facts.xcanon(fn, e["a"]), facts.xcanon(fn, e["b"])
            if c["op"] in (">", ">=") and (a, b) == (l, r):
                return [e["a"], e["b"]]
            if c["op"] in ("<", "<=") and (a, b) == (r, l):
                return [e["a"], e["b"]]
    return None


def narrowings(fn, e, limit_bits=64):
    """Integer conversions to fewer than limit_bits inside expression e and the
    initialisers of the single-definition locals it uses."""
    out = []
    for x in expand_locals(fn, e):
        if x.get("k") == "cast" and x.get("ck") == "IntegralCast":
            t = x.get("t") or {}
            fr = x.get("from") or {}
            if t.get("bits", 64) < limit_bits and fr.get("bits", 0) > t.get("bits", 64) and const_value(x) is None:
                out.append(x)
    return out


def expand_locals(fn, n, depth=3):
    defs = facts.local_defs(fn)
    out = []
    st = [(n, depth)]
    seen = set()
    while st:
        x, d = st.pop()
        for y in walk(x):
            out.append(y)
            if y.get("k") == "ref" and y.get("dk") == "local" and d > 0 and y["decl"] not in seen:
                ds = defs.get(y["decl"], [])
                if len(ds) == 1:
                    seen.add(y["decl"])
                    st.append((ds[0], d - 1))
    return out


def trims_frame(m, fn, _seen=None):
    """fn trims the current frame on every path (directly or through a callee)."""
    _seen = _seen or set()
    if fn.key in _seen:
        return False
    _seen.add(fn.key)
    direct = {c["id"] for ff, c, kind in frame_resizes(m) if ff is fn and kind == "frame"}
    for p in paths.enumerate_paths(fn):
        ok = False
        for _, x in p.elems():
            if x["id"] in direct:
                ok = True
            elif x.get("k") == "call":
                g = m.fb.resolve_call(x)
                if g is not None and g.rec == ENC and g is not fn and g is not m.opener and trims_frame(m, g, _seen):
                    ok = True
        if not ok:
            return False
    return True


def rule_limits_taken_unchanged(res, rid, m):
    """The maximum frame size the encoder works with is the caller's: every write of the member takes
    DataContext::maxBytesPerMessage of this call unchanged; a replacement value (a clamp, a fall-back default) is only
    allowed under a guard that puts the caller's value outside the property's domain (max < 25 = both headers + 1 byte)."""
    n = 0
    lo = m.fb.record(CH)["size"] + m.fb.record(MH)["size"] + 1
    for f, kind, node in m.writes.get(m.maxBytes, []):
        n += 1
        if kind != "assign":
            res.bad(rid, "max:%s:%s" % (f.name.split("::")[-1], kind), node.get("loc") if isinstance(node, dict) else "",
                    "the maximum frame size is modified by `%s` in %s" % (kind, f.name))
            continue
        r = strip_all_casts(node["r"])
        from_ctx = r.get("k") == "member" and (r.get("rec") or "").endswith("DataContext") and r.get("name") == "maxBytesPerMessage" and \
            strip_all_casts(r.get("base", {})).get("dk") == "param"
        if from_ctx:
            res.ok(rid, "max:%s:from-context" % f.name.split("::")[-1], node.get("loc"), "max := this call's DataContext::maxBytesPerMessage, unchanged")
            # ... and the DataContext it reads is the one the public entry point was given: every call site hands its own DataContext parameter
            # on as it is (a local copy with an adjusted maximum is a replacement value by another route)
            pd9 = [q["decl"] for q in f.params]
            pdecl9 = strip_all_casts(r.get("base", {})).get("decl")
            if pdecl9 in pd9:
                i9 = pd9.index(pdecl9)
                for h in m.methods:
                    if h.body is None:
                        continue
                    for c9 in h.calls():
                        if m.fb.resolve_call(c9) is not f:
                            continue
                        a9 = facts.effective_call(c9).get("args", [])
                        x9 = strip_all_casts(a9[i9]) if len(a9) > i9 else {}
                        own9 = x9.get("k") == "ref" and x9.get("dk") == "param" and \
                            not any(lvalue_root(w9["l"]) == x9.get("decl") for w9 in h.nodes() if w9.get("k") in ("assign", "cassign"))
                        n += 1
                        res.check(own9, rid, "max:%s:context-handed-on@%s" % (h.name.split("::")[-1], (c9.get("loc") or "").split(":", 1)[-1]), c9.get("loc"),
                                  "%s hands its own DataContext parameter on unchanged" % h.name.split("::")[-1],
                                  "%s hands %s a DataContext other than the one it was given (`%s`): the maximum (or minimum) frame size the call works with is "
                                  "not the caller's — frames can exceed the configured maximum, and this entry point disagrees with its siblings" %
                                  (h.name, f.name.split("::")[-1], canon(x9)[:40]))
            continue
        # a replacement: only for values outside the domain
        fs = MustFacts(f).at(node)
        outside = False
        for a in fs:
            if a[0] == "cmp":
                for x, y, o in ((a[4], a[5], a[2]), (a[5], a[4], facts._flip_op(a[2]))):
                    xs = strip_all_casts(x)
                    is_max = (xs.get("k") == "member" and xs.get("field") == m.maxBytes) or \
                        (xs.get("k") == "member" and xs.get("name") == "maxBytesPerMessage" and (xs.get("rec") or "").endswith("DataContext"))
                    yv = const_value(y)
                    if yv is None and strip_all_casts(y).get("k") == "ref":
                        ds = facts.local_defs(f).get(strip_all_casts(y)["decl"], [])
                        yv = const_value(ds[0]) if len(ds) == 1 else None
                    if is_max and yv is not None and ((o == "<" and yv <= lo) or (o == "<=" and yv < lo)):
                        outside = True
        res.check(outside, rid, "max:%s:replaced" % f.name.split("::")[-1], node.get("loc"),
                  "replacement value only for a maximum below %d bytes (outside the domain)" % lo,
                  "%s replaces the caller's maximum frame size by `%s` for values the protocol allows (the smallest legal maximum is %d bytes): "
                  "frames then exceed the configured maximum" % (f.name, canon(node["r"])[:60], lo))
    return n


def rule_free_count_writers(res, rid, m):
    """The free-byte count says how much of the *last* frame is unused; the trim before the next frame
    computes the used bytes from it.  So it may only change by: the opener's `max - sizeof(CmpHeader)`,
    the decrements that accompany a write, and a reset to a constant that is preceded (same block) by the
    trim of the current frame or accompanied by clearing the frame list — zeroing it while an untrimmed
    frame is open makes the next trim a no-op (frame stays at maximum size, padded with zeros)."""
    n = 0
    trims = {c["id"]: ff for ff, c, kind in frame_resizes(m) if kind == "frame"}
    for f, kind, node in m.writes.get(m.bytesLeft, []):
        if kind != "assign" or const_value(node["r"]) is None:
            continue
        n += 1
        cfg = f.cfg
        b = cfg.block_for(node)
        pos = cfg.pos_of[node["id"]]
        trimmed = any(ff is f and cfg.block_for(f.node(cid)) == b and cfg.pos_of[cid] < pos for cid, ff in trims.items())
        # a call (before, same block or dominating) of a method that trims on every path counts too
        for c in f.calls():
            g = m.fb.resolve_call(c)
            if g is not None and g.rec == ENC and g is not f and g is not m.opener and trims_frame(m, g) and \
                    ((cfg.block_for(c) == b and cfg.pos_of[c["id"]] < pos) or (cfg.block_for(c) != b and cfg.dominates(cfg.block_for(c), b))):
                trimmed = True
        cleared = any(ff is f and k == "call:clear" and isinstance(x, dict) and strip_all_casts(x.get("obj", {})).get("field") == m.frames
                      for ff, k, x in m.writes.get(m.frames, []))
        res.check(trimmed or cleared, rid, "free-count:%s:reset" % f.name.split("::")[-1], node.get("loc"),
                  "free count reset to %d right after the frame was trimmed" % const_value(node["r"]) if trimmed else "free count reset together with clearing the frame list",
                  "%s sets the free-byte count to %d while the last frame may be open and untrimmed: the trim in the frame opener then keeps the frame at "
                  "its maximum size (zero padding beyond the minimum, messages no longer tile the frame)" % (f.name, const_value(node["r"])))
    return n


def rule_last_segment_closes_frame(res, rid, m):
    """A last segment stays alone in its frame.  Structural part: on every path through the segmentation loop's body that is taken with the
    flag equal to `lastSegment`, after the slice was placed either the free-byte count is set to the constant 0 (so the next message's
    `free < sizeof(MessageHeader)` opens a frame) or a frame is opened unconditionally.  A count left at `size - used` after the trim is
    the minimum-size padding counted as room: the next small message is written behind the last segment."""
    f = m.putPacket
    wr = {n["id"]: (k, n) for ff, k, n in m.writes.get(m.bytesLeft, []) if ff is f and isinstance(n, dict)}
    n = 0
    bad = None
    for p in paths.enumerate_paths(f):
        if not any(a[0] == "cmp" and a[2] == "==" and ("lastSegment" in a[1] or "lastSegment" in a[3]) for a in p.atoms):
            continue
        last = None
        seenH = False
        for _, x in p.elems():
            if x.get("k") == "call":
                g = m.fb.resolve_call(x)
                if g is m.header_writer:
                    seenH = True
                    last = None
                elif g is not None and g.rec == ENC and (g is m.opener or m.may_open(g)) and seenH:
                    last = ("open", x, m.must_open(g) if g is not m.opener else True)
                elif g is not None and g.rec == ENC and seenH and any(ff is g for ff, _, _ in m.writes.get(m.bytesLeft, [])):
                    ws = [(k, nn) for ff, k, nn in m.writes.get(m.bytesLeft, []) if ff is g]
                    last = ("helper", x, all(k == "assign" and const_value(nn["r"]) == 0 for k, nn in ws))
            if x.get("id") in wr and seenH:
                last = ("write",) + wr[x["id"]]
        if not seenH:
            continue
        n += 1
        ok = last is not None and ((last[0] == "write" and last[1] == "assign" and const_value(last[2]["r"]) == 0) or
                                   (last[0] in ("open", "helper") and last[2]))
        if not ok and bad is None:
            bad = last
    if n == 0:
        # the same decision taken once behind the loop (a last segment completes the payload, so only the final iteration can write one): a path
        # that leaves the loop tests a local that holds the flag builder's latest answer and then closes the frame
        ldefs = facts.local_defs(f)
        for p in paths.enumerate_paths(f):
            if p.end != "exit":
                continue
            hit = [a for a in p.atoms if a[0] == "cmp" and a[2] == "==" and ("lastSegment" in a[1] or "lastSegment" in a[3])]
            if not hit:
                continue
            var = None
            for x in (hit[0][4], hit[0][5]):
                xs = strip_all_casts(x)
                if xs.get("k") == "ref" and xs.get("dk") == "local":
                    var = xs["decl"]
            real = [d for d in ldefs.get(var, []) if const_value(d) is None] if var else []
            if not real or not all(strip_all_casts(d).get("k") == "call" and m.calls_fn(strip_all_casts(d), m.flag_builder) for d in real):
                continue
            last = None
            for _, x in p.elems():
                if x.get("id") in wr:
                    last = wr[x["id"]]
            n += 1
            if not (last is not None and last[0] == "assign" and const_value(last[1]["r"]) == 0) and bad is None:
                bad = ("write",) + last if last is not None else None
                if last is None:
                    n -= 1
    if n == 0:
        res.bad(rid, "last-segment-closes-frame", f.loc, "%s never distinguishes the last segment of a packet: its frame stays open and the next message "
                "that fits is written behind it" % f.name)
        return 1
    if bad is None and n:
        res.ok(rid, "last-segment-closes-frame", f.loc, "%d paths taken with the flag == lastSegment: each ends with the free-byte count set to 0 (or a frame "
               "opened) after the slice was placed" % n)
    else:
        node = bad[2] if bad and bad[0] == "write" else (bad[1] if bad else None)
        res.bad(rid, "last-segment-closes-frame", (node or {}).get("loc") if isinstance(node, dict) else f.loc,
                "after a last segment the free-byte count is %s: whatever it leaves counts as room in this frame (the zero padding up to the minimum "
                "frame size included), so the next message that fits is written behind the last segment instead of into a new frame" %
                ("left as the decrement made it" if bad is None or (bad[0] == "write" and bad[1] != "assign") else
                 "set to `%s`, not to 0" % canon(bad[2]["r"]) if bad[0] == "write" else "left to %s, which does not always close the frame" % (callee_name(bad[1]) or "?")))
    return n


def rule_frames_zeroed_trimmed(res, rid, m):
    rs = frame_resizes(m)
    nt = nf = 0
    for f, c, kind in rs:
        a = c.get("args", [])
        fill0 = len(a) == 1 or (len(a) == 2 and const_value(a[1]) == 0)  # resize(n) value-initialises new bytes
        if kind == "template":
            nt += 1
            ok = fill0 and depends(f, a[0])[0] & {m.maxBytes, m.minBytes, m.bytesLeft} == {m.maxBytes}
            res.check(ok, rid, "template:resize", c.get("loc"), "template sized to the maximum frame size, zero-filled",
                      "frame template is sized by %s: not `resize(max, 0)`" % canon(c))
        else:
            nf += 1
            mxo = max_operands(f, a[0]) if a else None
            okmax = mxo is not None
            used = None
            if okmax:
                d = [depends(f, x)[0] & {m.maxBytes, m.minBytes, m.bytesLeft} for x in mxo]
                if d[0] == {m.minBytes} and m.bytesLeft in d[1]:
                    used = mxo[1]
                elif d[1] == {m.minBytes} and m.bytesLeft in d[0]:
                    used = mxo[0]
                okmax = used is not None
            res.check(fill0 and okmax, rid, "frame:trim:%s" % f.name.split("::")[-1], c.get("loc"),
                      "frame trimmed to max(used, min) with explicit zero fill",
                      "frame resized by %s: expected resize(max(used bytes, minimum), 0)" % canon(c))
            if used is not None:
                def syms(z):
                    if z.get("k") == "call" and (z.get("callee") or {}).get("nm") == "size" and m.frames in depends(f, z.get("obj", {}))[0]:
                        return "size"
                    if z.get("k") == "member" and z.get("field") == m.bytesLeft:
                        return "free"
                    return None
                from rules.decoder_rules import _linear
                form = _linear(f, strip_all_casts(facts.expand(f, used)), syms)
                res.check(form is not None and form.get("size") == 1 and form.get("free") == -1 and form.get(1, 0) == 0 and set(form) <= {"size", "free", 1}, rid,
                          "frame:trim-used:%s" % f.name.split("::")[-1], c.get("loc"), "used bytes = frame size() - free bytes",
                          "the used-byte count of the trim is `%s`, not frame size() - free bytes" % canon(used))
                nar = narrowings(f, used)
                res.check(not nar, rid, "frame:trim-width:%s" % f.name.split("::")[-1], c.get("loc"), "used-byte count is computed in size_t",
                          "the used-byte count of a frame is converted to %s before the trim: frames using 2^%d bytes or more are cut short" %
                          ((nar[0].get("t") or {}).get("s") if nar else "", (nar[0].get("t") or {}).get("bits", 0) if nar else 0))
    for f in m.methods:
        for c in f.calls("std::vector::reserve"):
            d, _ = depends(f, c.get("obj", {}))
            if m.template in d or m.frames in d:
                res.bad(rid, "frame:reserve:%s" % f.name.split("::")[-1], c.get("loc"), "frames sized by reserve(): bytes are not zero-initialised")
    # trim precedes every push (in the opener) and the return of the finisher
    f = m.opener
    cfg = f.cfg
    pushes = [n for ff, k, n in m.writes.get(m.frames, []) if k in ("call:push_back", "call:emplace_back") and ff is f and
              strip_all_casts(n.get("obj", {})).get("field") == m.frames]
    direct = {c["id"] for ff, c, kind in rs if ff is f and kind == "frame"}
    trims = [x for x in f.calls() if x["id"] in direct or (m.fb.resolve_call(x) is not None and m.fb.resolve_call(x).rec == ENC and
                                                          m.fb.resolve_call(x) is not f and trims_frame(m, m.fb.resolve_call(x)))]
    # per path of the opener: a push is preceded by a trim of the previous frame, unless the path has established that there is none
    # (the frame list — not some other container — is empty)
    trim_ids = {t["id"] for t in trims}
    fr = "this->" + m.short(m.frames)
    for pb in pushes:
        bad = None
        for q, _ in m.opener_paths():
            ids = [x.get("id") for _, x in q.elems()]
            if pb["id"] not in ids:
                continue
            before = ids[:ids.index(pb["id"])]
            trimmed = any(i in trim_ids for i in before)
            none_yet = any(a[0] == "truth" and a[2] is True and fr in a[1] and "empty" in a[1] for a in q.atoms) or \
                any(a[0] == "cmp" and fr in (a[1] + a[3]) and "size" in (a[1] + a[3]) and a[2] == "==" and 0 in (const_value(a[4]), const_value(a[5])) for a in q.atoms)
            if not trimmed and not none_yet:
                bad = bad or q
        res.check(bad is None, rid, "opener:trim-before-push", pb.get("loc"), "previous frame is trimmed before a new one is pushed (skipped only when there is none)",
                  "a new frame is pushed without trimming the previous one on the path with %s: that frame stays at the maximum size, padded beyond the "
                  "minimum" % (", ".join("%s%s" % ("" if a[2] is True else "!", a[1].split("->")[-1][:40]) for a in (bad.atoms if bad else []) if a[0] == "truth")[:160]))
    fin = m.finisher
    okfin = False
    for p in paths.enumerate_paths(fin):
        r = p.returns()
        if r is None or not any(True for _ in p.elems()):
            continue
        moved = [x for _, x in p.elems() if x.get("k") == "member" and x.get("field") == m.frames]
    fdirect = {c["id"] for ff, c, kind in rs if ff is fin and kind == "frame"}
    ftr = [x for x in fin.calls() if x["id"] in fdirect or (m.fb.resolve_call(x) is not None and m.fb.resolve_call(x).rec == ENC and
                                                            trims_frame(m, m.fb.resolve_call(x)))]
    res.check(len(ftr) >= 1, rid, "finisher:trim", fin.loc, "last frame is trimmed before the frames are returned", "the last frame is not trimmed before return")
    return nt, nf


def _events(m, fn, p):
    """Events of one path: 'O' must-open, 'o' may-open, 'H' message header written."""
    ev = []
    for _, x in p.elems():
        if x.get("k") != "call":
            continue
        g = m.fb.resolve_call(x)
        if g is None or g.rec != ENC:
            continue
        if g is m.header_writer:
            ev.append(("H", x))
        elif g is m.opener:
            ev.append(("O", x))
        elif m.may_open(g):
            ev.append(("O" if m.must_open(g) else "o", x))
    return ev


MIN_FRESH = 25 - 8  # property domain: max >= 25, minus the 8-byte frame header


def fresh_guarded(m, call, fn, p):
    """A (may-)open is harmless in the fresh state when it is guarded by
    `bytesLeft != <fresh value>` — the value the opener assigns to the free-byte counter."""
    fresh_exprs = {canon(n["r"]) for f, k, n in m.writes.get(m.bytesLeft, []) if f is m.opener and k == "assign"}

    bl = "this->" + m.short(m.bytesLeft)

    def guarded_in(f, path, stop_id):
        for a in path.atoms:
            if a[0] == "cmp" and a[2] == "!=":
                if (a[1] == bl and a[3] in fresh_exprs) or (a[3] == bl and a[1] in fresh_exprs):
                    return True
            # domain assumption max >= 25: a fresh frame has >= 17 free bytes, so `bytesLeft < k` with k <= 17 cannot hold
            if a[0] == "cmp" and a[1] == bl and const_value(a[5]) is not None:
                k = const_value(a[5])
                if (a[2] == "<" and k <= MIN_FRESH) or (a[2] == "<=" and k < MIN_FRESH) or (a[2] == "==" and k < MIN_FRESH):
                    return True
        return False
    g = m.fb.resolve_call(call)

    def opener_declines_when_fresh():
        # the opener itself declines in the fresh state: each of its pushing paths is taken only with `bytesLeft != fresh` (or with no
        # frame at all, which is not the state in question)
        if m.must_open(m.opener):
            return False
        fr = "this->" + m.short(m.frames)
        return all((not pushes) or guarded_in(m.opener, q, None) or
                   any(a[0] == "truth" and a[2] is True and a[1].replace("(", "").replace(")", "").endswith("empty") and fr in a[1] for a in q.atoms)
                   for q, pushes in m.opener_paths())
    if g is m.opener:
        return guarded_in(fn, p, call["id"]) or opener_declines_when_fresh()
    if opener_declines_when_fresh():
        return True
    # may-open callee: every path of the callee that opens is guarded inside the callee
    for q in paths.enumerate_paths(g):
        opens = [x for _, x in q.elems() if x.get("k") == "call" and m.fb.resolve_call(x) is not None and m.may_open(m.fb.resolve_call(x))]
        if opens and not guarded_in(g, q, opens[0]["id"]):
            return False
    return True


def rule_no_empty_frame(res, rid, m):
    """C07-R2: typestate NoFrame/OpenEmpty/OpenNonEmpty over putPacket: no (may-)open in
    state OpenEmpty, none left OpenEmpty at exit or at the loop back edge."""
    f = m.putPacket
    ps = paths.enumerate_paths(f)
    reported = set()
    n = 0
    for p in ps:
        if p.end == "exit" and p.blocks.count(m.loop_block) == 1 and m.putPacket.cfg.succ[m.loop_block][0] not in p.blocks:
            continue  # zero iterations: payload length 0 is outside the property's domain
        ev = _events(m, f, p)
        if not any(k == "H" for k, _ in ev):
            # the same case spelled as an early return: the path leaves under `position >= payload length` before anything was placed
            posv = loop_position_vars(m)
            empty = False
            for a in p.atoms:
                if a[0] == "cmp" and len(posv) == 1:
                    for x, y, o in ((a[4], a[5], a[2]), (a[5], a[4], facts._flip_op(a[2]))):
                        if o in (">=", "==") and strip_all_casts(x).get("decl") == posv[0] and PKT + "::getPayloadLength" in called_names(facts.expand(f, y)):
                            empty = True
                        if o in ("==", "<=") and PKT + "::getPayloadLength" in called_names(facts.expand(f, x)) and const_value(y) == 0:
                            empty = True
            if empty and p.end == "exit":
                continue
        state = "unknown"
        for i, (k, x) in enumerate(ev):
            if k in ("O", "o"):
                if state == "open-empty" and not fresh_guarded(m, x, f, p):
                    key = "open-after-open:%s" % (callee_name(x) or "").split("::")[-1]
                    if key not in reported:
                        reported.add(key)
                        res.bad(rid, key, x.get("loc"), "a frame may be opened (%s) while the current frame holds no message yet: a header-only "
                                "frame is emitted" % (callee_name(x) or "").split("::")[-1])
                state = "open-empty" if k == "O" else ("open-empty" if state in ("open-empty",) else "maybe-empty")
                if k == "o":
                    state = "open-empty"
            elif k == "H":
                state = "non-empty"
        n += 1
        if ev and ev[-1][0] in ("O", "o") and p.end in ("exit", "cycle"):
            x = ev[-1][1]
            key = "open-then-exit:%s" % (callee_name(x) or "").split("::")[-1]
            if key not in reported:
                reported.add(key)
                res.bad(rid, key, x.get("loc"), "a frame is opened (%s) and putPacket can return without writing a message into it: a batch that "
                        "ends here ends with a header-only frame" % (callee_name(x) or "").split("::")[-1])
    if not reported:
        res.ok(rid, "putPacket:typestate", f.loc, "%d paths: every (may-)open is followed by a message-header write before the next open or exit" % n)
    return n


def rule_empty_batch(res, rid, m):
    """C07-R3: the finisher's back()/front()/[] on the frame list is guarded by non-emptiness."""
    f = m.finisher
    mf = MustFacts(f)
    n = 0
    for c in f.calls():
        nm = (c.get("callee") or {}).get("nm")
        if nm in ("back", "front", "operator[]", "at") and strip_all_casts(c.get("obj", {})).get("field") == m.frames:
            n += 1
            fs = mf.at(c)
            ok = any((a[0] == "truth" and "empty" in a[1] and m.short(m.frames) in a[1] and a[2] is False) or
                     (a[0] == "cmp" and "size" in a[1] and m.short(m.frames) in a[1] and a[2] in (">", "!=", ">=")) for a in fs)
            res.check(ok, rid, "finisher:%s" % nm, c.get("loc"), "guarded by a non-emptiness test",
                      "%s() on the frame list without a non-emptiness guard: an empty batch (zero putPacket calls) reaches it" % nm)
    if n == 0:
        res.ok(rid, "finisher:no-element-access", f.loc, "the finisher does not access frame elements unguarded")
    return n


# ---------------------------------------------------------------------------- C01

def segmentation_copy(m):
    f = m.putPacket
    out = []
    for c in f.calls():
        nm = callee_name(c)
        if nm in ("memcpy", "memmove", "std::copy_n", "std::copy") and len(c.get("args", [])) == 3:
            if nm in ("memcpy", "memmove"):
                dst, src, ln = c["args"]
            else:
                src, ln, dst = c["args"]
            if any(x.endswith("::getRawPayload") for x in depends(f, src)[1]):
                out.append((c, dst, src, ln))
    return out


def loop_modified(fn, loop_stmt):
    mod = set()
    for x in walk(loop_stmt.get("body", {})):
        if x.get("k") in ("assign", "cassign"):
            r = lvalue_root(x["l"])
            if r:
                mod.add(r)
        elif x.get("k") == "un" and x.get("op") in ("pre++", "post++", "pre--", "post--"):
            r = lvalue_root(x["e"])
            if r:
                mod.add(r)
    return mod


def rule_segment_source_advances(res, rid, m):
    f = m.putPacket
    cps = segmentation_copy(m)
    mod = loop_modified(f, m.loop_stmt)
    for c, dst, src, ln in cps:
        inside = any(a.get("id") == m.loop_stmt["id"] for a in f.ancestors(c))
        d, _ = depends(f, src)
        # loop-carried locals/members the source depends on (excluding the packet itself)
        adv = {x for x in d & mod if x != m.bytesLeft}
        res.check(inside and bool(adv), rid, "segment-copy:source", c.get("loc"),
                  "copy source advances with %s" % sorted(adv),
                  "the payload copy in the segmentation loop reads from `%s`, which does not depend on any variable the loop modifies: "
                  "every segment carries the payload's first bytes" % canon(src))
        # ... and starts at the payload's first byte: each loop-carried local the source is built from starts at 0 (an offset) or at the raw
        # payload itself (a bumped pointer) before the loop
        defs = facts.local_defs(f)
        for d0 in sorted(x for x in adv if ":" in x and not x.startswith(ENC)):
            inits = [v["init"] for n2 in f.nodes() if n2.get("k") == "decl" for v in n2.get("vars", []) if v.get("decl") == d0 and isinstance(v.get("init"), dict)] + \
                [n2["r"] for n2 in f.nodes() if n2.get("k") == "assign" and strip_all_casts(n2["l"]).get("decl") == d0 and d0 not in reads(n2["r"])]
            okstart = False
            if len(inits) == 1:
                i0 = strip_all_casts(inits[0])
                okstart = const_value(i0) == 0 or ((i0.get("t") or {}).get("k") == "ptr" and "ASAM::CMP::Payload::getRawPayload" in called_names(facts.expand(f, i0)) and
                                                   not any(x.get("k") == "bin" for x in walk(facts.expand(f, i0))))
            res.check(okstart, rid, "segment-copy:starts-at-first-byte:%s" % d0.split(":")[-1], (inits[0] if inits else c).get("loc") or c.get("loc"),
                      "%s starts at the payload's first byte" % d0.split(":")[-1],
                      "the position the segment copy reads from (`%s`) does not start at the payload's first byte: the first segment skips or repeats bytes" % d0.split(":")[-1])
    return len(cps)


def rule_one_length(res, rid, m):
    """C01-R3 / C07-R4: declared length == copied length == cursor movement == free-byte movement."""
    f = m.putPacket
    cps = segmentation_copy(m)
    if len(cps) != 1:
        raise Broken("putPacket: expected one payload copy, found %d" % len(cps))
    c, dst, src, ln = cps[0]
    L = canon(strip_all_casts(ln))
    hw = [x for x in f.calls() if m.calls_fn(x, m.header_writer)]
    if len(hw) != 1:
        raise Broken("putPacket: expected one message-header write")
    # the header writer passes one of its parameters to setPayloadLength
    spl = list(m.header_writer.calls(MH + "::setPayloadLength"))
    ok = False
    if len(spl) == 1:
        a = strip_all_casts(spl[0]["args"][0])
        if a.get("k") == "ref" and a.get("dk") == "param":
            idx = int(a["decl"][1:].split(":")[0])
            ok = canon(strip_all_casts(hw[0]["args"][idx])) == L
    res.check(ok, rid, "length:declared", hw[0].get("loc"), "declared payload length is the copy length %s" % L,
              "the length written to the message header is not the number of bytes copied (%s)" % L)
    loop_id = m.loop_stmt["id"]
    moved = {}
    for x in walk(m.loop_stmt.get("body", {})):
        if x.get("k") == "cassign" and x.get("op") in ("+", "-"):
            r = lvalue_root(x["l"])
            moved.setdefault(r, []).append((x["op"], canon(strip_all_casts(x["r"])), x))
    # payload position: the local compared with getPayloadLength in the loop condition
    pos = loop_position_vars(m)
    if len(pos) != 1:
        raise Broken("putPacket: cannot bind the payload position variable")
    pos = pos[0]
    mv = moved.get(pos, [])
    res.check(len(mv) == 1 and mv[0][0] == "+" and mv[0][1] == L, rid, "length:position", mv[0][2].get("loc") if mv else f.loc,
              "payload position advances by the copy length, once per iteration",
              "payload position moves by %s per iteration, copy length is %s" % ([(o, e) for o, e, _ in mv], L))
    mb = moved.get(m.bytesLeft, [])
    res.check(len(mb) == 1 and mb[0][0] == "-" and mb[0][1] == L, rid, "length:free-bytes", mb[0][2].get("loc") if mb else f.loc,
              "free-byte count shrinks by the copy length", "free-byte count moves by %s, copy length is %s" % ([(o, e) for o, e, _ in mb], L))
    # header written at the cursor before the copy
    cfg = f.cfg
    okorder = cfg.block_for(hw[0]) == cfg.block_for(c) and cfg.pos_of[hw[0]["id"]] < cfg.pos_of[c["id"]]
    if not okorder and cfg.block_for(hw[0]) != cfg.block_for(c):
        okorder = cfg.dominates(cfg.block_for(hw[0]), cfg.block_for(c)) and not cfg.dominates(cfg.block_for(c), cfg.block_for(hw[0]))
    res.check(okorder, rid, "length:header-before-copy", c.get("loc"), "message header is written before the payload slice", "payload slice is copied before its header is written")
    m.copy_len = L
    # the total the loop works against and the bytes it copies are the same object's, read when they are needed: Packet::getPayloadLength()
    # asks the payload object (no member of Packet that a later in-place change of the payload — getPayload() hands out a mutable
    # reference — would leave stale)
    gpl = m.fb.fn_opt(PKT + "::getPayloadLength")
    if gpl is None or gpl.body is None:
        raise Broken("Packet::getPayloadLength not found")
    fields = {fl["qname"] for fl in m.fb.record(PKT)["fields"]}
    stale = []
    changed = []
    asks = False
    for r in gpl.returns():
        e = r.get("e")
        if e is None or const_value(e) == 0:
            continue
        d, c = depends(gpl, e)
        asks = asks or any(x.endswith("Payload::getLength") for x in c)
        other = sorted(x for x in d if x in fields and not x.endswith("::payload"))
        if other or not any(x.endswith("Payload::getLength") for x in c):
            stale.append((r, other))
            continue
        # ... and hands the answer on as it is (the conversion to the 16-bit return type aside): a clamp, a mask or arithmetic in between makes
        # the announced total differ from the bytes the payload has
        def alts(x):
            x = strip_all_casts(x)
            if x.get("k") == "cond":
                return alts(x["a"]) + alts(x["b"])
            return [x]
        getter = [x for x in c if x.endswith("Payload::getLength")][0]
        for a9 in alts(facts.expand(gpl, e)):
            if const_value(a9) == 0:
                continue
            if a9.get("k") == "call" and callee_name(a9) == "std::min" and len(a9.get("args", [])) == 2:
                # saturation at (or above) the largest length the property's domain has leaves every value of the domain as it is
                xs9 = [strip_all_casts(z) for z in a9["args"]]
                keep = [z for z in xs9 if const_value(z) is None]
                lim = [const_value(z) for z in xs9 if const_value(z) is not None]
                if len(keep) == 1 and len(lim) == 1 and lim[0] >= 65535 and facts.flows_unchanged(gpl, keep[0], getter):
                    continue
            if not facts.flows_unchanged(gpl, a9, getter):
                changed.append((r, a9))
    res.check(asks and not stale, rid, "length:source", (stale[0][0].get("loc") if stale else gpl.loc),
              "Packet::getPayloadLength() asks the payload object for its length on every call",
              "Packet::getPayloadLength() answers from %s instead of asking the payload object: after the payload was changed in place through "
              "getPayload() the encoder announces and walks a length the payload does not have — bytes are dropped or bytes that belong to no "
              "packet are copied" % (", ".join(x.split("::")[-1] for x in (stale[0][1] if stale else [])) or "something else"))
    res.check(not changed, rid, "length:source-unchanged", (changed[0][0].get("loc") if changed else gpl.loc),
              "Packet::getPayloadLength() hands the payload's own length on unchanged",
              "Packet::getPayloadLength() does not hand the payload's length on as it is (`%s`): for some payloads the encoder announces and walks a "
              "total that differs from the bytes the payload has — the rest appears in no frame" % (canon(changed[0][1])[:90] if changed else ""))
    return 6


def rule_header_tables_agree(res, rid, m):
    """C01-R2: Packet::getRawMessageHeader (writer) and Packet::setMessageHeader (reader)
    choose the same id field per message type and pair up on the unconditional fields."""
    fb = m.fb
    w = fb.fn(PKT + "::getRawMessageHeader")
    r = fb.fn_opt(PKT + "::setMessageHeader")
    if r is None:
        # the reader written out in the constructor that takes the message type and the raw message
        cands = [f for f in fb.fns(PKT + "::Packet") if len(f.params) == 3 and f.body is not None and
                 any(True for _ in f.calls(MH + "::getTimestamp"))]
        if len(cands) != 1:
            raise Broken("message header reader (Packet::setMessageHeader or the constructor from raw bytes) not found")
        r = cands[0]
    en = fb.enum(CH + "::MessageType")
    ids_w = {MH + "::setInterfaceId": "interfaceId", MH + "::setVendorId": "vendorId"}
    ids_r = {MH + "::getInterfaceId": "interfaceId", MH + "::getVendorId": "vendorId"}

    def table(fn, ids):
        """message type value -> {ids used}, by partial evaluation of fn with the message type fixed"""
        from cmpverif import tables
        sel = {prm["decl"] for prm in fn.params if (prm["t"].get("s") or "").replace("const ", "").strip().endswith("MessageType")}

        def bind(v):
            def b(n):
                if n.get("k") == "ref" and n.get("decl") in sel:
                    return v
                if n.get("k") == "call" and callee_name(n) == PKT + "::getMessageType" and strip_all_casts(n.get("obj", {})).get("k") == "this":
                    return v
                return None
            return b
        t = {}
        vals = [e["value"] for e in en["enumerators"]]
        for v in vals + ["default"]:
            try:
                ex = tables.trace(fn, bind(max(vals) + 1 if v == "default" else v), lambda c: callee_name(c) in ids)
            except tables.Unsupported as e:
                raise Broken("%s is not a table over the message type: %s" % (fn.name, e))
            t[v] = {tuple(sorted({ids[callee_name(c)] for c in ex}))}
        return t
    tw, tr = table(w, ids_w), table(r, ids_r)
    for e in en["enumerators"]:
        a = tw.get(e["value"], tw.get("default"))
        b = tr.get(e["value"], tr.get("default"))
        res.check(a == b and a is not None and len(a) == 1, rid, "header-id:%s" % e["name"], w.loc,
                  "message type %s: writer and reader both use %s" % (e["name"], sorted(a)[0] if a else None),
                  "message type %s: raw header writer stores %s, packet constructor reads %s: the id of every packet of that type is lost" %
                  (e["name"], sorted(a or []), sorted(b or [])))
    want = {"data": ("interfaceId",), "status": ("vendorId",), "vendor": ("vendorId",)}
    for e in en["enumerators"]:
        if e["name"] in want:
            a = tw.get(e["value"], tw.get("default"))
            res.check(a == {want[e["name"]]}, rid, "header-id-spec:%s" % e["name"], w.loc, "%s messages carry %s" % (e["name"], want[e["name"]][0]),
                      "%s messages carry %s, protocol says %s" % (e["name"], sorted(a or []), want[e["name"]][0]))
    pairs = [("setTimestamp", "getTimestamp"), ("setCommonFlags", "getCommonFlags"), ("setPayloadType", "getPayloadType"), ("setPayloadLength", "getPayloadLength")]
    ctor = [f for f in fb.fns(PKT + "::Packet") if len(f.params) == 3]
    if len(ctor) != 1:
        raise Broken("Packet(msgType,data,size) not found")
    rd_calls = called_names(r.body) | called_names(ctor[0].body)
    wr_calls = called_names(w.body)
    for s, g in pairs:
        ok = (MH + "::" + s) in wr_calls and (MH + "::" + g) in rd_calls
        # the writer's argument is the packet's matching getter
        arg_ok = False
        for c in w.calls(MH + "::" + s):
            arg_ok = (PKT + "::" + g) in called_names(c["args"][0])
        res.check(ok and arg_ok, rid, "header-pair:%s" % s[3:], w.loc, "writer stores Packet::%s() with %s; reader takes %s" % (g, s, g),
                  "field %s does not pair up between raw header writer and packet constructor" % s[3:])


def header_landing(m):
    """Where the header writer puts the packet's raw message header:
    ('inplace', position node, raw call, None): getRawMessageHeader(pointer into the frame);
    ('staged', position node, raw call, copy call): getRawMessageHeader(&local header), later one raw copy of
    sizeof(MessageHeader) bytes from that local into the frame (setters in between act on the local)."""
    fn = m.header_writer
    cand = [x for x in fn.calls() if callee_name(x) == PKT + "::getRawMessageHeader"]
    if len(cand) != 1:
        raise Broken("header writer: expected one getRawMessageHeader call")
    raw = cand[0]
    a = strip_all_casts(raw["args"][0])
    if a.get("k") == "un" and a.get("op") == "&" and strip_all_casts(a["e"]).get("dk") == "local":
        h = strip_all_casts(a["e"])["decl"]
        hsize = m.fb.record(MH)["size"]
        cps = []
        for c in fn.calls():
            ca = facts.copy_args(c)
            if ca is None:
                continue
            src = strip_all_casts(ca[1])
            if src.get("k") == "un" and src.get("op") == "&" and strip_all_casts(src["e"]).get("decl") == h and const_value(ca[2]) == hsize:
                cps.append((c, ca[0]))
        if len(cps) != 1:
            raise Broken("header writer: the locally composed header is not copied into the frame by exactly one %d-byte copy" % hsize)
        return "staged", cps[0][1], raw, cps[0][0]
    return "inplace", raw["args"][0], raw, None


def rule_header_fully_stamped(res, rid, m, only=None):
    """C08-R6: wherever a packet's raw message header is written into a frame, the
    segment type and the payload length of that header are set afterwards on every path
    (the packet's own flags may carry stale segment bits, e.g. after reassembly)."""
    f = m.header_writer
    n = 0
    for p in paths.enumerate_paths(f):
        els = [x for _, x in p.elems()]
        raws = [i for i, x in enumerate(els) if x.get("k") == "call" and callee_name(x) == PKT + "::getRawMessageHeader"]
        if not raws:
            continue
        n += 1
        after = els[raws[-1] + 1:]
        mode, _, _, commit = header_landing(m)
        if mode == "staged":
            # setters count only while the header is still being composed, i.e. before it is copied into the frame
            ci = [i for i, x in enumerate(after) if x.get("id") == commit["id"]]
            after = after[:ci[0]] if ci else []
        for setter, what in ((MH + "::setSegmentType", "segment type"), (MH + "::setPayloadLength", "payload length")):
            if only is not None and what not in only:
                continue
            ok = any(x.get("k") == "call" and callee_name(x) == setter for x in after)
            res.check(ok, rid, "header-writer:%s" % what.replace(" ", "-"), els[raws[-1]].get("loc"),
                      "%s is set after the raw header copy on every path" % what,
                      "on some path the %s of a written message header is left as copied from the packet (its common flags may still carry the "
                      "segment bits of an earlier reassembly)" % what)
    if n == 0:
        raise Broken("header writer has no path through getRawMessageHeader")
    return n


def rule_writes_inside_frame(res, rid, m, placement=False):
    """C07-R6: the free-byte count never underflows and every write lands inside the frame:
    (a) on every path through the loop body the message header is written only when >= 16
        bytes are free: the path either took the `bytesLeft < sizeof(MessageHeader)` test as
        false, or opened a frame (fresh free count max - 8 >= 17 under the domain assumption)
        with no decrement in between;
    (b) the chunk length is min(free - sizeof(MessageHeader), ...) computed before the header
        write, the header writer decrements the free count by sizeof(MessageHeader) exactly
        once, and the chunk decrement follows;
    (c) header and chunk are written at frame[size() - free]."""
    f = m.putPacket
    hw = [x for x in f.calls() if m.calls_fn(x, m.header_writer)]
    if len(hw) != 1:
        raise Broken("putPacket: expected one message-header write")
    hw = hw[0]
    hdr = m.fb.record(MH)["size"]
    bl = "this->" + m.short(m.bytesLeft)
    cfg = f.cfg
    body_entry = cfg.succ[m.loop_block][0]
    hb = cfg.block_for(hw)
    ps = paths.enumerate_paths(f, body_entry, lambda b: b == hb)
    n = 0
    for p in ps:
        if p.end_block != hb:
            continue
        n += 1
        ok = False
        why = "no test of the free bytes and no fresh frame before the header is written"
        evs = []
        for a in p.atoms:
            if a[0] == "cmp" and a[1] == bl and const_value(a[5]) is not None:
                k = const_value(a[5])
                if (a[2] == ">=" and k >= hdr) or (a[2] == ">" and k >= hdr - 1):
                    ok = True
                    why = "free bytes >= %d on this path" % hdr
        opened = False
        for _, x in p.elems():
            if x.get("k") == "call":
                g = m.fb.resolve_call(x)
                if g is m.opener:
                    opened = True
                    ok = True
                    why = "a frame was opened on this path (fresh free count = max - %d >= %d)" % (m.fb.record(CH)["size"], MIN_FRESH)
            if x.get("k") == "cassign" and lvalue_root(x["l"]) == m.bytesLeft:
                ok = False
                why = "the free count is decreased between the test/open and the header write"
        res.check(ok, rid, "header-write:room#%d" % n, hw.get("loc"), why, "the message header can be written with fewer than %d free bytes: %s" % (hdr, why))
    if n == 0:
        raise Broken("putPacket: no path from the loop entry to the header write")
    # (b) chunk length
    cps = segmentation_copy(m)
    if len(cps) != 1:
        raise Broken("putPacket: expected one payload copy")
    c, dst, src, ln = cps[0]
    ldecl = strip_all_casts(ln).get("decl")
    ldef = facts.local_defs(f).get(ldecl, [])
    okmin = False
    if len(ldef) == 1:
        e = strip_all_casts(facts.expand(f, ldef[0], keep=(ldecl,)))

        def min_operands(x, depth=0):
            """operands of a (nested) std::min; a constant cap of 65535 or more cannot bind (the other operand is at most the 16-bit payload length)"""
            xs = strip_all_casts(x)
            if xs.get("k") == "ref" and xs.get("dk") == "local" and xs.get("decl") != ldecl and depth < 3:
                d0 = facts.current_definition(f, xs)  # a named intermediate result that still holds what its initialiser says
                if d0 is not None:
                    return min_operands(d0, depth)
            if xs.get("k") == "call" and callee_name(xs) == "std::min" and depth < 3:
                out = []
                for y in xs.get("args", []):
                    out.extend(min_operands(y, depth + 1))
                return out
            if depth and (const_value(xs) or 0) >= 0xFFFF:
                return []
            return [x]
        if e.get("k") == "call" and callee_name(e) == "std::min":
            e = dict(e, args=min_operands(e))
            for a in e.get("args", []):
                a = strip_all_casts(a)
                if a.get("k") == "bin" and a.get("op") == "-" and strip_all_casts(a["l"]).get("field") == m.bytesLeft and (const_value(a["r"]) or 0) >= hdr:
                    okmin = True
                    # the room must reach min() at full width: the frame may be larger than 64 KiB, only the result is bounded by the payload length
                    room_arg = [x for x in e.get("args", []) if strip_all_casts(x) is a or strip_all_casts(x).get("id") == a.get("id")]
                    nar = [x for x in (walk(room_arg[0]) if room_arg else []) if x.get("k") == "cast" and x.get("ck") == "IntegralCast" and
                           ((x.get("t") or {}).get("bits", 64) < 32) and const_value(x) is None]
                    res.check(not nar, rid, "chunk:room-at-full-width", c.get("loc"), "free - %d reaches min() without narrowing" % hdr,
                              "the room left in the frame is converted to %s bits before min(): with frames larger than 64 KiB it wraps and a packet that "
                              "fits is cut into pieces that are all flagged unsegmented" % ((nar[0].get("t") or {}).get("bits") if nar else "?"))
    if okmin and placement:
        exact_room = any(strip_all_casts(a2).get("k") == "bin" and strip_all_casts(a2).get("op") == "-" and strip_all_casts(strip_all_casts(a2)["l"]).get("field") == m.bytesLeft and
                         const_value(strip_all_casts(a2)["r"]) == hdr for a2 in e.get("args", []))
        res.check(exact_room, rid, "chunk:fills-the-frame", c.get("loc"), "the room offered to min() is all of free - %d" % hdr,
                  "the chunk is bounded by less than the free bytes minus the %d-byte message header: segments other than the last do not fill their frame to the maximum" % hdr)
    if okmin:
        # the other operand is what is left of the payload: payload length minus the position the copy reads from (a sum, a constant, the whole
        # length would copy bytes behind the payload into the later segments)
        posv = loop_position_vars(m)
        from rules.decoder_rules import _linear as _lin9

        def sy9(z):
            if z.get("k") == "call" and callee_name(z) == PKT + "::getPayloadLength":
                return "L"
            if z.get("k") == "ref" and z.get("decl") in posv:
                return "pos"
            if z.get("k") == "member" and z.get("field") == m.bytesLeft:
                return "free"
            return None
        others = [a2 for a2 in e.get("args", []) if _lin9(f, a2, sy9) is None or "free" not in (_lin9(f, a2, sy9) or {})]
        okrem = len(posv) == 1 and len(others) == 1 and {k9: v9 for k9, v9 in (_lin9(f, others[0], sy9) or {}).items() if v9} == {"L": 1, "pos": -1}
        res.check(okrem, rid, "chunk:bounded-by-remaining", c.get("loc"), "chunk = min(..., payload length - position)",
                  "the chunk length is not bounded by what is left of the payload (`%s`): later segments copy bytes from behind the payload" %
                  (canon(others[0])[:80] if others else "?"))
    res.check(okmin, rid, "chunk:bounded-by-room", c.get("loc"), "chunk = min(free - %d, ...)" % hdr,
              "the chunk length is not bounded by the free bytes minus the %d-byte message header" % hdr)
    decs = [x for x in m.header_writer.nodes() if x.get("k") == "cassign" and x.get("op") == "-" and lvalue_root(x["l"]) == m.bytesLeft]
    okdec = len(decs) == 1 and const_value(decs[0]["r"]) == hdr
    res.check(okdec, rid, "header-writer:decrement", decs[0].get("loc") if decs else m.header_writer.loc, "header writer takes exactly %d bytes from the free count" % hdr,
              "the header writer does not decrease the free count by exactly sizeof(MessageHeader) once")
    pos_l = cfg.pos_of.get(next((x["id"] for x in f.nodes() if x.get("k") == "decl" and any(v.get("decl") == ldecl for v in x.get("vars", []))), -1), -1)
    okord = cfg.block_for(hw) == cfg.block_for(c) and pos_l >= 0 and pos_l < cfg.pos_of[hw["id"]] < cfg.pos_of[c["id"]]
    if not okord and cfg.block_for(hw) != cfg.block_for(c) and pos_l >= 0:
        # the copy sits in statements spliced in behind the header write: same straight line, later block
        bh9, bc9 = cfg.block_for(hw), cfg.block_for(c)
        ldecl_node = next((x for x in f.nodes() if x.get("k") == "decl" and any(v.get("decl") == ldecl for v in x.get("vars", []))), None)
        okord = cfg.dominates(bh9, bc9) and bc9 not in cfg.dominators().get(bh9, set()) - {bh9} and ldecl_node is not None and \
            (cfg.block_for(ldecl_node) == bh9 and pos_l < cfg.pos_of[hw["id"]] or (cfg.block_for(ldecl_node) != bh9 and cfg.dominates(cfg.block_for(ldecl_node), bh9)))
    res.check(okord, rid, "chunk:computed-before-header", c.get("loc"), "chunk computed, then header written, then chunk copied",
              "the chunk length is not computed before the header write that takes its 16 bytes")
    # (c) write positions
    for what, fn, node in (("chunk", f, dst), ("header", m.header_writer, None)):
        if node is None:
            node = header_landing(m)[1]
        e = facts.inline_accessors(m.fb, facts.expand(fn, node))  # (a `currentWritePosition()` helper stands for its expression)
        subs = [x for x in walk(e) if x.get("k") == "call" and (x.get("callee") or {}).get("nm") == "operator[]"]
        okpos = False
        for sub in subs:
            idx = strip_all_casts(sub["args"][0])
            if idx.get("k") == "bin" and idx.get("op") == "-" and (strip_all_casts(idx["l"]).get("callee") or {}).get("nm") == "size" and strip_all_casts(idx["r"]).get("field") == m.bytesLeft and \
                    (m.frames in depends(fn, sub["obj"])[0] or m.frames in reads(sub["obj"])):
                okpos = True
        res.check(okpos, rid, "%s:position" % what, node.get("loc") if isinstance(node, dict) else fn.loc, "%s written at frame[size() - free]" % what,
                  "the %s is not written at frame[size() - free bytes]" % what)
