"""C05 — Segmented messages reassemble correctly under any interleaving (structural clauses)."""
from cmpverif.report import Result
from rules import decoder_rules as D

LEVEL = "other"


def run(ctx):
    fb = ctx.fb()
    res = Result("C05")
    m = D.DecodeModel(fb)
    res.rule("C05-R8", "a segment ends the walk over its frame: every loop path that handled a first or continuation segment leaves the message loop, so "
                        "frame padding behind a segment is never parsed (its rejection would erase the entry just opened or extended)")
    res.rule("C05-R9", "the entry stores and compares the frame's own version, message type and sequence counter at full width: matching CmpHeader getter, "
                        "passed unchanged from this frame, through parameters and members at least as wide as the header field")
    res.rule("C05-R1", "keyed state: every use of the reassembly table is keyed by {getDeviceId(), getStreamId()} of this call's frame header")
    res.rule("C05-R2", "key equality compares both components; hash reads key fields only")
    res.rule("C05-R3", "modular successor: the sequence-counter comparison is evaluated in 16-bit arithmetic (65535 -> 0 wraps)")
    res.rule("C05-R4", "declared length only: every copy into the reassembly buffer has a length derived from the segment's getPayloadLength()")
    res.rule("C05-R5", "accept guard complete: appending requires stored version ==, message type ==, counter == and a valid segment-type "
                        "transition; the 4x4 transition table equals the protocol's")
    res.rule("C05-R6", "deliver on last, from the current key's entry; version and message type delivered are the first segment's (written "
                        "only by the first-segment constructor)")
    res.rule("C05-R7", "closed world of rejections: every `return false` of addSegment is decided by a protocol reason (version, message type or "
                        "counter mismatch, declared length exceeding the frame, invalid transition) or by a size limit that only rejects reassembled "
                        "payloads above 65535 bytes (linear form over buffer size and declared length)")
    res.rule("C05-R10", "each protocol case does its part (C17-R1): per path through the message loop, classified by what is known about the message "
                         "(valid, segmented, first, accepted, assembled), the last table operation on the endpoint's key is the protocol's — a first segment "
                         "opens a fresh entry, a rejected or completing continuation releases it, an accepted incomplete one leaves it — and first and "
                         "continuation segments are not handed to each other's handler")
    res.not_decided += ["exactly-once delivery under every interleaving (history/schedule quantifier): only the structural premises are decided"]
    D.rule_segtype_subject(res, "C05-R5", m)
    D.rule_classifier_reads_type_only(res, "C05-R5", m)
    D.rule_keyed_access(res, "C05-R1", m)
    D.rule_key_equality(res, "C05-R2", m)
    D.rule_modular_successor(res, "C05-R3", m)
    n4 = D.rule_declared_length(res, "C05-R4", m)
    D.rule_accept_guard(res, "C05-R5", m)
    D.rule_deliver_release(res, "C05-R6", m)
    D.rule_reject_reasons(res, "C05-R7", m)
    from rules import c03
    c03.rule_message_validator_exact(fb, res, "C05-R7", "message-validator:")  # a segment the message validator rejects never reaches addSegment
    D.rule_loop_typestate(res, "C05-R10", m)
    n8 = D.rule_segment_ends_walk(res, "C05-R8", m)
    D.rule_segment_plumbing(res, "C05-R9", m)
    res.rule("C05-R11", "the reassembler acts on what the wire says: the header getters it reads key, counter, version, message type, segment type and "
                         "declared length through return exactly their wire fields, for all values (G4 with the layout oracle, shared with C12-R1)")
    D.rule_header_reads(res, "C05-R11", ctx, fb)
    res.floor("C05-R8", 3, n8)
    res.floor("C05-R9", 12)
    res.floor("C05-R1", 5)  # one keyed operation per protocol case that touches the table
    res.floor("C05-R3", 1)
    res.floor("C05-R4", 2, n4)
    res.floor("C05-R5", 20)
    res.floor("C05-R6", 8)
    res.floor("C05-R7", 5)
    return res
