"""C11 — Setting a field changes that field and nothing else.

G4 (bit-provenance abstract interpretation) over every get/set pair of every header,
payload, packet and payload-type class named in spec/layout.json: decided per storage
bit for all values and all prior object states at once.
"""
from cmpverif import accessors
from cmpverif.report import Result

LEVEL = "proof"
TAGS = {"frame": "C11-R1", "readback": "C11-R2", "flag": "C11-R3"}


def run(ctx):
    fb = ctx.fb()
    res = Result("C11")
    res.rule("C11-R1", "frame: under the in-range assumption (parameter bits above the field width are 0) a setter leaves "
                        "every storage bit outside its own field equal to the old value of that same bit")
    res.rule("C11-R2", "read-back: getter(setter(v)) == v on the in-range bits and 0 above, from any prior object state")
    res.rule("C11-R3", "flags: for each enumerator of the mask enum and both truth values, setFlag makes exactly the masked "
                        "bits equal to the value and getFlag returns the OR of exactly the masked bits; read-back agrees")
    res.assumptions += ["arguments are within the field's range (bits above the field width are zero)",
                        "x86-64 little-endian target as compiled; accessor names are those of the public API"]
    res.rule("C11-R4", "variable-length parts (data bytes, stream ids, vendor data, strings) written through setData read back from any prior state: the "
                        "builders write every byte they advance over — length words, content, terminators and pad bytes — on every path, so nothing "
                        "of the object's previous content survives inside the new one (C13-R3)")
    res.not_decided += ["value equality of the variable-length parts beyond 'every byte of the new content is written' (C13)"]
    obs, stats = accessors.analyse(fb, ctx.spec("layout.json"))
    for o in obs:
        if o.tag in TAGS:
            res.check(o.ok, TAGS[o.tag], o.key, o.loc, o.detail)
    res.extra["accessor_stats"] = {k: v for k, v in stats.items() if k != "unsupported"}
    accessors.require_supported(stats)
    from rules import c13
    for o in c13.run(ctx).obligations:
        if o["rule"] == "C13-R3":
            res.check(o["ok"], "C11-R4", "builders:" + o["key"], o["loc"], o["detail"], o["detail"])
        elif o["rule"] == "C13-R5" and o["key"].endswith("resize-first"):
            # ... and the bytes in front of the data stay: the buffer is re-sized (which keeps what is there), not re-assigned, before the first write
            res.check(o["ok"], "C11-R4", "builders:" + o["key"], o["loc"], o["detail"], o["detail"])
        elif o["rule"] == "C13-R1" and o["key"].endswith("header-writes"):
            # setData is the setter of the data field: of the header it rewrites the length / DLC bytes that describe the data and nothing else
            # (a flag 'kept consistent' with the new length is a second field changed by the call)
            res.check(o["ok"], "C11-R4", "builders:" + o["key"], o["loc"], o["detail"], o["detail"])
    res.floor("C11-R4", 8)
    res.floor("C11-R1", 150)
    res.floor("C11-R2", 150)
    res.floor("C11-R3", 200)
    return res
