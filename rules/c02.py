"""C02 — Decoding arbitrary bytes is memory-safe and terminates.

A closed inventory of raw-memory constructs in decode-reachable code, each with a
bounds obligation discharged by an enumerated justification (DESIGN §4 C02):

  R1  header views over (pointer, size) parameters: guarded locally (must-facts) or by a
      precondition that every call site discharges (validator fact, size fact, or the
      caller's own precondition, depth <= 4); (pointer, size) pairs handed down stay
      inside the caller's pair
  R2  payload-class invariant payloadData.size() >= sizeof(Header) at every construction
      site in decode-reachable code (validator-guarded, self-validating constructor +
      isValid() test, or constant default size)
  R3  every raw copy: bytes read/written are covered (enumerated justifications)
  R4  unsigned subtraction inside a bounds/loop guard is itself guarded
  R5  loop progress and "at most one packet per 12 input bytes"
  R6  nullable results are tested before they are dereferenced
  R7  packets/payloads own their bytes (types)
  R8  the input is never written through
"""
from cmpverif import facts, paths
from cmpverif.build import Broken
from cmpverif.facts import (MustFacts, callee_name, called_names, canon, conjuncts, const_value, depends, local_defs, lvalue_root, reads,
                            strip, strip_all_casts, walk, writes_of)
from cmpverif.report import Result
from rules.decoder_rules import _linear

LEVEL = "other"
NS = "ASAM::CMP::"
ENTRY = [NS + "Decoder::decode", "TECMP::Decoder::Decode"]
COPY = {"memcpy", "memmove", "std::memcpy", "std::memmove"}
BUILDERS = (NS + "CaptureModulePayload::setData", NS + "CaptureModulePayload::fillWithString", NS + "InterfacePayload::setData",
            NS + "Payload::setData", "TECMP::Payload::setData")
TECMP_VIEWS = {"TECMP::CanPayload": ("getData", "getDlc"), "TECMP::LinPayload": ("getData", "getDataLength")}


# ------------------------------------------------------------------ provenance
class Prov:
    def __init__(self, kind, base=None, off=0, view=None):
        self.kind, self.base, self.off, self.view = kind, base, off, view

    def __repr__(self):
        return "%s(%s)+%s%s" % (self.kind, self.base, self.off, " as " + self.view if self.view else "")


def prov(fn, e, depth=6, outptr=None):
    """Provenance of a pointer expression: param/vec/localobj/null/unknown + constant byte offset."""
    e0 = e
    view = None
    while isinstance(e, dict) and e.get("k") == "cast":
        t = e.get("t") or {}
        if e.get("written") in ("reinterpret", "cstyle", "static") and t.get("prec") and view is None:
            view = t.get("prec")
        e = e["e"]
    if not isinstance(e, dict):
        return Prov("unknown")
    k = e.get("k")
    p = None
    if k == "lit" and e.get("null"):
        p = Prov("null")
    elif k == "ref":
        if e.get("dk") == "param":
            p = Prov("param", e["decl"], 0)
        elif e.get("dk") == "local" and depth > 0:
            if outptr and e["decl"] in outptr:
                p = outptr[e["decl"]]
                p = Prov(p.kind, p.base, p.off, p.view)
            else:
                ds = local_defs(fn).get(e["decl"], [])
                if len(ds) == 1:
                    p = prov(fn, ds[0], depth - 1, outptr)
                else:
                    p = Prov("cursor", e["decl"], 0)
    elif k == "member" and outptr and canon(e) in outptr:
        p = outptr[canon(e)]
        p = Prov(p.kind, p.base, p.off, p.view)
    elif k == "bin" and e.get("op") in ("+", "-"):
        l, r = e["l"], e["r"]
        lt = (strip(l).get("t") or {})
        if lt.get("k") != "ptr":
            l, r = r, l
            lt = (strip(l).get("t") or {})
        c = const_value(r)
        base = prov(fn, l, depth, outptr)
        if c is not None and base.off is not None:
            scale = lt.get("psize") or 1
            p = Prov(base.kind, base.base, base.off + (c if e["op"] == "+" else -c) * scale, base.view)
        else:
            p = Prov(base.kind, base.base, None, base.view)
            p.sym = canon(strip_all_casts(r))
    elif k == "call":
        nm = (e.get("callee") or {}).get("nm")
        if nm == "data" and "obj" in e:
            p = Prov("vec", canon(e["obj"]), 0)
        elif nm in ("get", "operator->") and "obj" in e:
            p = Prov("obj", canon(e["obj"]), 0)
        else:
            # a one-line pass-through helper (`asHeader(p)` = `reinterpret_cast<const H*>(p)`) stands for its expression
            y = facts.inline_accessor(getattr(fn, "fb", None), e) if depth > 0 else None
            if y is not None and (strip(e).get("t") or {}).get("k") == "ptr":
                p = prov(fn, y, depth - 1, outptr)
                if p.kind == "unknown":
                    p = Prov("call", callee_name(e), 0)
            else:
                p = Prov("call", callee_name(e), 0)
    elif k == "un" and e.get("op") == "&":
        t = strip_all_casts(e["e"])
        if t.get("k") == "ref":
            p = Prov("localobj", t.get("decl"), 0)
            p.objtype = t.get("t")
        elif t.get("k") in ("subscript",) or (t.get("k") == "call" and (t.get("callee") or {}).get("nm") == "operator[]"):
            p = Prov("element", canon(t), 0)
    elif k == "this":
        p = Prov("this", "this", 0)
    if p is None:
        p = Prov("unknown")
    if view is not None:
        p.view = view
    return p


def companion(fn, pdecl):
    """Size parameter that accompanies pointer parameter pdecl (the next size_t parameter)."""
    ps = fn.params
    for i, p in enumerate(ps):
        if p["decl"] == pdecl and i + 1 < len(ps):
            t = ps[i + 1]["t"]
            if t.get("k") == "int" and not t.get("sg") and t.get("bits") in (8, 16, 32, 64):
                return ps[i + 1]["decl"], i + 1
    return None, None


def reaching_const(f, refnode):
    """Constant value of a local at a use when exactly one definition can reach it and that
    definition is a constant (definitions inside a loop that starts after the use do not reach it)."""
    n = strip_all_casts(refnode)
    if f is None or n.get("k") != "ref" or n.get("dk") != "local" or not f.cfg_raw:
        return None
    cfg = f.cfg
    ub = cfg.block_for(n)
    if ub is None:
        return None
    defs = []
    for x in f.nodes():
        if x.get("k") == "decl":
            for v in x.get("vars", []):
                if v.get("decl") == n["decl"] and isinstance(v.get("init"), dict):
                    defs.append((x, v["init"]))
        elif x.get("k") in ("assign", "cassign") and lvalue_root(x["l"]) == n["decl"]:
            defs.append((x, None if x.get("k") == "cassign" else x["r"]))
        elif x.get("k") == "un" and x.get("op") in ("pre++", "post++", "pre--", "post--") and lvalue_root(x["e"]) == n["decl"]:
            defs.append((x, None))
    reach = []
    for dn, val in defs:
        db = cfg.block_for(dn)
        if db is None:
            return None
        # can control flow from the definition to the use?
        seen = set()
        st = [db]
        ok = False
        while st:
            b = st.pop()
            if b == ub and (b != db or cfg.pos_of.get(min((y["id"] for y in walk(dn) if y["id"] in cfg.pos_of), default=-1), 0) <
                            cfg.pos_of.get(n["id"], 1 << 30) or b in seen):
                ok = True
                break
            if b in seen:
                continue
            seen.add(b)
            st.extend(s2 for s2 in cfg.succ[b] if s2 is not None)
        if ok:
            reach.append(val)
    if len(reach) == 1 and reach[0] is not None:
        return const_value(reach[0])
    return None


def lb_from_facts(fs, x_canon, f=None):
    best = 0
    for a in fs:
        if a[0] != "cmp":
            continue
        _, l, op, r, ln, rn = a
        lv, rv = const_value(ln), const_value(rn)
        if lv is None:
            lv = reaching_const(f, ln)
        if rv is None:
            rv = reaching_const(f, rn)
        if l == x_canon and rv is not None and op in (">=", ">", "=="):
            best = max(best, rv + (1 if op == ">" else 0))
        if r == x_canon and lv is not None and op in ("<=", "<", "=="):
            best = max(best, lv + (1 if op == "<" else 0))
    return best


class Engine:
    def __init__(self, fb, res):
        self.fb = fb
        self.res = res
        roots = [fb.fn(n) for n in ENTRY]
        self.reach = fb.reachable_from(roots)
        self.fns = sorted(self.reach.values(), key=lambda f: f.name)
        self._mf = {}
        self.callers = {}
        for f in self.fns:
            for n in f.nodes():
                if n.get("k") in ("call", "construct"):
                    g = fb.resolve_call(n)
                    if g is not None and g.key in self.reach:
                        self.callers.setdefault(g.key, []).append((f, facts.effective_call(n)))
        self.validators = {}
        self.req = {}      # fn.key -> {ptr param decl: need bytes}
        self.req_ok = {}   # fn.key -> bool (all call sites discharged)

    def mf(self, f):
        if f.key not in self._mf:
            self._mf[f.key] = MustFacts(f)
        return self._mf[f.key]

    # ---- validators: static bool f(const uint8_t*, size_t): guaranteed minimum on true
    def validator_min(self, g):
        if g.key in self.validators:
            return self.validators[g.key]
        K = 0
        try:
            from rules.c03 import validator_facts
            if (g.raw.get("rett") or {}).get("k") == "bool" and len(g.params) >= 2:
                K, _ = validator_facts(self.fb, g)
        except Broken:
            K = 0
        self.validators[g.key] = K
        return K

    def facts_lb(self, f, node, x_canon, ptr_canon=None):
        """Lower bound of size expression x at node: local comparisons and validator truths."""
        fs = self.mf(f).at(node)
        lb = lb_from_facts(fs, x_canon, f)
        for a in fs:
            if a[0] == "truth" and a[2] is True and a[3].get("k") == "call":
                g = self.fb.resolve_call(a[3])
                args = a[3].get("args", [])
                if g is not None and len(args) >= 2 and canon(strip_all_casts(args[1])) == x_canon and \
                        (ptr_canon is None or canon(strip_all_casts(args[0])) == ptr_canon):
                    lb = max(lb, self.validator_min(g))
        return lb, fs


def run(ctx):
    fb = ctx.fb()
    res = Result("C02")
    res.rule("C02-R1", "guarded header view: a record viewed over bytes of a (pointer, size) parameter is dereferenced only where size >= offset + "
                        "sizeof(record) holds — by a local guard, or by a precondition that every call site discharges (validator result on the same "
                        "pointer and size, a size comparison, or the caller's own discharged precondition)")
    res.rule("C02-R1p", "(pointer, size) pairs handed to a callee stay inside the caller's pair: pointer offset k and size n + c satisfy k >= 0, k + c <= 0 and n >= -c")
    res.rule("C02-R2", "payload-class invariant: every typed payload object created in decode-reachable code holds at least sizeof(Header) bytes — constant "
                        "default size, construction guarded by the class validator, or a self-validating constructor (marks the object invalid unless "
                        "the size and inner length fit) whose result is tested with isValid() before it escapes")
    res.rule("C02-R3", "bounded copy: for every raw copy in decode-reachable code the bytes read and written are covered by an enumerated justification "
                        "(pair copy, guarded length, constant within a guaranteed minimum, whole local object, validated object view, builder buffer sized from the same operands)")
    res.rule("C02-R4", "no unguarded unsigned subtraction in a bounds or loop guard")
    res.rule("C02-R5", "loop progress: every loop is an index/range loop over an unmodified container or moves a cursor monotonically by a positive "
                        "constant on every path that re-enters it; each push of a result inside a cursor loop lies on a path that consumes >= 12 input bytes or leaves the loop")
    res.rule("C02-R6", "nullable result dereferenced: the result of a function that can return null is tested before it is dereferenced")
    res.rule("C02-R7", "ownership: Packet, Payload and derived classes hold no pointer/reference/view members; the (type,data,size) constructors copy the bytes")
    res.rule("C02-R8", "the input is read-only: input parameters are pointer-to-const; a pointer obtained by casting const away is never written through")
    res.rule("C02-R9", "reassembly-entry invariant: the reassembly buffer is viewed as a message header (getHeader, getPacket) only in entries built from "
                        "a first segment — a default-constructed entry (inserted by operator[]) never accepts a segment (C17-R1L: stored version 0 never "
                        "matches, or its segment state admits no continuation) and the buffer is sized only by the constructor and by growth in addSegment (C17-R2)")
    res.assumptions += ["libstdc++ containers are memory-safe when used within their preconditions", "callers pass a readable buffer of `size` bytes",
                        "the write side of the payload builders used by the TECMP converter (arithmetic sufficiency of the computed size) is C13's and is not decided"]
    res.not_decided += ["absence of every possible out-of-bounds access (no sound C++ memory-safety prover in the image): constructs of a kind not in the inventory are exit 2",
                        "wall-clock promptness beyond loop progress"]
    eng = Engine(fb, res)
    res.extra["decode_reachable_functions"] = len(eng.fns)
    if len(eng.fns) < 120:
        raise Broken("only %d decode-reachable functions" % len(eng.fns))
    rule_views(eng)
    rule_pairs(eng, ctx)
    rule_construction(eng)
    rule_copies(eng)
    rule_typed_labels(eng)
    rule_subscripts(eng)
    rule_table_subscripts(eng)
    rule_subtractions(eng)
    rule_divisions(eng)
    rule_loops(eng)
    rule_nullable(eng)
    rule_ownership(eng)
    rule_readonly(eng)
    from rules import decoder_rules as D
    dm = D.DecodeModel(fb)
    D.rule_default_entry_rejected(res, "C02-R9", dm)
    D.rule_buffer_growth(res, "C02-R9", dm)
    res.floor("C02-R9", 4)
    res.floor("C02-R1", 12)
    res.floor("C02-R1p", 15)
    res.floor("C02-R2", 12)
    res.floor("C02-R3", 12)
    res.floor("C02-R4", 5)
    res.floor("C02-R5", 4)
    res.floor("C02-R6", 2)
    res.floor("C02-R7", 12)
    res.floor("C02-R8", 3)
    return res


# ------------------------------------------------------------------ R1
def view_uses(eng, f):
    """[(node, ptr param decl, need bytes, what)] raw reads through pointers derived from pointer parameters of f."""
    out = []
    outp = outptr_env(eng, f)
    nodes = []
    for n in f.nodes():
        # library calls that read n bytes behind a pointer without copying them (memcmp(a, b, n), memchr(p, c, n)): each pointer operand is
        # a view of n bytes
        if n.get("k") == "call" and callee_name(n) in ("memcmp", "std::memcmp", "bcmp", "memchr", "std::memchr") and len(n.get("args", [])) == 3:
            ln = const_value(n["args"][2])
            for a in (n["args"][:2] if "cmp" in callee_name(n) else n["args"][:1]):
                nodes.append((n, a, ln if ln is not None else 1 << 30))
        else:
            nodes.append((n, None, None))
    for n, rawptr, rawlen in nodes:
        k = n.get("k")
        ptr = None
        if rawptr is not None:
            ptr = rawptr
        elif k == "call" and "obj" in n and n.get("arrow"):
            ptr = n["obj"]
        elif k == "member" and n.get("arrow") and n.get("dk") == "field":
            ptr = n["base"]
        elif k == "un" and n.get("op") == "*":
            ptr = n["e"]
        elif k == "subscript":
            ptr = n["base"]
        if ptr is None:
            continue
        pr = prov(f, ptr, outptr=outp)
        if pr.kind not in ("param", "cursor"):
            continue
        if pr.kind == "cursor":
            # only cursors that walk an input buffer: some definition of the moving pointer derives from a pointer parameter
            # (an iterator over a local or static table is not an input view)
            inits = [prov(f, e, depth=3, outptr=outp) for e in local_defs(f).get(pr.base, []) if e.get("k") != "un"]
            if not any(q.kind == "param" for q in inits):
                continue
        pt = (strip(ptr).get("t") or {})
        size = None
        if pr.view and pr.view in eng.fb.records:
            size = eng.fb.records[pr.view]["size"]
        elif pt.get("psize"):
            size = pt["psize"]
        if k == "subscript":
            i = const_value(n["idx"])
            if i is None:
                continue
            size = (pt.get("psize") or 1) * (i + 1)
        if rawptr is not None:
            size = rawlen
        if size is None:
            continue
        if pr.off is None:
            continue
        # pointer-to-pointer out parameters are not input views
        ptype = [p for p in f.params if p["decl"] == pr.base]
        if ptype and "**" in ptype[0]["t"]["s"].replace(" ", ""):
            continue
        out.append((n, pr.base if pr.kind == "param" else "cursor:" + pr.base, pr.off + size,
                    "view of %s at offset %d" % (pr.view or pt.get("pointee"), pr.off)))
    return out


def outptr_env(eng, f):
    """locals of f that received a pointer through an out-parameter of a callee and are
    known non-null: decl -> Prov relative to f's parameters (+ facts as .lb)."""
    env = {}
    for c in f.calls():
        g = eng.fb.resolve_call(c)
        if g is None:
            continue
        for i, a in enumerate(c.get("args", [])):
            a0 = strip_all_casts(a)
            if a0.get("k") == "un" and a0.get("op") == "&" and strip_all_casts(a0["e"]).get("dk") == "local" and i < len(g.params):
                pt = g.params[i]["t"]["s"].replace(" ", "")
                if not pt.endswith("**"):
                    continue
                od = g.params[i]["decl"]
                # assignments *od = E in g
                vals = []
                for x in g.nodes():
                    if x.get("k") == "assign":
                        l = strip_all_casts(x["l"])
                        if l.get("k") == "un" and l.get("op") == "*" and strip_all_casts(l["e"]).get("decl") == od:
                            pr = prov(g, x["r"])
                            if pr.kind == "null":
                                continue
                            gs, gi = companion(g, pr.base) if pr.kind == "param" else (None, None)
                            lb = lb_from_facts(eng.mf(g).at(x), gs) if gs else 0
                            vals.append((pr, lb, gs))
                if len(vals) == 1 and vals[0][0].kind == "param" and vals[0][0].off is not None:
                    pr, lb, gs = vals[0]
                    gidx = [p["decl"] for p in g.params].index(pr.base)
                    actual = prov(f, c["args"][gidx])
                    if actual.kind == "param" and actual.off is not None:
                        p2 = Prov("param", actual.base, actual.off + pr.off)
                        p2.lb = lb
                        p2.nonnull_needed = True
                        env[strip_all_casts(a0["e"])["decl"]] = p2
            # a local {pointer, size} struct filled through a non-const reference parameter: fields assigned `prm.ptr = data + k`,
            # `prm.size = size - k` in the callee (a whole-object reset to its null default does not count)
            if a0.get("k") == "ref" and a0.get("dk") == "local" and i < len(g.params) and g.params[i]["t"].get("ref") and \
                    g.params[i]["t"].get("k") == "rec" and not g.params[i]["t"].get("const"):
                od = g.params[i]["decl"]
                fields = {}
                for x in g.nodes():
                    if x.get("k") == "assign":
                        l = strip_all_casts(x["l"])
                        if l.get("k") == "member" and strip_all_casts(l.get("base", {})).get("decl") == od:
                            fields.setdefault(l["name"], []).append(x)
                for fname, asg in fields.items():
                    if len(asg) != 1:
                        continue
                    x = asg[0]
                    key = "%s.%s" % (a0["decl"], fname)
                    if (strip_all_casts(x["l"]).get("t") or {}).get("k") == "ptr":
                        pr = prov(g, x["r"])
                        if pr.kind == "param" and pr.off is not None:
                            gs, _ = companion(g, pr.base)
                            gidx = [p["decl"] for p in g.params].index(pr.base)
                            actual = prov(f, c["args"][gidx])
                            if actual.kind == "param" and actual.off is not None:
                                p2 = Prov("param", actual.base, actual.off + pr.off)
                                p2.lb = lb_from_facts(eng.mf(g).at(x), gs) if gs else 0
                                p2.nonnull_needed = True
                                env[key] = p2
                    else:
                        # size field: linear in the callee's size parameter
                        for prm in g.params:
                            def syms(z, prm=prm):
                                return "n" if z.get("k") == "ref" and z.get("decl") == prm["decl"] else None
                            form = _linear(g, x["r"], syms)
                            if form is not None and form.get("n") == 1 and set(form) <= {"n", 1}:
                                gidx = [p["decl"] for p in g.params].index(prm["decl"])
                                act = strip_all_casts(c["args"][gidx]) if gidx < len(c.get("args", [])) else {}
                                if act.get("k") == "ref":
                                    env[key] = ("size", act["decl"], form.get(1, 0))
    return env


def outp_lb(outp, node, fs):
    """Lower bound inherited from the callee that filled an out-pointer / out-struct used in `node`, when the
    pointer's non-null test is live (the callee leaves it null unless its own size guard held)."""
    best = 0
    for d, p2 in outp.items():
        if not isinstance(p2, Prov):
            continue
        used = any((x.get("decl") == d) or (x.get("k") == "member" and canon(x) == d) for x in walk(node))
        if used and any(a[0] == "cmp" and a[2] == "!=" and (a[1] == d or a[3] == d) for a in fs):
            best = max(best, getattr(p2, "lb", 0))
    return best


def size_form(f, sa, cs, outp):
    """Linear form {n: 1, 1: c} of a size argument over the caller's companion size cs; a size field of an
    out-struct (`cursor.size`, assigned `size - k` by the callee from this same cs) counts as n - k."""
    def syms(x):
        if x.get("k") == "ref" and x.get("decl") == cs:
            return "n"
        if x.get("k") == "member":
            ent = (outp or {}).get(canon(x))
            if isinstance(ent, tuple) and ent[0] == "size" and ent[1] == cs:
                return "S%d" % ent[2]
        return None
    form = _linear(f, sa, syms)
    if form is None:
        return None
    out = {}
    for k, v in form.items():
        if isinstance(k, str) and k.startswith("S"):
            out["n"] = out.get("n", 0) + v
            out[1] = out.get(1, 0) + v * int(k[1:])
        else:
            out[k] = out.get(k, 0) + v
    return out


def rule_views(eng):
    fb, res = eng.fb, eng.res
    # pass 1: local discharge or requirement
    for f in eng.fns:
        uses = view_uses(eng, f)
        if not uses:
            continue
        outp = outptr_env(eng, f)
        for n, pdecl, need, what in uses:
            key = "%s:%s@%s" % (f.name.replace(NS, ""), what.replace(NS, ""), (n.get("loc") or "").split(":", 1)[-1])
            if pdecl.startswith("cursor:"):
                # a view through a moving local pointer: a validator result on (cursor, remaining) must be live here
                cur = pdecl[7:]
                fs = eng.mf(f).at(n)
                best, bs = 0, None
                for a in fs:
                    if a[0] == "truth" and a[2] is True and a[3].get("k") == "call" and len(a[3].get("args", [])) >= 2 and \
                            canon(strip_all_casts(a[3]["args"][0])) == cur:
                        sv = canon(strip_all_casts(a[3]["args"][1]))
                        lb, _ = eng.facts_lb(f, n, sv, cur)
                        if lb > best:
                            best, bs = lb, sv
                res.check(best >= need, "C02-R1", key, n.get("loc"), "cursor view: validator result on (%s, %s) live here guarantees %d >= %d bytes" %
                          (cur.split(":")[-1], (bs or "?").split(":")[-1], best, need),
                          "%s through the moving pointer `%s` needs %d bytes but no validator result on that pointer is live here (guaranteed: %d)" %
                          (what, cur.split(":")[-1], need, best))
                continue
            sdecl, sidx = companion(f, pdecl)
            if sdecl is None:
                eng.req.setdefault(f.key, {}).setdefault(pdecl, [0, None, []])
                r = eng.req[f.key][pdecl]
                r[0] = max(r[0], need)
                r[2].append((n, key, what))
                continue
            lb, fs = eng.facts_lb(f, n, sdecl, pdecl)
            # out-pointer locals: need the non-null test and inherit the callee's guard
            lb = max(lb, outp_lb(outp, n, fs))
            if lb >= need:
                res.ok("C02-R1", key, n.get("loc"), "locally guarded: %s >= %d" % (sdecl.split(":")[-1], need))
            else:
                r = eng.req.setdefault(f.key, {}).setdefault(pdecl, [0, sdecl, []])
                r[0] = max(r[0], need)
                r[1] = sdecl
                r[2].append((n, key, what))
    # raw copies of a constant number of bytes out of a (pointer, size) parameter pair that no local guard covers:
    # the same kind of precondition as a header view (Packet(type, data, size) reading its 16 header bytes into a local)
    for f in eng.fns:
        if not f.cfg_raw:
            continue
        for c in f.calls():
            ca = facts.copy_args(c)
            if ca is None or const_value(ca[2]) is None:
                continue
            pr = prov(f, ca[1])
            if pr.kind != "param" or pr.off is None:
                continue
            sdecl, _ = companion(f, pr.base)
            if sdecl is None:
                continue
            need = pr.off + const_value(ca[2])
            lb, _ = eng.facts_lb(f, c, sdecl, pr.base)
            if lb < need:
                key = "%s:copy of %d bytes at offset %d@%s" % (f.name.replace(NS, ""), const_value(ca[2]), pr.off, (c.get("loc") or "").split(":", 1)[-1])
                r = eng.req.setdefault(f.key, {}).setdefault(pr.base, [0, sdecl, []])
                r[0] = max(r[0], need)
                r[1] = sdecl
                r[2].append((c, key, "copy of %d bytes at offset %d" % (const_value(ca[2]), pr.off)))
    # pass 2: discharge requirements at call sites (propagating upwards)
    changed = True
    rounds = 0
    undis = {}
    while changed and rounds < 5:
        changed = False
        rounds += 1
        for fk, reqs in list(eng.req.items()):
            f = eng.reach[fk]
            for pdecl, (need, sdecl, uses) in list(reqs.items()):
                pidx = [p["decl"] for p in f.params].index(pdecl)
                sidx = [p["decl"] for p in f.params].index(sdecl) if sdecl else None
                sites = eng.callers.get(fk, [])
                bad = []
                for cf, cn in sites:
                    ok, why, prop = discharge_site(eng, cf, cn, pidx, sidx, need)
                    if ok:
                        continue
                    if prop is not None:
                        cp, cs, cneed = prop
                        cr = eng.req.setdefault(cf.key, {}).setdefault(cp, [0, cs, []])
                        if cr[0] < cneed:
                            cr[0] = cneed
                            cr[1] = cs
                            changed = True
                        cr[2].extend(u for u in uses if u not in cr[2])
                        continue
                    bad.append((cf, cn, why))
                undis[(fk, pdecl)] = bad
    for fk, reqs in eng.req.items():
        f = eng.reach[fk]
        for pdecl, (need, sdecl, uses) in reqs.items():
            bad = undis.get((fk, pdecl), [])
            is_entry = f.name in ENTRY
            seen = set()
            for n, key, what in uses:
                if key in seen:
                    continue
                seen.add(key)
                if f.key not in [eng.reach[k].key for k in eng.req] or True:
                    pass
            if is_entry:
                # an entry point cannot require anything from its caller beyond the stated buffer
                for n, key, what in uses:
                    res.bad("C02-R1", key, n.get("loc"), "%s needs %s >= %d but no guard establishes it on the way from %s" %
                            (what, (sdecl or "the buffer").split(":")[-1], need, f.name))
                continue
            for n, key, what in {u[1]: u for u in uses}.values():
                own = eng.reach.get(fk)
                if bad and own is not None and any(True for _ in bad):
                    cf, cn, why = bad[0]
                    res.bad("C02-R1", key, n.get("loc"), "%s needs %d bytes; call site %s at %s does not establish it (%s)" %
                            (what, need, cf.name.replace(NS, ""), cn.get("loc"), why))
                else:
                    res.ok("C02-R1", key, n.get("loc"), "precondition %s >= %d discharged at all %d call sites" %
                           ((sdecl or "buffer").split(":")[-1], need, len(eng.callers.get(fk, []))))
    eng.req_final = {fk: {p: v[0] for p, v in r.items()} for fk, r in eng.req.items()}


def discharge_site(eng, cf, cn, pidx, sidx, need):
    """Is `size >= need` established at call site cn (in cf) for the pointer/size arguments?
    Returns (ok, why, propagate) where propagate = (caller ptr param, caller size param, need') or None."""
    args = cn.get("args", [])
    if pidx >= len(args):
        return False, "argument missing", None
    outp = outptr_env(eng, cf)
    pa = args[pidx]
    pr = prov(cf, pa, outptr=outp)
    pcan = canon(strip_all_casts(pa))
    if sidx is not None and sidx < len(args):
        sa = strip_all_casts(args[sidx])
        scan = canon(sa)
        lb, fs = eng.facts_lb(cf, cn, scan, pcan)
        if lb >= need:
            return True, "", None
        if pr.kind == "vec" and sa.get("k") == "call" and (sa.get("callee") or {}).get("nm") == "size" and canon(sa.get("obj")) == pr.base and pr.off == 0:
            inv = vec_member_lb(eng, cf, strip_all_casts(sa["obj"]))
            if inv >= need:
                return True, "", None
            return False, "vector member holds >= %d bytes" % inv, None
        # size argument linear in the caller's companion size
        if pr.kind == "param" and pr.off is not None:
            cs, csi = companion(cf, pr.base)
            if cs:
                form = size_form(cf, sa, cs, outp)
                if form is not None and form.get("n") == 1:
                    c = form.get(1, 0)
                    lbn, _ = eng.facts_lb(cf, cn, cs, pr.base)
                    lbn = max(lbn, outp_lb(outp, pa, fs))
                    if lbn + c >= need:
                        return True, "", None
                    return False, "size argument %s with %s >= %d gives only %d" % (scan, cs.split(":")[-1], lbn, lbn + c), (pr.base, cs, need - c)
        # min(a, b): both at least need?  std::min handled through lb of arguments
        if sa.get("k") == "call" and callee_name(sa) == "std::min":
            lbs = [eng.facts_lb(cf, cn, canon(strip_all_casts(x)), pcan)[0] for x in sa.get("args", [])]
            if min(lbs) >= need:
                return True, "", None
        # vector pair: (v.data(), v.size()) with invariant handled elsewhere
        return False, "no guard on %s (lower bound %d)" % (scan, lb), None
    # no size parameter in the callee: the available bytes are caller-size - offset
    if pr.kind == "param":
        cs, csi = companion(cf, pr.base)
        if cs:
            fs = eng.mf(cf).at(cn)
            if pr.off is not None:
                lbn, _ = eng.facts_lb(cf, cn, cs, pr.base)
                if lbn >= pr.off + need:
                    return True, "", None
                return False, "%s >= %d needed" % (cs.split(":")[-1], pr.off + need), (pr.base, cs, pr.off + need)
            # symbolic offset: need a live fact (size - off) >= need
            sym = getattr(pr, "sym", None)
            for a in fs:
                if a[0] == "cmp" and a[2] in (">=", ">"):
                    x = strip_all_casts(a[4])
                    if x.get("k") == "bin" and x.get("op") == "-" and canon(strip_all_casts(x["l"])) == cs and canon(strip_all_casts(x["r"])) == sym:
                        v = const_value(a[5])
                        if v is not None and v + (1 if a[2] == ">" else 0) >= need:
                            return True, "", None
            # strided position: pointer = base + a + c*v with a live bound K + c*v <= size, K >= a + need
            lf = ptr_linear(cf, pa)
            if lf is not None and lf[0] == pr.base:
                form = lf[1]
                vs = [k for k in form if k != 1 and form[k] != 0]
                if len(vs) == 1 and form[vs[0]] > 0 and form.get(1, 0) >= 0:
                    from rules.decoder_rules import bound_fact
                    for a in fs:
                        bf = bound_fact(cf, a, cs)
                        if bf is not None and bf[2] == vs[0] and bf[1] == form[vs[0]] and bf[0] >= form.get(1, 0) + need and \
                                eng.facts_lb(cf, cn, cs, pr.base)[0] >= form.get(1, 0):
                            return True, "", None
            return False, "no live fact (%s - %s) >= %d" % (cs.split(":")[-1], sym, need), None
    if pr.kind in ("vec", "obj", "localobj", "call", "element"):
        return True, "object-owned buffer (class invariant, R2/R3)", None
    if pr.kind == "cursor" and pr.off is not None:
        # the moving message pointer: a validator result on (cursor, remaining) live at the call guarantees the bytes
        fs = eng.mf(cf).at(cn)
        best = 0
        for a in fs:
            if a[0] == "truth" and a[2] is True and a[3].get("k") == "call" and len(a[3].get("args", [])) >= 2 and \
                    canon(strip_all_casts(a[3]["args"][0])) == pr.base:
                sv = canon(strip_all_casts(a[3]["args"][1]))
                best = max(best, eng.facts_lb(cf, cn, sv, pr.base)[0])
        if best >= pr.off + need:
            return True, "", None
        return False, "no validator result on the moving pointer `%s` guarantees %d bytes here (guaranteed: %d)" % (pr.base.split(":")[-1], pr.off + need, best), None
    return False, "pointer of unknown provenance (%r)" % pr, None


def ptr_linear(f, e):
    """(pointer parameter decl, {sym: coeff, 1: const}) for a byte-pointer expression param + linear offset,
    symbols being the locals the function modifies; None otherwise."""
    defs = local_defs(f)
    base = []

    def syms(x):
        if x.get("k") == "ref":
            t = x.get("t") or {}
            if x.get("dk") == "param" and t.get("k") == "ptr":
                if (t.get("psize") or 1) != 1:
                    return None
                base.append(x["decl"])
                return "P"
            if x.get("dk") == "local" and len(defs.get(x["decl"], [])) != 1:
                return x["decl"]
        return None
    form = _linear(f, e, syms)
    if form is None or form.get("P") != 1 or len(set(base)) != 1:
        return None
    form = {k: v for k, v in form.items() if k != "P"}
    return base[0], form


def expr_lb(eng, f, e, self_field=None, depth=4):
    """Constant lower bound of an unsigned size expression."""
    e = strip_all_casts(e)
    c = const_value(e)
    if c is not None:
        return c
    k = e.get("k")
    if k == "ref":
        if e.get("dk") == "param":
            # a size parameter with a discharged precondition
            for pd, v in eng.req.get(f.key, {}).items():
                if companion(f, pd)[0] == e["decl"]:
                    return v[0]
            # ... or one that every call site fills with a value of a known minimum (the caller computed `min(remaining, 16 + length)` under
            # `remaining >= 16`)
            if depth > 0 and not any(x.get("k") in ("assign", "cassign") and lvalue_root(x["l"]) == e["decl"] for x in f.nodes()):
                pd_ = [q["decl"] for q in f.params]
                sites = eng.callers.get(f.key, [])
                vals = []
                for cf, cn in sites:
                    args = facts.effective_call(cn).get("args", [])
                    i_ = pd_.index(e["decl"])
                    if len(args) <= i_:
                        return 0
                    vals.append(site_value_lb(eng, cf, cn, args[i_], depth - 1))
                if vals:
                    return min(vals)
            return 0
        if e.get("dk") == "local" and depth > 0:
            ds = local_defs(f).get(e["decl"], [])
            if len(ds) == 1:
                return expr_lb(eng, f, ds[0], self_field, depth - 1)
            # several plain definitions (a clamp: x = a; if (b < x) x = b;): the value is one of them
            plain = [d for d in ds if not (d.get("k") == "un" or any(y.get("k") == "ref" and y.get("decl") == e["decl"] for y in walk(d)))]
            if ds and len(plain) == len(ds):
                vals = [expr_lb(eng, f, d, self_field, depth - 1) for d in ds]
                if "INV" not in vals:
                    return min(vals)
        return 0
    if k == "call":
        nm = callee_name(e)
        if nm == "std::min":
            return min(expr_lb(eng, f, a, self_field, depth) for a in e.get("args", []))
        if nm == "std::max":
            return max(expr_lb(eng, f, a, self_field, depth) for a in e.get("args", []))
        if (e.get("callee") or {}).get("nm") == "size" and self_field and strip_all_casts(e.get("obj", {})).get("field") == self_field:
            return "INV"
        return 0
    if k == "bin" and e.get("op") == "+":
        a, b = expr_lb(eng, f, e["l"], self_field, depth), expr_lb(eng, f, e["r"], self_field, depth)
        if a == "INV" or b == "INV":
            return "INV"  # grows from the current size: preserves the invariant
        return a + b
    return 0


def site_value_lb(eng, cf, cn, a, depth=3):
    """Constant lower bound of the unsigned value a at call site cn of cf: constants, min / max / +, single-definition locals whose operands
    still hold their values, and what the must-facts at the site say about a variable (comparisons, validator truths)."""
    a = strip_all_casts(a)
    c = const_value(a)
    if c is not None:
        return c
    k = a.get("k")
    if k == "sizeof" and a.get("cv") is not None:
        return a["cv"]
    if k == "call" and callee_name(a) in ("std::min", "std::max"):
        vs = [site_value_lb(eng, cf, cn, x, depth) for x in a.get("args", [])]
        return (min if callee_name(a) == "std::min" else max)(vs) if vs else 0
    if k == "bin" and a.get("op") == "+":
        return site_value_lb(eng, cf, cn, a["l"], depth) + site_value_lb(eng, cf, cn, a["r"], depth)
    if k == "ref" and a.get("dk") in ("local", "param"):
        lb, _ = eng.facts_lb(cf, cn, a["decl"], None)
        if a.get("dk") == "local" and depth > 0:
            d = facts.current_definition(cf, a) if cf.cfg_raw else None
            if d is not None:
                lb = max(lb, site_value_lb(eng, cf, cn, d, depth - 1))
        return lb
    return 0


def vec_member_lb(eng, cf, vec_node):
    """Invariant lower bound of a vector<uint8_t> data member: minimum over every sizing site
    (constructor initialisers, resize) in the methods of its class; sites that grow from
    the current size() preserve it.  Default-constructed objects are excluded when the
    member has no sizing default (they must never reach the use: C17-R1L for the reassembly entry)."""
    fld = vec_node.get("field")
    if not fld:
        return 0
    rec = fld.rsplit("::", 1)[0]
    lbs = []
    for f in eng.fb.all_functions():
        if f.rec != rec:
            continue
        sized = set()
        for _, kind, c, ln in facts.vector_sizing(f, fld):
            sized.add(c["id"])
            if kind == "set":
                v = expr_lb(eng, f, ln, fld)
                if v != "INV":
                    lbs.append(v)
            elif kind == "unknown":
                lbs.append(0)
        for d, kind, n in writes_of(f):
            if d == fld and isinstance(n, dict) and n.get("id") not in sized and \
                    kind in ("call:clear", "call:pop_back", "call:erase", "call:shrink_to_fit", "call:assign", "call:operator=", "call:swap"):
                lbs.append(0)
    return min(lbs) if lbs else 0


# ------------------------------------------------------------------ R1p
def cursor_pair(eng, f, pvar, svar):
    """(ok, text): locals (pvar, svar) form a cursor pair inside a (pointer, size) parameter pair of f:
    consistent initial values, both moved by the same value, the move bounded by the remaining size."""
    defs = local_defs(f)
    pi = [e for e in defs.get(pvar, []) if strip_all_casts(e).get("k") != "ref" or True]
    inits_p = [e for e in defs.get(pvar, [])]
    inits_s = [e for e in defs.get(svar, [])]
    moves_p = [x for x in f.nodes() if x.get("k") == "cassign" and lvalue_root(x["l"]) == pvar]
    moves_s = [x for x in f.nodes() if x.get("k") == "cassign" and lvalue_root(x["l"]) == svar]
    ip = [e for e in inits_p if not any(e is m["r"] or e is m["l"] for m in moves_p)]
    isz = [e for e in inits_s if not any(e is m["r"] or e is m["l"] for m in moves_s)]
    if len(ip) != 1 or len(isz) != 1 or len(moves_p) != 1 or len(moves_s) != 1:
        return False, "cursor pair (%s, %s) has no single initialisation and single advance" % (pvar, svar)
    pr = prov(f, ip[0])
    if pr.kind != "param" or pr.off is None:
        return False, "cursor does not start inside a parameter buffer"
    cs, _ = companion(f, pr.base)

    def syms(x):
        return "n" if x.get("k") == "ref" and x.get("decl") == cs else None
    form = _linear(f, isz[0], syms)
    if form is None or form.get("n") != 1 or form.get(1, 0) != -pr.off:
        return False, "initial remaining size %s does not match the cursor's start offset %d" % (canon(isz[0]), pr.off)
    lbn = lb_from_facts(eng.mf(f).at(f.node(ip[0]["id"]) if "id" in ip[0] else ip[0]), cs)
    if lbn < pr.off:
        return False, "%s >= %d is not established where the cursor is initialised" % (cs, pr.off)
    mp, ms = moves_p[0], moves_s[0]
    if mp.get("op") != "+" or ms.get("op") != "-" or canon(strip_all_casts(mp["r"])) != canon(strip_all_casts(ms["r"])):
        return False, "cursor and remaining size do not move by the same value"
    # the move is bounded by the remaining size: a validator truth on (cursor, remaining) is live at the move
    fs = eng.mf(f).at(mp)
    live = [a for a in fs if a[0] == "truth" and a[2] is True and a[3].get("k") == "call" and
            [canon(strip_all_casts(x)) for x in a[3].get("args", [])[:2]] == [pvar, svar]]
    if not live:
        return False, "no validator result on (cursor, remaining) is live where the cursor advances"
    return True, "cursor pair starts at (%s + %d, %s - %d), both move by `%s` under %s" % (
        pr.base.split(":")[-1], pr.off, cs.split(":")[-1], pr.off, canon(strip_all_casts(mp["r"])), callee_name(live[0][3]).split("::")[-1])


def header_of_param(fb, f, obj, pdecl):
    """obj (the object a MessageHeader getter is called on) is the header at offset 0 of pointer parameter pdecl:
    a view cast of the pointer, or a local MessageHeader filled by one raw copy of sizeof(MessageHeader) bytes from it."""
    if obj is None:
        return False
    pr = prov(f, obj)
    if pr.kind == "param" and pr.base == pdecl and pr.off == 0:
        return True
    o = strip_all_casts(obj)
    if o.get("k") == "ref" and o.get("dk") == "local":
        cps = [facts.copy_args(x) for x in f.calls() if facts.copy_args(x)]
        cps = [ca for ca in cps if strip_all_casts(ca[0]).get("k") == "un" and strip_all_casts(strip_all_casts(ca[0])["e"]).get("decl") == o["decl"]]
        if len(cps) == 1:
            ps = prov(f, cps[0][1])
            return ps.kind == "param" and ps.base == pdecl and ps.off == 0 and const_value(cps[0][2]) == fb.record(NS + "MessageHeader")["size"] and \
                not any(d == o["decl"] and kind != "addr" for d, kind, _ in facts.writes_of(f))
    return False


def rule_pairs(eng, ctx):
    fb, res = eng.fb, eng.res
    # the message-level validator may be assumed inside Packet(msgType,data,size) when every construction from raw bytes is justified (C03-R4)
    from rules import c03
    sub = c03.run(ctx)
    c03r4 = all(o["ok"] for o in sub.obligations if o["rule"] == "C03-R4")
    eng.cursor_ok = {}
    for f in eng.fns:
        outp = outptr_env(eng, f)
        for c in f.nodes():
            if c.get("k") not in ("call", "construct"):
                continue
            g = fb.resolve_call(c)
            if g is None or g.key not in eng.reach:
                continue
            if is_copy_helper(eng, g):
                continue  # its (pointer, size) arguments are the operands of the copy judged under R3 at this call
            c = facts.effective_call(c)
            args = c.get("args", [])
            for i, prm in enumerate(g.params):
                if prm["t"].get("k") != "ptr" or i >= len(args):
                    continue
                sd, si = companion(g, prm["decl"])
                if sd is None or si >= len(args):
                    continue
                if "**" in prm["t"]["s"].replace(" ", ""):
                    continue
                if not prm["t"].get("pconst") and (prm["t"].get("pointee") or "") != "void":
                    # a pointer the callee writes through (a builder's cursor): where it may write is C13-R3/R5's tiling and sizing
                    # obligation, not a read of input; the parameter that follows it is not its size
                    continue
                pa, sa = args[i], strip_all_casts(args[si])
                if f.cfg_raw:
                    sa = strip_all_casts(facts.reduce_min(f, sa, eng.mf(f).at(c)))  # a clamp that cannot bind here is its operand
                pr = prov(f, pa, outptr=outp)
                pcan, scan = canon(strip_all_casts(pa)), canon(sa)
                key = "%s->%s@%s" % (f.name.replace(NS, "").split("<")[0], g.name.replace(NS, "").split("::")[-1], (c.get("loc") or "").split(":", 1)[-1])
                ok, why = False, "pair (%s, %s) not justified" % (pcan[:50], scan[:50])
                fs = eng.mf(f).at(c) if f.cfg_raw else []
                if pr.kind == "param" and pr.off is not None:
                    cs, _ = companion(f, pr.base)
                    if cs:
                        form = size_form(f, sa, cs, outp)
                        lbn, _ = eng.facts_lb(f, c, cs, pr.base)
                        lbn = max(lbn, eng.req.get(f.key, {}).get(pr.base, [0])[0])
                        lbn = max(lbn, outp_lb(outp, pa, fs))
                        if form is not None and form.get("n") == 1 and set(form) <= {"n", 1}:
                            cc = form.get(1, 0)
                            ok = pr.off >= 0 and pr.off + cc <= 0 and lbn + cc >= 0  # (a pointer in front of the caller's buffer is outside it too)
                            why = "sub-pair (%s + %d, %s %+d) of the caller's pair, %s >= %d" % (pr.base.split(":")[-1], pr.off, cs.split(":")[-1], cc, cs.split(":")[-1], lbn)
                        else:
                            # bounded length L <= n - k
                            g2 = None
                            for a in fs:
                                if a[0] == "cmp":
                                    for x, y, o in ((a[4], a[5], a[2]), (a[5], a[4], facts._flip_op(a[2]))):
                                        if o in ("<=", "<") and canon(strip_all_casts(x)) == scan:
                                            yy = strip_all_casts(facts.expand(f, y))
                                            if yy.get("k") == "bin" and yy.get("op") == "-" and canon(strip_all_casts(yy["l"])) == cs and const_value(yy["r"]) == pr.off:
                                                g2 = a
                            if g2 is not None and lbn >= pr.off:
                                ok, why = True, "length `%s` guarded by <= %s - %d" % (scan[:40], cs.split(":")[-1], pr.off)
                            elif f.name == NS + "Packet::Packet" and c03r4 and callee_name(sa) == NS + "MessageHeader::getPayloadLength" and \
                                    pr.off == fb.record(NS + "MessageHeader")["size"] and header_of_param(fb, f, sa.get("obj"), pr.base):
                                ok, why = True, "declared payload length is bounded by isValidPacket, which every construction of a Packet from raw bytes discharges (C03-R4)"
                            elif sa.get("k") == "call" and callee_name(sa) == "std::min" and any(canon(strip_all_casts(x)) == cs for x in sa.get("args", [])) and pr.off == 0:
                                ok, why = True, "length is min(size, ...)"
                    else:
                        why = "pointer parameter %s has no companion size" % pr.base
                elif pr.kind == "param" and pr.off is None and const_value(sa) is not None:
                    ok, w, _ = discharge_site(eng, f, c, i, None, const_value(sa))
                    why = "%d bytes at `%s`: a live guard keeps them inside the caller's buffer" % (const_value(sa), pcan[:50]) if ok else w
                elif pr.kind == "cursor":
                    svar = sa.get("decl") if sa.get("k") == "ref" else None
                    if svar:
                        kk = (f.key, pr.base, svar)
                        if kk not in eng.cursor_ok:
                            eng.cursor_ok[kk] = cursor_pair(eng, f, pr.base, svar)
                        ok, why = eng.cursor_ok[kk]
                        if not ok and f.cfg_raw:
                            # a size cut down from the cursor's remaining size: `n = min(remaining, ...)` with (cursor, remaining) a cursor pair
                            d0 = facts.current_definition(f, sa)
                            d0 = strip_all_casts(d0) if d0 is not None else {}
                            if d0.get("k") == "call" and callee_name(d0) == "std::min":
                                for x in d0.get("args", []):
                                    xs = strip_all_casts(x)
                                    if xs.get("k") == "ref" and xs.get("dk") == "local":
                                        k2 = (f.key, pr.base, xs["decl"])
                                        if k2 not in eng.cursor_ok:
                                            eng.cursor_ok[k2] = cursor_pair(eng, f, pr.base, xs["decl"])
                                        if eng.cursor_ok[k2][0]:
                                            ok, why = True, "size is min(%s, ...): %s" % (xs["decl"].split(":")[-1], eng.cursor_ok[k2][1])
                elif pr.kind == "vec":
                    ok = sa.get("k") == "call" and (sa.get("callee") or {}).get("nm") == "size" and canon(sa.get("obj")) == pr.base and pr.off == 0
                    why = "container data()/size() pair" if ok else why
                elif pr.kind == "call":
                    # view pair of an object: (obj.getData(), obj.getLen()) — checked where the bytes are read (R3 pair_callers_ok)
                    pn = strip_all_casts(pa)
                    if pn.get("k") == "call" and sa.get("k") == "call" and "obj" in pn and "obj" in sa and \
                            (pn.get("callee") or {}).get("nm") == "getRawPayload" and (sa.get("callee") or {}).get("nm") == "getLength":
                        # a payload's own bytes: data() and size() of its buffer — also with the length taken from another payload that the
                        # live facts show to be equally long (comparing two payloads byte by byte after comparing their lengths)
                        same = canon(pn["obj"]) == canon(sa["obj"])
                        if not same:
                            want = {canon(pn["obj"]) + "." + callee_name(sa), canon(sa)}
                            for a in fs:
                                if a[0] == "cmp" and a[2] == "==" and {canon(strip_all_casts(a[4])), canon(strip_all_casts(a[5]))} == \
                                        {canon(strip_all_casts(dict(sa, obj=pn["obj"]))), canon(sa)}:
                                    same = True
                        ok = same
                        why = "the payload's own data()/size() pair" if same else "length of one payload used for the bytes of another without their lengths being known equal"
                    elif pn.get("k") == "call" and sa.get("k") == "call" and "obj" in pn and "obj" in sa and canon(pn["obj"]) == canon(sa["obj"]):
                        cls = (pn.get("callee") or {}).get("rec")
                        pair = TECMP_VIEWS.get(cls)
                        if pair and (pn["callee"]["nm"], sa["callee"]["nm"]) == pair:
                            typed = typed_payload_classes(fb)
                            okv, K, bounded, text = self_validating(eng, cls, typed[cls])
                            lenf = fb.fn_opt(cls + "::" + pair[1], 0, True)
                            hg = [callee_name(x) for x in lenf.calls() if "Header::get" in (callee_name(x) or "")] if lenf else []
                            ok = okv and bool(hg) and hg[0] in bounded
                            why = "view (%s(), %s()) of a %s object that is valid only if %s" % (pair[0], pair[1], cls, text) if ok else \
                                "view (%s(), %s()) of a %s: its constructor does not guarantee %s() <= size - sizeof(Header) for valid objects (%s)" % (pair[0], pair[1], cls, pair[1], text)
                            if ok:
                                # the bound speaks about the bytes behind the header: the pointer getter must not point further in
                                from cmpverif.views import pointer_rows
                                ptrf = fb.fn_opt(cls + "::" + pair[0], 0, True)
                                hs = fb.record(typed[cls])["size"]
                                rows = pointer_rows(fb, ptrf) if ptrf is not None else []
                                if not rows:
                                    raise Broken("%s::%s returns no pointer value the analysis can read" % (cls, pair[0]))
                                for _, v, form in rows:
                                    if form is None or sorted(k2 for k2 in form if k2 != 1 and form[k2]) != ["D"] or form["D"] != 1:
                                        raise Broken("%s::%s: returned pointer `%s` is not payload data() + constant" % (cls, pair[0], canon(v)[:60]))
                                    if not 0 <= form.get(1, 0) <= hs:
                                        ok = False
                                        why = "%s() returns data() + %d but %s() is bounded only by size - %d: the copy reads %d byte(s) behind the payload" % \
                                            (pair[0], form.get(1, 0), pair[1], hs, form.get(1, 0) - hs)
                elif pr.kind == "localobj":
                    ok = const_value(sa) is not None
                    why = "address of a local with a constant length"
                res.check(ok, "C02-R1p", key, c.get("loc"), why, "(pointer, size) pair passed to %s: %s" % (g.name.replace(NS, ""), why))


# ------------------------------------------------------------------ R2
def typed_payload_classes(fb):
    out = {}
    from cmpverif.accessors import header_view_record
    for base in (NS + "Payload", "TECMP::Payload"):
        for d in fb.derived_from(base):
            try:
                h = header_view_record(fb, d)
            except Broken:
                h = None
            if h:
                out[d] = h
    return out


def self_validating(eng, cls, hrec):
    """(ok, min size, bounded getters, text) for a (data,size) constructor that marks the object invalid unless it fits."""
    fb = eng.fb
    ctor = [f for f in fb.fns(cls + "::" + cls.split("::")[-1]) if len(f.params) == 2 and f.params[0]["t"].get("k") == "ptr"]
    if len(ctor) != 1:
        return False, 0, set(), "no (data,size) constructor"
    c = ctor[0]
    sizep = c.params[1]["decl"]
    hsize = fb.record(hrec)["size"]
    inval = [x for x in c.calls() if (callee_name(x) or "").endswith("Payload::setType") and any(const_value(y) == 0xFFFF or const_value(y) == 0 for y in walk(x))]
    if not inval:
        return False, 0, set(), "constructor never marks the object invalid"
    # paths that do NOT invalidate must carry size >= hsize (and bounded inner lengths)
    K = None
    bounded = None
    for p in paths.enumerate_paths(c):
        if any(x["id"] in {i["id"] for i in inval} for _, x in p.elems()):
            continue
        k = 0
        b = set()
        for a in p.atoms:
            if a[0] != "cmp":
                continue
            _, l, op, r, ln, rn = a
            lv, rv = const_value(ln), const_value(rn)
            if l == sizep and rv is not None and op in (">=", ">"):
                k = max(k, rv + (1 if op == ">" else 0))
            if r == sizep and lv is not None and op in ("<=", "<"):
                k = max(k, lv + (1 if op == "<" else 0))
            for x, y, o in ((ln, rn, op), (rn, ln, facts._flip_op(op))):
                if o in (">=", ">"):
                    xx = strip_all_casts(x)
                    if xx.get("k") == "bin" and xx.get("op") == "-" and canon(strip_all_casts(xx["l"])) == sizep and const_value(xx["r"]) == hsize:
                        for cc in walk(y):
                            if cc.get("k") == "call" and "Header::get" in (callee_name(cc) or ""):
                                b.add(callee_name(cc))
        K = k if K is None else min(K, k)
        bounded = b if bounded is None else bounded & b
    if K is None:
        return False, 0, set(), "every path invalidates"
    return K >= hsize, K, bounded or set(), "valid only if size >= %d%s" % (K, (" and %s <= size - %d" % (sorted(x.split("::")[-1] for x in bounded), hsize)) if bounded else "")


def default_buffer_size(fb, ctor, env, depth=4):
    """Constant number of bytes the byte-vector member is given when `ctor` runs with its parameters bound by env: followed through the
    chain of base-class initialisers down to the constructor that sizes the vector from one of its parameters (or from a constant)."""
    if depth <= 0:
        return None
    for i in ctor.raw.get("inits", []) or []:
        e = i.get("e") or {}
        if i.get("field") and ((i.get("t") or e.get("t") or {}).get("rec") == "std::vector" or (e.get("rec") == "std::vector")):
            a = e.get("args", [])
            if a:
                return const_value(facts.substitute(a[0], env)) if env else const_value(a[0])
    for i in ctor.raw.get("inits", []) or []:
        if not (i.get("base") or i.get("delegating")):
            continue
        e = i.get("e") or {}
        g = fb.resolve_call(e) if e.get("k") in ("construct", "call") else None
        if g is None:
            continue
        args = facts.effective_call(e).get("args", [])
        env2 = {q["decl"]: (facts.substitute(a, env) if env else a) for q, a in zip(g.params, args)}
        v = default_buffer_size(fb, g, env2, depth - 1)
        if v is not None:
            return v
    return None


def rule_construction(eng):
    fb, res = eng.fb, eng.res
    typed = typed_payload_classes(fb)
    eng.typed = typed
    eng.selfval = {}
    n = 0
    for f in eng.fns:
        for c in f.nodes():
            if c.get("k") not in ("construct", "call"):
                continue
            cls = None
            args = c.get("args", [])
            if c.get("k") == "construct" and c.get("rec") in typed:
                cls = c["rec"]
                if c.get("copy") or c.get("move"):
                    continue
            elif c.get("k") == "call" and callee_name(c) in ("std::make_unique", "std::make_shared"):
                t = (c.get("callee") or {}).get("targs", [""])[0]
                if t in typed:
                    cls = t
                    a0 = strip_all_casts(args[0]) if args else None
                    if len(args) == 1 and (a0.get("t") or {}).get("rec") in list(typed) + [NS + "Payload", "TECMP::Payload"]:
                        continue  # copy
            if cls is None:
                continue
            # only the object's own constructor call inside the class's constructors is not a site
            if f.raw.get("ctor") and (f.rec == cls or cls in fb.bases_of(f.rec or "")):
                continue
            hrec = typed[cls]
            hsize = fb.record(hrec)["size"]
            n += 1
            key = "%s:new %s@%s" % (f.name.replace(NS, ""), cls.replace(NS, ""), (c.get("loc") or "").split(":", 1)[-1])
            if len(args) == 0:
                dc = [g for g in fb.fns(cls + "::" + cls.split("::")[-1]) if len(g.params) == 0]
                ok = False
                sz = None
                if len(dc) == 1:
                    sz = default_buffer_size(fb, dc[0], {})
                    ok = sz is not None and sz >= hsize
                res.check(ok, "C02-R2", key, c.get("loc"), "default object holds %s >= %d bytes" % (sz, hsize),
                          "default-constructed %s holds %s bytes, its accessors read a %d-byte header" % (cls, sz, hsize))
                continue
            if len(args) != 2:
                continue
            pcan, scan = canon(strip_all_casts(args[0])), canon(strip_all_casts(args[1]))
            lb, fs = eng.facts_lb(f, c, scan, pcan)
            if lb >= hsize:
                res.ok("C02-R2", key, c.get("loc"), "construction guarded: size >= %d (validator / size test on the same pointer and size)" % lb)
                continue
            if cls not in eng.selfval:
                eng.selfval[cls] = self_validating(eng, cls, hrec)
            ok, K, bounded, text = eng.selfval[cls]
            if ok:
                # the object must be tested with isValid() before it escapes
                par = f.parent(c)
                var = None
                while par is not None and par.get("k") not in ("decl",):
                    par = f.parent(par)
                if par is not None:
                    for v in par.get("vars", []):
                        if isinstance(v.get("init"), dict) and any(x["id"] == c["id"] for x in walk(v["init"])):
                            var = v["decl"]
                tested = True
                escapes = 0
                if var is None:
                    tested = False
                else:
                    mf = eng.mf(f)
                    for u in f.nodes():
                        if u.get("k") == "ref" and u.get("decl") == var:
                            pu = f.parent(u)
                            while pu is not None and pu.get("k") == "cast":
                                pu = f.parent(pu)
                            if pu is not None and pu.get("k") == "call" and (pu.get("callee") or {}).get("nm") == "isValid":
                                continue
                            escapes += 1
                            fsu = mf.at(u)
                            if not any(a[0] == "truth" and a[2] is True and a[3].get("k") == "call" and (a[3].get("callee") or {}).get("nm") == "isValid" and
                                       strip_all_casts(a[3].get("obj", {})).get("decl") == var for a in fsu):
                                tested = False
                res.check(tested and escapes > 0, "C02-R2", key, c.get("loc"), "self-validating constructor (%s); every use of the object is guarded by isValid()" % text,
                          "%s is built from unchecked (pointer, size) and used without an isValid() test" % cls)
                continue
            res.bad("C02-R2", key, c.get("loc"), "%s is constructed over `%s` bytes with no guarantee that they hold its %d-byte header (%s): its accessors read "
                    "beyond the payload for short input" % (cls.replace(NS, ""), scan, hsize, text))
    return n


# ------------------------------------------------------------------ R3
def is_copy_helper(eng, g):
    """g is a one-line copy helper and every decode-reachable call of it can be judged at the call site"""
    sites = eng.callers.get(g.key, [])
    return bool(sites) and all(cn.get("k") == "call" and facts.copy_helper_args(eng.fb, cn) is not None for _, cn in sites)


def rule_copies(eng):
    fb, res = eng.fb, eng.res
    for f in eng.fns:
        if is_copy_helper(eng, f):
            continue
        # copies inside local lambdas are judged where the lambda is called, with its parameters substituted
        lambdas = {}
        for d, es in local_defs(f).items():
            if len(es) == 1:
                lm = strip_all_casts(es[0])
                while lm.get("k") == "construct" and len(lm.get("args", [])) == 1:
                    lm = strip_all_casts(lm["args"][0])
                if lm.get("k") == "lambda":
                    lambdas[d] = lm
        in_lambda = {y.get("id") for lm in lambdas.values() for y in walk(lm.get("body", {}))}
        work = []
        for c in f.nodes():
            if c.get("id") in in_lambda:
                continue
            if c.get("k") == "call" and (c.get("callee") or {}).get("nm") == "operator()" and "obj" in c and strip_all_casts(c["obj"]).get("decl") in lambdas:
                lm = lambdas[strip_all_casts(c["obj"])["decl"]]
                mapping = {prm["decl"]: a for prm, a in zip(lm.get("params", []), c.get("args", []))}
                for y in walk(lm.get("body", {})):
                    if y.get("k") == "call" and facts.copy_args(y) is not None:
                        work.append((c, tuple(None if part is None else facts.substitute(part, mapping) for part in facts.copy_args(y))))
                continue
            work.append((c, None))
        for c, pre in work:
            if c.get("k") not in ("call", "construct"):
                continue
            ca = pre if pre is not None else (facts.copy_args(c) if c.get("k") == "call" else None)
            if ca is None and c.get("k") == "call":
                ca = facts.copy_helper_args(fb, c)  # a one-line copy helper is judged where it is called
            managed = False
            if ca is None:
                ca = facts.range_copy_args(f, c)
                managed = ca is not None
            if ca is None:
                continue
            dst, src, ln = ca
            if ln is None and not managed and callee_name(c) == "std::copy":
                ln = facts.range_length(f, c["args"][0], c["args"][1])
            if ln is None:
                res.bad("C02-R3", "%s:copy@%s" % (f.name.replace(NS, ""), (c.get("loc") or "").split(":", 1)[-1]), c.get("loc"),
                        "iterator-range copy `%s`: not in the inventory of justified copy forms" % canon(c)[:120])
                continue
            key = "%s:copy@%s" % (f.name.replace(NS, ""), (c.get("loc") or "").split(":", 1)[-1])
            ok, why = justify_copy(eng, f, c, dst, src, ln, managed)
            res.check(ok, "C02-R3", key, c.get("loc"), why, "raw copy `%s` in %s: %s" % (canon(c)[:160], f.name, why))
    # raw pointer dereferences outside views: own-buffer byte reads must be locally guarded
    for f in eng.fns:
        for n in f.nodes():
            if n.get("k") == "un" and n.get("op") == "*":
                pr = prov(f, n["e"])
                if pr.kind == "vec" and fb.mentions_payload_buffer(pr.base or ""):
                    # *(payloadData.data() + off): guarded by payloadData.size() > off
                    fs = eng.mf(f).at(n)
                    sym = getattr(pr, "sym", None)
                    ok = False
                    if pr.off is not None:
                        ok = lb_from_facts(fs, pr.base + ".std::vector::size()") >= pr.off + 1
                    else:
                        e = strip_all_casts(n["e"])
                        offc = None
                        if e.get("k") == "bin":
                            offc = own_offset_canon(e)
                        for a in fs:
                            if a[0] == "cmp" and a[2] in (">",) and "size()" in a[1] and offc and a[3] == offc:
                                ok = True
                    res.check(ok, "C02-R3", "%s:byte-read@%s" % (f.name.replace(NS, ""), (n.get("loc") or "").split(":", 1)[-1]), n.get("loc"),
                              "byte read inside the payload guarded by size() > offset", "byte read at a data-dependent offset of the payload without a size guard")


def rule_typed_labels(eng):
    """C02-R2 (labels): a TECMP payload that carries the type tag of a typed class (can, lin, …) is later viewed as that class by
    the converter (reinterpret_cast of the Payload); its size/length invariants are established only by that class's
    self-validating constructor.  So in decode-reachable code a TECMP::Payload is never built from raw (type, data, size) with a
    typed tag: it is copied from an object of the typed class (whose isValid() was tested — R2)."""
    fb, res = eng.fb, eng.res
    en = fb.enums.get("TECMP::PayloadType::Type") or fb.enums.get("TECMP::PayloadType") or {}
    typed_vals = {}
    for cls in fb.derived_from("TECMP::Payload"):
        for ctor in fb.fns(cls + "::" + cls.split("::")[-1]):
            for i in ctor.raw.get("inits", []) or []:
                for x in walk(i.get("e", {}) if isinstance(i.get("e"), dict) else {}):
                    if x.get("k") == "ref" and x.get("dk") == "enumerator" and "PayloadType" in (x.get("decl") or "") and x.get("cv") is not None:
                        typed_vals[x["cv"]] = cls
    n = 0
    for f in eng.fns:
        for c in f.nodes():
            if c.get("k") not in ("call", "construct"):
                continue
            g = fb.resolve_call(c)
            if g is None or g.name != "TECMP::Payload::Payload" or len(g.params) != 3:
                continue
            args = facts.effective_call(c).get("args", [])
            if len(args) != 3 or f.name.startswith("TECMP::Payload::") or (f.rec or "") in fb.derived_from("TECMP::Payload"):
                continue  # the typed classes' own constructors delegate to it
            n += 1
            tv = None
            for x in walk(args[0]):
                if const_value(x) is not None and x.get("k") in ("ref", "lit", "cast"):
                    tv = const_value(x)
            cls = typed_vals.get(tv)
            res.check(cls is None, "C02-R2", "%s:raw-typed-payload@%s" % (f.name.replace(NS, ""), (c.get("loc") or "").split(":", 1)[-1]), c.get("loc"),
                      "generic payload built from raw bytes with an untyped tag",
                      "%s builds a TECMP::Payload tagged %s directly from raw bytes: the converter views it as %s, whose header and length "
                      "invariants only %s's validating constructor establishes — bytes beyond the buffer reach the converted packet" %
                      (f.name, tv, cls, cls))
    return n


def rule_subscripts(eng):
    """C02-R3 (subscripts): element access on a payload's own byte vector — v[i], v.at(i) is checked by the library, v[i] is
    not — needs `size() > i` live where it is evaluated, unless i is a constant inside the header the class invariant guarantees."""
    fb, res = eng.fb, eng.res
    n = 0
    for f in eng.fns:
        if not f.cfg_raw:
            continue
        for c in f.calls():
            if (c.get("callee") or {}).get("nm") != "operator[]" or not fb.is_payload_buffer(c.get("obj", {})) or not c.get("args"):
                continue
            n += 1
            idx = c["args"][0]
            iv = const_value(idx)
            key = "%s:subscript@%s" % (f.name.replace(NS, ""), (c.get("loc") or "").split(":", 1)[-1])
            vec = canon(c["obj"])
            fs = eng.mf(f).at(c)
            if iv is not None:
                hs = fb.record(eng.typed[f.rec])["size"] if f.rec in getattr(eng, "typed", {}) else 0
                ok = iv < hs or lb_from_facts(fs, vec + ".std::vector::size()") >= iv + 1
                res.check(ok, "C02-R3", key, c.get("loc"), "constant index %d inside the guaranteed %d bytes / a live size guard" % (iv, hs),
                          "byte %d of the payload is read without the payload being known to hold %d bytes" % (iv, iv + 1))
                continue
            want = facts.xcanon(f, idx)
            ok = False
            for a in fs:
                if a[0] != "cmp" or "size()" not in (a[1] + a[3]):
                    continue
                for x, y, op in ((a[4], a[5], a[2]), (a[5], a[4], facts._flip_op(a[2]))):
                    xs = strip_all_casts(x)
                    if xs.get("k") == "call" and (xs.get("callee") or {}).get("nm") == "size" and canon(xs.get("obj")) == vec:
                        yx = facts.xcanon(f, y)
                        if op == ">" and yx == want:
                            ok = True
                        if op == ">=":
                            yy = strip_all_casts(facts.expand(f, y))
                            if yy.get("k") == "bin" and yy.get("op") == "+" and (const_value(yy["r"]) or 0) >= 1 and facts.xcanon(f, yy["l"]) == want:
                                ok = True
            res.check(ok, "C02-R3", key, c.get("loc"), "index `%s` guarded by size() > index" % want[:60],
                      "`%s[%s]` reads a byte at a data-dependent position without a live `size() > %s`: one byte past the payload is returned when the "
                      "payload ends exactly there" % (vec.split("->")[-1], canon(idx)[:50], canon(idx)[:50]))
    return n


def index_upper_bound(f, idx, fs, depth=0):
    """Largest value the index expression can take (None = unknown): a constant, the range of its unsigned type, `x & m`, `x % k`, the smaller
    arm bound of min(), or a live comparison `idx < K` / `idx <= K`."""
    e0 = strip_all_casts(idx)
    cv = const_value(e0)
    if cv is not None:
        return cv
    best = None

    def take(v):
        nonlocal best
        if v is not None and v >= 0:
            best = v if best is None else min(best, v)
    # the narrowest unsigned type the value passes through on its way to the subscript (implicit promotions widen, they never add range)
    x = idx
    for _ in range(6):
        t = (x.get("t") or {}) if isinstance(x, dict) else {}
        if t.get("k") in ("int", "bool", "enum") and not t.get("sg") and t.get("bits"):
            take((1 << t["bits"]) - 1)
        if isinstance(x, dict) and x.get("k") == "cast":
            x = x["e"]
        else:
            break
    if e0.get("k") == "bin" and depth < 3:
        if e0["op"] == "&":
            for side in (e0["l"], e0["r"]):
                c = const_value(strip_all_casts(side))
                if c is not None and c >= 0:
                    take(c)
        if e0["op"] == "%":
            c = const_value(strip_all_casts(e0["r"]))
            lt = (strip_all_casts(e0["l"]).get("t") or {})
            if c and c > 0 and not lt.get("sg"):
                take(c - 1)
    want = facts.xcanon(f, idx)
    for a in fs:
        if a[0] != "cmp":
            continue
        for x2, y2, op in ((a[4], a[5], a[2]), (a[5], a[4], facts._flip_op(a[2]))):
            if facts.xcanon(f, x2) == want:
                c = const_value(strip_all_casts(y2))
                if c is not None and op in ("<", "<=", "=="):
                    take(c - 1 if op == "<" else c)
    if depth < 2:
        ex = strip_all_casts(facts.expand(f, idx))
        if canon(ex) != canon(e0):
            take(index_upper_bound(f, ex, fs, depth + 1))
    return best


def rule_table_subscripts(eng):
    """C02-R3 (tables): `table[i]` on a C array of known extent (a local or static lookup table) in decode-reachable code reads inside the
    table for every value the index can take: by its type's range, a mask, a modulus or a live comparison."""
    fb, res = eng.fb, eng.res
    n = 0
    for f in eng.fns:
        if not f.cfg_raw:
            continue
        for c in f.nodes():
            if c.get("k") != "subscript":
                continue
            b = c["base"]
            at = None
            for _ in range(4):
                t = (b.get("t") or {}) if isinstance(b, dict) else {}
                if t.get("k") == "array":
                    at = t
                    break
                if isinstance(b, dict) and b.get("k") == "cast":
                    b = b["e"]
                else:
                    break
            if at is None or not at.get("n"):
                continue
            n += 1
            ub = index_upper_bound(f, c["idx"], eng.mf(f).at(c))
            key = "%s:table@%s" % (f.name.replace(NS, ""), (c.get("loc") or "").split(":", 1)[-1])
            res.check(ub is not None and ub < at["n"], "C02-R3", key, c.get("loc"), "index <= %s inside the %d-element table" % (ub, at["n"]),
                      "`%s[%s]`: the table has %d elements but the index can be as large as %s — for input that drives it there the read lands behind "
                      "the table and foreign bytes flow into the result" % (canon(b)[:40], canon(c["idx"])[:50], at["n"], "anything" if ub is None else ub))
    return n


def own_offset_canon(e):
    """canon of the offset in `payloadData.data() + A + B ...`"""
    parts = []

    def flat(x):
        x = strip_all_casts(x)
        if x.get("k") == "bin" and x.get("op") == "+":
            flat(x["l"])
            flat(x["r"])
        else:
            parts.append(x)
    flat(e)
    parts = [p for p in parts if not (p.get("k") == "call" and (p.get("callee") or {}).get("nm") == "data")]
    if not parts:
        return None
    s = canon(parts[0])
    for p in parts[1:]:
        s = "(%s + %s)" % (s, canon(p))
    return s


def is_builder(eng, f, depth=0):
    """f is one of the payload builders, or a write helper that only builders call (its writes are placed by C13-R3's tiling)"""
    if f.name.split("<")[0] in BUILDERS or any(f.name.startswith(b) for b in BUILDERS):
        return True
    if depth > 2:
        return False
    sites = eng.callers.get(f.key, [])
    return bool(sites) and any(prm["t"].get("k") == "ptr" and not prm["t"].get("pconst") for prm in f.params) and \
        all(is_builder(eng, cf, depth + 1) for cf, _ in sites)


def clamped_to(f, decl, bound, at):
    """local `decl` is at most `bound` (a parameter that is never assigned) at node `at`: its definitions are an initial value and
    `decl = bound` under the guard `bound < decl` (any spelling), and the clamp dominates `at`."""
    if not decl or not f.cfg_raw:
        return False
    ds = local_defs(f).get(decl, [])
    if len(ds) != 2:
        return False
    asg = [x for x in f.nodes() if x.get("k") == "assign" and lvalue_root(x["l"]) == decl]
    if len(asg) != 1 or canon(strip_all_casts(asg[0]["r"])) != bound:
        return False
    if any(d == bound for d, _, _ in writes_of(f)):
        return False
    mf = MustFacts(f)
    guarded = False
    for a in mf.at(asg[0]):
        if a[0] == "cmp":
            for x, y, o in ((a[1], a[3], a[2]), (a[3], a[1], facts._flip_op(a[2]))):
                if x == bound and y == decl and o in ("<", "<="):
                    guarded = True
    if not guarded:
        return False
    cfg = f.cfg
    # the if statement that holds the clamp dominates the use: the branch block of the guard dominates `at`
    ab, ub = cfg.block_for(asg[0]), cfg.block_for(at)
    preds = [p for p, _ in cfg.pred.get(ab, [])]
    return bool(preds) and all(cfg.dominates(p, ub) for p in preds) and ab != ub


def sized_to(eng, f, c, vecname):
    """canon of the expression the vector `vecname` was sized to before copy c in f: a dominating resize, the
    constructor's member initialiser, or the initialiser of the constructor this one delegates to."""
    fb = eng.fb
    sized = None
    for x in f.calls("std::vector::resize"):
        if canon(x.get("obj")) == vecname and f.cfg.pos_of.get(x["id"], 1 << 30) < f.cfg.pos_of.get(c["id"], 0) or \
                (canon(x.get("obj")) == vecname and f.cfg.block_for(x) != f.cfg.block_for(c) and f.cfg.dominates(f.cfg.block_for(x), f.cfg.block_for(c))):
            sized = canon(strip_all_casts(x["args"][0]))
    for i in f.raw.get("inits", []) or []:
        if i.get("field") and ("this->" + i["name"]) == vecname:
            e = i.get("e", {})
            a = e.get("args", [])
            if a:
                sized = canon(strip_all_casts(a[0]))
        elif i.get("delegating") and isinstance(i.get("e"), dict):
            # delegating constructor: the target's initialiser sizes the member from one of its parameters
            g = fb.resolve_call(i["e"])
            dargs = facts.effective_call(i["e"]).get("args", []) if g is not None else []
            for j in (g.raw.get("inits", []) if g is not None else []) or []:
                if j.get("field") and ("this->" + j["name"]) == vecname:
                    ja = (j.get("e") or {}).get("args", [])
                    if ja:
                        src0 = strip_all_casts(ja[0])
                        gpd = [q["decl"] for q in g.params]
                        if src0.get("dk") == "param" and src0.get("decl") in gpd and gpd.index(src0["decl"]) < len(dargs):
                            sized = canon(strip_all_casts(dargs[gpd.index(src0["decl"])]))
    return sized


def justify_copy(eng, f, c, dst, src, ln, managed=False):
    fb = eng.fb
    L = const_value(ln)
    lcan = canon(strip_all_casts(ln))
    ps, pd = prov(f, src), (Prov("managed") if managed else prov(f, dst))
    fs = eng.mf(f).at(c)
    reasons = []
    # a length spelled as the destination's size() stands for what the destination was sized to (Payload(type, data, size)
    # delegating to the sizing constructor, then copying payloadData.size() bytes)
    lnn0 = strip_all_casts(ln)
    if pd.kind == "vec" and pd.off == 0 and lnn0.get("k") == "call" and (lnn0.get("callee") or {}).get("nm") == "size" and canon(lnn0.get("obj")) == pd.base:
        sz = sized_to(eng, f, c, pd.base)
        if sz is not None:
            lcan = sz
            if not any(d == lvalue_root(lnn0.get("obj")) and k.startswith("call:") for d, k, _ in writes_of(f)):
                L = None
    # ---------------- read side
    rd_ok = False
    if ps.kind == "localobj":
        t = getattr(ps, "objtype", None) or {}
        sz = fb.records[t["rec"]]["size"] if t.get("rec") in fb.records else ((t.get("bits") or 0) // 8 or (t.get("n") if t.get("k") == "array" else None))
        rd_ok = L is not None and sz is not None and L <= sz
        reasons.append("reads the whole local object (%s bytes)" % L if rd_ok else "reads %s bytes of a %s-byte local" % (lcan, sz))
    elif ps.kind == "cursor" or (ps.kind == "unknown" and strip_all_casts(src).get("k") == "ref"):
        # local array
        d = strip_all_casts(src)
        arr = None
        for n in f.nodes():
            if n.get("k") == "decl":
                for v in n.get("vars", []):
                    if v.get("decl") == d.get("decl") and v["t"].get("k") == "array":
                        arr = v["t"].get("n")
        if arr is not None:
            # length - str.size() in {1,2}: checked by C13-R4 (parity + terminator)
            rd_ok = (L is not None and L <= arr) or f.name.endswith("fillWithString")
            reasons.append("reads <= %d bytes of a %d-byte local array (length - size() is 1 or 2: C13-R4)" % (arr, arr))
    elif ps.kind == "param" and ps.off is not None:
        sdecl, _ = companion(f, ps.base)
        need = None
        if sdecl:
            lb, _ = eng.facts_lb(f, c, sdecl, ps.base)
            lb = max(lb, eng.req.get(f.key, {}).get(ps.base, [0])[0])
            if L is not None:
                rd_ok = lb >= ps.off + L
                reasons.append("reads %d bytes at offset %d, %s >= %d" % (L, ps.off, sdecl.split(":")[-1], lb))
            elif lcan == sdecl and ps.off == 0:
                rd_ok = True
                reasons.append("pair copy: exactly the `%s` bytes that accompany the pointer" % sdecl.split(":")[-1])
            else:
                # guarded length: L <= size - off  (and size >= off)
                g = None
                lval = canon(strip_all_casts(facts.expand(f, ln)))
                fs2 = list(fs)
                if not any(a[0] == "cmp" and lval in (canon(strip_all_casts(facts.expand(f, a[4]))), canon(strip_all_casts(facts.expand(f, a[5])))) for a in fs2):
                    # the guard may sit in a spliced-in helper whose outcome is carried by a result local: the path-sensitive facts keep it
                    try:
                        fs2 += [a for a in paths.facts_at(f, c) if a not in fs2]
                    except Exception:
                        pass
                for a in fs2:
                    if a[0] == "cmp":
                        for x, y, o in ((a[4], a[5], a[2]), (a[5], a[4], facts._flip_op(a[2]))):
                            if o in ("<=", "<") and (canon(strip_all_casts(x)) == lcan or canon(strip_all_casts(facts.expand(f, x))) == lval):
                                yy = strip_all_casts(facts.expand(f, y))
                                if yy.get("k") == "bin" and yy.get("op") == "-" and canon(strip_all_casts(yy["l"])) == sdecl and const_value(yy["r"]) == ps.off:
                                    g = a
                                if canon(yy) == sdecl and ps.off == 0:
                                    g = a
                # L = min(size, ...)
                ld = local_defs(f).get(strip_all_casts(ln).get("decl"), [])
                if g is None and len(ld) == 1 and callee_name(strip_all_casts(ld[0])) == "std::min" and \
                        any(canon(strip_all_casts(x)) == sdecl for x in strip_all_casts(ld[0]).get("args", [])) and ps.off == 0:
                    g = True
                if g is None and ps.off == 0 and clamped_to(f, strip_all_casts(ln).get("decl"), sdecl, c):
                    g = True  # the same minimum spelled as a clamp: x = a; if (size < x) x = size;
                rd_ok = g is not None and lb >= ps.off
                reasons.append("length `%s` guarded by `<= %s - %d`" % (lcan, sdecl.split(":")[-1], ps.off) if rd_ok else
                               "length `%s` is not bounded by the remaining %s - %d bytes" % (lcan, sdecl.split(":")[-1], ps.off))
        else:
            # no companion: fixed need becomes a precondition, discharged by rule R1's mechanism
            if L is not None:
                ok_all = True
                why = ""
                for cf, cn in eng.callers.get(f.key, []):
                    pidx = [p["decl"] for p in f.params].index(ps.base)
                    ok1, w, prop = discharge_site(eng, cf, cn, pidx, None, ps.off + L)
                    if not ok1 and prop is not None:
                        # one level up
                        cp, cs, need2 = prop
                        ok2 = True
                        for cf2, cn2 in eng.callers.get(cf.key, []):
                            pi2 = [p["decl"] for p in cf.params].index(cp)
                            si2 = [p["decl"] for p in cf.params].index(cs)
                            o2, w2, _ = discharge_site(eng, cf2, cn2, pi2, si2, need2)
                            if not o2:
                                ok2 = False
                                w = "%s; caller %s: %s" % (w, cf2.name.replace(NS, ""), w2)
                        ok1 = ok2
                    if not ok1:
                        ok_all = False
                        why = "call site %s at %s: %s" % (cf.name.replace(NS, ""), cn.get("loc"), w)
                rd_ok = ok_all
                reasons.append("reads %d bytes from a bare pointer; every call site provides them" % L if ok_all else
                               "reads %d bytes from a bare pointer and %s" % (L, why))
            else:
                # (data, length) pair of a builder: the callers' obligation (view pairs)
                sidx = [p["decl"] for p in f.params].index(strip_all_casts(ln).get("decl")) if strip_all_casts(ln).get("dk") == "param" else None
                if sidx is not None:
                    rd_ok, w = pair_callers_ok(eng, f, [p["decl"] for p in f.params].index(ps.base), sidx, set())
                    reasons.append(w)
    elif ps.kind == "vec":
        # reads from an own / argument vector: length is its size() or guarded
        lnn = strip_all_casts(ln)
        if lnn.get("k") == "call" and (lnn.get("callee") or {}).get("nm") == "size" and canon(lnn.get("obj")) == ps.base:
            rd_ok = True
            reasons.append("reads exactly the vector's size() bytes")
        elif L is not None:
            lb = lb_from_facts(fs, ps.base + ".std::vector::size()")
            rd_ok = lb >= (ps.off or 0) + L
            reasons.append("reads %d bytes, vector size >= %d" % (L, lb))
    elif ps.kind == "call":
        # string_view.data() with size()
        if ps.base and ps.base.endswith("::data") and lcan.endswith("::size()") and canon(strip_all_casts(src)).replace("::data()", "") == lcan.replace("::size()", ""):
            rd_ok = True
            reasons.append("reads exactly size() bytes of the view")
    elif ps.kind == "cursor" and strip_all_casts(src).get("decl"):
        pass
    if not reasons:
        reasons.append("source of unknown provenance (%r)" % ps)
    # local guarded cursor into own payload (getCrc): src local = payloadData.data() + off, guarded by size() < off + L
    if not rd_ok and L is not None:
        e = strip_all_casts(src)
        ld = local_defs(f).get(e.get("decl"), []) if e.get("k") == "ref" else []
        if len(ld) == 1:
            e2 = strip_all_casts(ld[0])
            pr2 = prov(f, ld[0])
            if pr2.kind == "vec" and fb.mentions_payload_buffer(pr2.base or "") and e2.get("k") == "bin":
                offv = strip_all_casts(e2["r"])
                offdefs = local_defs(f).get(offv.get("decl"), []) if offv.get("k") == "ref" else [offv]
                offc = facts.xcanon(f, offdefs[0]) if len(offdefs) == 1 else None
                for a in fs:
                    if a[0] == "cmp" and fb.mentions_payload_buffer(a[1]) and "size()" in a[1] and a[2] in (">=", ">"):
                        # size >= off + L   /  size > off + L - 1
                        form_ok = False
                        r = strip_all_casts(a[5])
                        if r.get("k") == "bin" and r.get("op") == "+" and const_value(r["r"]) is not None and offc and facts.xcanon(f, r["l"]) == offc:
                            cv = const_value(r["r"]) + (1 if a[2] == ">" else 0)
                            form_ok = cv >= L
                        elif offc and facts.xcanon(f, r) == offc:
                            form_ok = (1 if a[2] == ">" else 0) >= L
                        if form_ok:
                            rd_ok = True
                            reasons = ["reads %d bytes at payload offset `%s`, guarded by size() %s %s" % (L, offc, a[2], a[3])]
                if not rd_ok:
                    reasons = ["reads %d bytes at payload offset `%s` but the size guard does not cover %d bytes" % (L, offc, L)]
    # ---------------- write side
    wr_ok = False
    wr = ""
    if pd.kind == "managed":
        wr_ok, wr = True, "the destination container allocates for the range it receives"
    elif pd.kind == "localobj":
        t = getattr(pd, "objtype", None) or {}
        sz = fb.records[t["rec"]]["size"] if t.get("rec") in fb.records else ((t.get("bits") or 0) // 8)
        wr_ok = L is not None and sz and L <= sz
        wr = "writes %s bytes into a %s-byte local" % (L, sz)
    elif pd.kind == "vec":
        # destination vector sized earlier in the same function by resize/constructor with offset + length
        want = None
        dd = strip_all_casts(dst)
        offc = None
        if dd.get("k") == "bin" and dd.get("op") == "+":
            offc = canon(strip_all_casts(dd["r"]))
        vecname = pd.base
        sized = sized_to(eng, f, c, vecname)
        exp = lcan if not offc else "(%s + %s)" % (offc, lcan)
        alt = None if not offc else "(%s + %s)" % (lcan, offc)
        same_form = False
        if sized is not None and sized not in (exp, alt):
            # the same amount spelled through a named local (`const size_t total = old + n; v.resize(total); memcpy(v.data() + old, .., n)`)
            from rules.decoder_rules import _linear
            rz = [x for x in f.calls("std::vector::resize") if canon(x.get("obj")) == vecname and canon(strip_all_casts(x["args"][0])) == sized]

            def opaque(z):
                if z.get("k") in ("call", "member") or (z.get("k") == "ref" and z.get("dk") != "local"):
                    return "v:" + canon(z)
                return None
            if rz:
                fa = _linear(f, rz[-1]["args"][0], opaque)
                fl = _linear(f, ln, opaque)
                fo = _linear(f, dd["r"], opaque) if offc else {1: 0}
                if fa is not None and fl is not None and fo is not None:
                    d3 = dict(fa)
                    for part in (fl, fo):
                        for k3, v3 in part.items():
                            d3[k3] = d3.get(k3, 0) - v3
                    same_form = not any(v3 for v3 in d3.values())
                    # a size() of the same vector read after the resize is the new size, not an operand of the amount
                    late = [z for part in ((dd["r"] if offc else None), ln) if isinstance(part, dict) for z in walk(facts.expand(f, part))
                            if z.get("k") == "call" and (z.get("callee") or {}).get("nm") == "size" and canon(z.get("obj")) == vecname and
                            not (z.get("id") in f.cfg.pos_of and f.cfg.block_for(z) == f.cfg.block_for(rz[-1]) and f.cfg.pos_of[z["id"]] < f.cfg.pos_of[rz[-1]["id"]])]
                    if late:
                        same_form = False
        if sized is not None and (sized in (exp, alt) or same_form):
            wr_ok = True
            wr = "destination sized to %s by the preceding resize/constructor" % sized
        elif sized is not None and L is not None and offc is None:
            # local def of the size
            wr_ok = False
            wr = "destination sized `%s`, copy needs %s" % (sized, exp)
        elif is_builder(eng, f):
            wr_ok = True
            wr = "builder buffer (sizing checked by C13-R5; arithmetic sufficiency not decided)"
        else:
            # class invariant: fixed offset + constant inside the default-constructed object
            if pd.off is not None and f.rec in getattr(eng, "typed", {}):
                hsize = fb.record(eng.typed[f.rec])["size"]
                # objects this is called on are default-constructed (>= sizeof(Header)) in decode-reachable code
                Ls = [L]
                pl = strip_all_casts(ln)
                if L is None and pl.get("dk") == "param":
                    idx = [p["decl"] for p in f.params].index(pl["decl"])
                    Ls = [const_value(cn["args"][idx]) for cf, cn in eng.callers.get(f.key, [])] or [None]
                wr_ok = all(v is not None and pd.off + v <= hsize for v in Ls)
                wr = "writes %s bytes at offset %d of an object holding >= %d bytes (R2; lengths at all call sites: %s)" % (lcan, pd.off, hsize, Ls)
            elif getattr(pd, "sym", None) is not None and f.rec in getattr(eng, "typed", {}):
                symv = eng_const(fb, f, pd.sym)
                hsize = fb.record(eng.typed[f.rec])["size"]
                wr_ok = symv is not None and L is not None and symv + L <= hsize
                wr = "writes %s bytes at offset %s of an object holding >= %d bytes (R2)" % (lcan, symv, hsize)
                if not wr_ok and symv is not None:
                    # length is a parameter: every caller passes a constant that fits
                    pl = strip_all_casts(ln)
                    if pl.get("dk") == "param":
                        idx = [p["decl"] for p in f.params].index(pl["decl"])
                        vals = [const_value(cn["args"][idx]) for cf, cn in eng.callers.get(f.key, [])]
                        wr_ok = bool(vals) and all(v is not None and symv + v <= hsize for v in vals)
                        wr = "writes `%s` bytes at offset %d; every call site passes a constant that fits %d bytes (%s)" % (lcan, symv, hsize, vals)
            else:
                wr = "destination `%s` not sized for %s" % (canon(dst)[:60], exp)
    elif pd.kind in ("cursor", "param") and is_builder(eng, f):
        wr_ok = True
        wr = "builder cursor inside a buffer resized from the same operands (C13-R5; arithmetic sufficiency not decided)"
    elif pd.kind == "param":
        # void* dest of Packet::getRaw*Header: not decode-reachable normally
        wr = "writes through a bare pointer parameter"
        wr_ok = False
    elif pd.kind == "unknown":
        dd = strip_all_casts(dst)
        if dd.get("k") == "ref" and is_builder(eng, f):
            wr_ok = True
            wr = "builder cursor (C13-R5)"
    return rd_ok and wr_ok, "; ".join(reasons + [wr])


def eng_const(fb, f, name):
    for s in fb.statics.values():
        if s["name"] == name or s["name"].split("::")[-1] == name:
            init = s.get("init")
            return const_value(init) if isinstance(init, dict) else None
    return None


def pair_callers_ok(eng, f, pidx, sidx, seen):
    """A (data, length) parameter pair that is copied whole: every call site must pass a valid pair."""
    if f.key in seen:
        return True, "recursion"
    seen.add(f.key)
    fb = eng.fb
    sites = eng.callers.get(f.key, [])
    if not sites:
        return True, "pair copy of (data, length) parameters; no decode-reachable caller"
    for cf, cn in sites:
        a = cn.get("args", [])
        pa, sa = strip_all_casts(a[pidx]), strip_all_casts(a[sidx])
        # passed through unchanged from the caller's own parameters
        if pa.get("dk") == "param" and sa.get("dk") == "param":
            ok, w = pair_callers_ok(eng, cf, [p["decl"] for p in cf.params].index(pa["decl"]), [p["decl"] for p in cf.params].index(sa["decl"]), seen)
            if not ok:
                return False, w
            continue
        # view pair of a validated TECMP payload object
        if pa.get("k") == "call" and sa.get("k") == "call" and "obj" in pa and "obj" in sa and canon(pa["obj"]) == canon(sa["obj"]):
            cls = (pa.get("callee") or {}).get("rec")
            pair = TECMP_VIEWS.get(cls)
            if pair and (pa["callee"]["nm"], sa["callee"]["nm"]) == pair:
                if cls not in eng.selfval:
                    eng.selfval[cls] = self_validating(eng, cls, eng.typed[cls])
                ok, K, bounded, text = eng.selfval[cls]
                hg = None
                lenf = fb.fn_opt(cls + "::" + pair[1], 0, True)
                if lenf is not None:
                    hg = [callee_name(x) for x in lenf.calls() if "Header::get" in (callee_name(x) or "")]
                if ok and hg and hg[0] in bounded:
                    continue
                return False, "%s passes (%s(), %s()) of a %s whose constructor does not guarantee %s() <= size - sizeof(Header) for valid objects (%s)" % (
                    cf.name.replace(NS, ""), pair[0], pair[1], cls, pair[1], text)
        # constant length at a position inside the caller's own (pointer, size) pair
        if const_value(sa) is not None:
            ok1, w, prop = discharge_site(eng, cf, cn, pidx, None, const_value(sa))
            if ok1:
                continue
            return False, "%s passes %d bytes at `%s`: %s" % (cf.name.replace(NS, ""), const_value(sa), canon(pa)[:60], w)
        # vector pair / string view pair
        if pa.get("k") == "call" and (pa.get("callee") or {}).get("nm") == "data" and sa.get("k") == "call" and (sa.get("callee") or {}).get("nm") == "size" and \
                canon(pa.get("obj")) == canon(sa.get("obj")):
            continue
        return False, "%s passes (%s, %s): not a recognised (pointer, length) pair" % (cf.name.replace(NS, ""), canon(pa)[:60], canon(sa)[:60])
    return True, "pair copy: every call site passes a matching (pointer, length) pair (pass-through, validated object view, or container data()/size())"


# ------------------------------------------------------------------ R4
def rule_divisions(eng):
    """C02-R4b: decode-reachable code divides (/, %) by nothing that input bytes can make zero.  Decided for the divisors that can be read:
    a constant, a sizeof, or the answer of an in-repo function whose every return is a constant (an element-width table) — a zero among
    them is a trap on a message that names the value."""
    fb, res = eng.fb, eng.res
    n = 0
    for f in eng.fns:
        if f.body is None:
            continue
        for x in f.nodes():
            if not (x.get("k") in ("bin", "cassign") and x.get("op") in ("/", "%")):
                continue
            d = strip_all_casts(facts.expand(f, x["r"]))
            c = const_value(d)
            zero = None
            if c is not None:
                zero = (c == 0)
                what = "the constant 0"
            elif d.get("k") == "call":
                g = fb.resolve_call(d)
                if g is not None and g.body is not None and g.returns() and all(const_value(r0.get("e")) is not None for r0 in g.returns()):
                    zero = any(const_value(r0.get("e")) == 0 for r0 in g.returns())
                    what = "%s(..), which answers 0 for some of its arguments" % g.name.split("::")[-1]
            if zero is None:
                continue
            n += 1
            if zero and any(a[0] == "cmp" and canon(strip_all_casts(x["r"])) in (a[1], a[3]) and a[2] in ("!=", ">") and 0 in (const_value(a[4]), const_value(a[5]))
                            for a in eng.mf(f).at(x)):
                zero = False  # guarded by a live `divisor != 0`
            res.check(not zero, "C02-R4", "%s:divisor@%s" % (f.name.replace(NS, ""), (x.get("loc") or "").split(":", 1)[-1]), x.get("loc"),
                      "divisor is never 0", "%s divides by %s: a message whose bytes select that case stops the decoder with an arithmetic trap" %
                      (f.name, what if zero else ""))
    return n


def rule_subtractions(eng):
    fb, res = eng.fb, eng.res
    # one-line predicates over their parameters are judged where they are called, with the arguments substituted
    # (their guard may be the conjunct to their left at the call site)
    items = []
    for f in eng.fns:
        if not f.cfg_raw:
            continue
        sites = eng.callers.get(f.key, [])
        inl = [(cf, cn, facts.inline_predicate(fb, cn)) for cf, cn in sites if cn.get("k") == "call"]
        if sites and all(e is not None for _, _, e in inl) and len(inl) == len(sites):
            for cf, cn, e in inl:
                items += [(cf, x, cn, e) for x in walk(e)]
            continue
        items += [(f, x, None, None) for x in f.nodes()]

    def left_context(root, target_id, fn):
        """atoms established by the operands to the left of the target inside the same short-circuit expression
        (`A && <target>`: A holds; `A || <target>`: A does not) — needed when the expression was inlined from a predicate"""
        out = []

        def go(x, acc):
            x0 = strip(x) if isinstance(x, dict) else x
            if not isinstance(x0, dict):
                return False
            if x0.get("id") == target_id:
                out.extend(acc)
                return True
            if x0.get("k") == "bin" and x0.get("op") in ("&&", "||"):
                if go(x0["l"], acc):
                    return True
                extra = conjuncts(x0["l"], x0["op"] == "&&", fn)
                return go(x0["r"], acc + extra)
            for k2, v in x0.items():
                if k2 in facts.NONCHILD_KEYS:
                    continue
                if isinstance(v, dict) and go(v, acc):
                    return True
                if isinstance(v, list):
                    for y in v:
                        if isinstance(y, dict) and go(y, acc):
                            return True
            return False
        go(root, [])
        return out
    for f, n, at, root in items:
        if True:
            if n.get("k") != "bin" or n.get("op") not in ("<", "<=", ">", ">=", "==", "!="):
                continue
            for side in (n["l"], n["r"]):
                s = strip_all_casts(side)
                t = s.get("t") or {}
                if s.get("k") == "bin" and s.get("op") == "-" and t.get("k") == "int" and not t.get("sg") and t.get("bits") == 64:
                    a, b = strip_all_casts(s["l"]), strip_all_casts(s["r"])
                    if const_value(a) is not None:
                        continue
                    # pointer differences are signed; only integer operands here
                    if (a.get("t") or {}).get("k") == "ptr":
                        continue
                    key = "%s:`%s`@%s" % (f.name.replace(NS, ""), canon(s)[:60], (n.get("loc") or "").split(":", 1)[-1])
                    acan = canon(a)
                    bv = const_value(b)
                    fs = eng.mf(f).at(at if at is not None else s)
                    if root is not None:
                        fs = list(fs) + left_context(root, n.get("id"), f)
                    else:
                        # an expression put in place of a call when the fact base was loaded is evaluated in one CFG block: what its operands to
                        # the left establish is not in the block facts
                        top = None
                        for anc in f.ancestors(n):
                            if anc.get("inlined_from") and anc.get("k") == "cast":
                                top = anc
                        if top is not None:
                            fs = list(fs) + left_context(top, n.get("id"), f)
                    # facts from earlier conjuncts in the same expression are path facts too (CFG splits &&)
                    ok = False
                    why = ""
                    lb = lb_from_facts(fs, acan)
                    lb = max(lb, eng.req.get(f.key, {}).get(next((p["decl"] for p in f.params if companion(f, p["decl"])[0] == acan), None), [0])[0])
                    if bv is not None:
                        ok = lb >= bv
                        why = "%s >= %d holds where %s is evaluated" % (acan.split(":")[-1], lb, canon(s)[:50])
                    else:
                        bcan = canon(b)
                        for x in fs:
                            if x[0] == "cmp" and ((x[1] == acan and x[3] == bcan and x[2] in (">=", ">")) or (x[1] == bcan and x[3] == acan and x[2] in ("<=", "<"))):
                                ok = True
                                why = "guarded by %s %s %s" % (x[1], x[2], x[3])
                        if not ok:
                            ok, why = cursor_invariant(eng, f, n, a, b)
                        if not ok and "size()" in acan and (a.get("callee") or {}).get("nm") == "size":
                            # container size minus a member that is kept <= it: the encoder's idiom is not decode-reachable; payload sizes:
                            why = why or "no guard `%s >= %s`" % (acan, bcan)
                    res.check(ok, "C02-R4", key, n.get("loc"), why or "guarded", "unsigned subtraction `%s` in a guard can wrap: %s" % (canon(s)[:80], why or "no dominating `%s >= %s`" % (acan, canon(b))))


def cursor_invariant(eng, f, cmpnode, a, b):
    """`(N - V) >= c` as a loop condition with V = v0 before the loop, V += d (d <= c) as the
    only update, and N >= v0 established before the loop: N >= V is a loop invariant."""
    if b.get("k") != "ref" or b.get("dk") != "local":
        return False, ""
    loops = paths.loop_header(f)
    for lb, ls in loops:
        cond = ls.get("cond")
        if cond is None or not any(x["id"] == cmpnode["id"] for x in walk(cond)):
            continue
        c = strip(cond)
        cv = None
        if c.get("k") == "bin" and c.get("op") in (">=", ">"):
            cv = const_value(c["r"])
            if cv is not None and c["op"] == ">":
                cv += 1
        if cv is None:
            return False, "loop condition is not `(N - V) >= c`"
        ups = [x for x in walk(ls.get("body", {})) if x.get("k") in ("cassign", "assign") and lvalue_root(x["l"]) == b["decl"]] + \
              [x for x in walk(ls.get("body", {})) if x.get("k") == "un" and x.get("op") in ("pre++", "post++", "pre--", "post--") and lvalue_root(x["e"]) == b["decl"]]
        if len(ups) != 1 or ups[0].get("k") != "cassign" or ups[0].get("op") != "+" or const_value(ups[0]["r"]) is None or const_value(ups[0]["r"]) > cv:
            return False, "cursor %s is not advanced by a single `+= d` with d <= %d" % (b["decl"], cv)
        init = [e for e in local_defs(f).get(b["decl"], []) if not any(e is u.get("r") or e is u.get("l") for u in ups)]
        v0 = const_value(init[0]) if len(init) >= 1 else None
        if v0 is None:
            return False, "cursor %s has no constant initial value" % b["decl"]
        lbN = lb_from_facts(eng.mf(f).at_block_entry(lb), canon(a), f)
        # the facts at the loop header are the join of entry and back edge; use the entry predecessor
        cfg = f.cfg
        pre = [p for p, i in cfg.pred[lb] if not cfg.dominates(lb, p)]
        for p in pre:
            fsx = eng.mf(f)._block_transfer(p, eng.mf(f).entry_facts.get(p, {}))
            lbN = max(lbN, lb_from_facts(list(fsx.values()), canon(a), f))
        if lbN >= v0:
            return True, "loop invariant %s >= %s: %s >= %d before the loop, cursor starts at %d and advances by %d only when %d more bytes remain" % (
                canon(a).split(":")[-1], b["decl"].split(":")[-1], canon(a).split(":")[-1], lbN, v0, const_value(ups[0]["r"]), cv)
        return False, "%s >= %d is not established before the loop (lower bound %d): `%s - %s` wraps for short input" % (
            canon(a).split(":")[-1], v0, lbN, canon(a).split(":")[-1], b["decl"].split(":")[-1])
    return False, ""


# ------------------------------------------------------------------ R5
def rule_loops(eng):
    fb, res = eng.fb, eng.res
    for f in eng.fns:
        if not f.cfg_raw:
            continue
        for lb, ls in paths.loop_header(f):
            key = "%s:loop@%s" % (f.name.replace(NS, ""), (ls.get("loc") or "").split(":", 1)[-1])
            k = ls.get("k")
            if k == "rangefor":
                rng = ls.get("range")
                rd = reads(rng) if rng else set()
                mod = [x for x in walk(ls.get("body", {})) if x.get("k") == "call" and "obj" in x and (x.get("callee") or {}).get("nm") in facts.MUTATING_METHODS and
                       lvalue_root(x["obj"]) in rd]
                res.check(not mod, "C02-R5", key, ls.get("loc"), "range loop over a container the body does not modify", "range loop modifies the container it iterates")
                continue
            cond = ls.get("cond")
            if cond is None:
                res.bad("C02-R5", key, ls.get("loc"), "loop without a condition")
                continue
            cvars = {d for d in reads(cond) if not d.startswith("p")} | {d for d in reads(cond) if d.startswith("p") and False}
            cvars = {d for d in reads(cond)}
            # per path through the body back to the header: some condition variable moves by a positive constant
            body_entry, exit_b = f.cfg.succ[lb]
            ps = paths.enumerate_paths(f, body_entry, lambda b: b in (lb, exit_b))
            ok_all = True
            why = ""
            consumed_min = None
            for p in ps:
                if p.end_block != lb:
                    continue  # leaves the loop
                moved = None
                for _, x in p.elems():
                    tgt = None
                    amt = None
                    if x.get("k") == "cassign" and x.get("op") in ("+", "-"):
                        tgt = lvalue_root(x["l"])
                        amt = positive_lb(eng, f, x["r"])
                    elif x.get("k") == "un" and x.get("op") in ("pre++", "post++", "pre--", "post--"):
                        tgt = lvalue_root(x["e"])
                        amt = 1
                    elif x.get("k") == "call" and x.get("op") in ("++",) and "obj" in x:
                        tgt = lvalue_root(x["obj"])
                        amt = 1
                    if tgt in cvars and amt and amt > 0:
                        moved = amt if moved is None else max(moved, amt)
                if moved is None:
                    ok_all = False
                    why = "a path re-enters the loop without moving %s" % sorted(v.split(":")[-1] for v in cvars)
                else:
                    consumed_min = moved if consumed_min is None else min(consumed_min, moved)
            res.check(ok_all, "C02-R5", key, ls.get("loc"), "every path that re-enters the loop moves the cursor by >= %s" % consumed_min, why)
            # result pushes inside cursor loops
            pushes = [x for x in walk(ls.get("body", {})) if x.get("k") == "call" and callee_name(x) in ("std::vector::push_back", "std::vector::emplace_back")]
            if pushes and ok_all and any("size" in d.lower() for d in cvars | {canon(cond)}):
                res.check(consumed_min is not None and consumed_min >= 12, "C02-R5", key + ":packets-per-bytes", ls.get("loc"),
                          "each iteration that pushes a result and continues consumes >= %s input bytes" % consumed_min,
                          "an iteration can push a result while consuming only %s input bytes (bound: one packet per 12 bytes)" % consumed_min)


def positive_lb(eng, f, e):
    """Constant lower bound of an unsigned step expression (through single-definition locals)."""
    def syms(x):
        if x.get("k") == "call" and (x.get("t") or {}).get("k") == "int" and not (x.get("t") or {}).get("sg"):
            return canon(x)
        return None
    form = _linear(f, e, syms)
    if form is None:
        return None
    if any(v < 0 for k, v in form.items() if k != 1):
        return None
    return form.get(1, 0)


# ------------------------------------------------------------------ R6
def rule_nullable(eng):
    fb, res = eng.fb, eng.res
    nullable = {}
    for f in eng.fns:
        rt = f.raw.get("rett") or {}
        s = rt.get("s", "")
        if not (s.startswith("std::shared_ptr") or s.startswith("std::unique_ptr") or rt.get("k") == "ptr"):
            continue
        for r in f.returns():
            e = strip_all_casts(r.get("e") or {})
            isnull = e.get("null") or (e.get("k") == "construct" and not e.get("args")) or \
                (e.get("k") == "construct" and len(e.get("args", [])) == 1 and strip_all_casts(e["args"][0]).get("null")) or \
                (e.get("k") == "initlist" and not e.get("inits")) or (e.get("k") == "zeroinit")
            if isnull:
                nullable[f.key] = f
            # returns the (possibly null) result of another nullable function
    changed = True
    while changed:
        changed = False
        for f in eng.fns:
            if f.key in nullable:
                continue
            rt = f.raw.get("rett") or {}
            if not (rt.get("s", "").startswith("std::shared_ptr") or rt.get("k") == "ptr"):
                continue
            for r in f.returns():
                for x in walk(r.get("e") or {}):
                    if x.get("k") == "call":
                        g = fb.resolve_call(x)
                        if g is not None and g.key in nullable:
                            # unless guarded non-null on this path
                            nullable[f.key] = f
                            changed = True
    n = 0
    for f in eng.fns:
        if not f.cfg_raw:
            continue
        mf = None
        # locals holding a nullable call's result
        holders = {}
        for d, es in local_defs(f).items():
            for e in es:
                for x in walk(e):
                    if x.get("k") == "call":
                        g = fb.resolve_call(x)
                        if g is not None and g.key in nullable and strip_all_casts(e).get("id") in (x["id"],) or \
                                (x.get("k") == "call" and fb.resolve_call(x) is not None and fb.resolve_call(x).key in nullable and
                                 strip_all_casts(e).get("k") in ("call", "construct") and any(y["id"] == x["id"] for y in walk(e)) and
                                 (strip_all_casts(e).get("t") or {}).get("s", "").startswith(("std::shared_ptr", "std::unique_ptr"))):
                            holders[d] = fb.resolve_call(x)
        if not holders:
            continue
        for u in f.nodes():
            if u.get("k") == "call" and "obj" in u and (u.get("callee") or {}).get("nm") in ("operator->", "operator*"):
                o = strip_all_casts(u["obj"])
                if o.get("k") == "ref" and o.get("decl") in holders:
                    n += 1
                    if mf is None:
                        mf = eng.mf(f)
                    fs = mf.at(u)
                    d = o["decl"]
                    ok = any((a[0] == "truth" and a[2] is True and d in a[1] and "operator bool" in a[1]) or
                             (a[0] == "cmp" and a[2] == "!=" and ((a[1] == d and "nullptr" in a[3]) or (a[3] == d and "nullptr" in a[1]))) for a in fs)
                    res.check(ok, "C02-R6", "%s:%s@%s" % (f.name.replace(NS, ""), d.split(":")[-1], (u.get("loc") or "").split(":", 1)[-1]), u.get("loc"),
                              "result of %s tested before dereference" % holders[d].name.split("::")[-1],
                              "%s can return null (e.g. for an unsupported or invalid payload) and its result `%s` is dereferenced without a test" %
                              (holders[d].name, d.split(":")[-1]))
    res.extra["nullable_functions"] = sorted(f.name for f in nullable.values())
    return n


# ------------------------------------------------------------------ R7 / R8
def rule_ownership(eng):
    fb, res = eng.fb, eng.res
    classes = [NS + "Packet", NS + "Payload", "TECMP::Payload"] + sorted(fb.derived_from(NS + "Payload")) + sorted(fb.derived_from("TECMP::Payload"))
    for cn in classes:
        r = fb.record(cn)
        bad = []
        for fld in r["fields"]:
            t = fld["t"]
            s = t["s"]
            if t.get("k") == "ptr" or t.get("ref") or any(w in s for w in ("string_view", "span<", "__normal_iterator", "shared_ptr", "weak_ptr")):
                bad.append("%s: %s" % (fld["name"], s))
        res.check(not bad, "C02-R7", "members:" + cn.replace(NS, ""), r["loc"], "holds values / owning members only (%d fields)" % len(r["fields"]),
                  "%s keeps a non-owning reference to memory: %s" % (cn, bad))
    for cn in (NS + "Payload", "TECMP::Payload"):
        for f in fb.fns(cn + "::" + cn.split("::")[-1]):
            if len(f.params) == 3:
                ftype = {fld["qname"]: fld["t"] for fld in fb.record(cn)["fields"]}
                reading = [i for i in f.raw.get("inits", []) if i.get("field") and f.params[1]["decl"] in reads(i.get("e", {}))]
                # an owning container built from the range [data, data + n) is a copy; a pointer / view member initialised from data is not
                stores = [i for i in reading if not (ftype.get(i["field"], {}).get("s", "").startswith("std::vector<") and facts.vector_value_sizes(f, i["e"]))]
                copies = [c for c in f.calls() if facts.copy_args(c) and f.params[1]["decl"] in reads(facts.copy_args(c)[1])] + \
                    [i for i in reading if i not in stores]
                res.check(not stores and len(copies) == 1, "C02-R7", "copy-in:" + cn.replace(NS, ""), f.loc, "constructor copies the bytes into its own vector",
                          "%s(type,data,size) keeps the caller's pointer instead of copying" % cn)


def rule_readonly(eng):
    fb, res = eng.fb, eng.res
    for name in ENTRY:
        f = fb.fn(name)
        t = f.params[0]["t"]
        res.check(bool(t.get("pconst")), "C02-R8", "entry:%s" % name.replace(NS, ""), f.loc, "input parameter is pointer-to-const", "input parameter of %s is not pointer-to-const" % name)
    for f in eng.fns:
        for n in f.nodes():
            if n.get("k") == "cast" and n.get("written") in ("const", "cstyle") and (n.get("t") or {}).get("k") == "ptr":
                fr = n.get("from") or {}
                if fr.get("pconst") and not (n.get("t") or {}).get("pconst"):
                    # where does the non-const pointer go?  only into stores of pointer variables and const parameters
                    par = f.parent(n)
                    while par is not None and par.get("k") == "cast":
                        par = f.parent(par)
                    ok = False
                    why = "result used as %s" % (par or {}).get("k")
                    if par is not None and par.get("k") == "assign":
                        tgt = strip_all_casts(par["l"])
                        # *outparam = ptr: the receiving variable in callers is only passed to const parameters / compared
                        ok = True
                        why = "stored through an out-parameter; checked at the receiving variable"
                        if tgt.get("k") == "un" and tgt.get("op") == "*":
                            od = strip_all_casts(tgt["e"]).get("decl")
                            idx = [p["decl"] for p in f.params].index(od) if od in [p["decl"] for p in f.params] else None
                            for cf, cn in eng.callers.get(f.key, []):
                                a = strip_all_casts(cn["args"][idx]) if idx is not None else {}
                                if a.get("k") == "un" and a.get("op") == "&":
                                    v = strip_all_casts(a["e"]).get("decl")
                                    for u in cf.nodes():
                                        if u.get("k") == "ref" and u.get("decl") == v:
                                            pu = cf.parent(u)
                                            while pu is not None and pu.get("k") == "cast":
                                                pu = cf.parent(pu)
                                            if pu is None:
                                                continue
                                            if pu.get("k") == "call":
                                                g = fb.resolve_call(pu)
                                                ai = [i for i, x in enumerate(pu.get("args", [])) if any(y["id"] == u["id"] for y in walk(x))]
                                                if g is not None and ai and not g.params[ai[0]]["t"].get("pconst") and callee_name(pu) not in COPY:
                                                    ok = False
                                                    why = "the de-consted pointer is passed to non-const parameter of %s" % g.name
                                                if callee_name(pu) in COPY and ai and ai[0] == 0:
                                                    ok = False
                                                    why = "the de-consted pointer is the destination of a copy"
                                            elif pu.get("k") in ("assign", "cassign") and strip_all_casts(pu["l"]).get("k") == "un":
                                                ok = False
                                                why = "written through"
                    res.check(ok, "C02-R8", "%s:const-cast@%s" % (f.name.replace(NS, ""), (n.get("loc") or "").split(":", 1)[-1]), n.get("loc"), why,
                              "const is cast away from an input-derived pointer and %s" % why)
    # no write through parameters of the entry points
    for name in ENTRY:
        f = fb.fn(name)
        w = [n for d, k, n in writes_of(f) if d == f.params[0]["decl"] and k in ("assign", "cassign")]
        res.check(not w, "C02-R8", "entry-write:%s" % name.replace(NS, ""), f.loc, "no store through the input pointer", "the input buffer is written")
