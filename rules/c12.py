"""C12 — Headers and payload fields use the ASAM CMP / TECMP wire layout."""
from cmpverif import accessors
from cmpverif.build import Broken
from cmpverif.report import Result

LEVEL = "proof"
TAGS = {"position": "C12-R1", "flag": "C12-R1f", "size": "C12-R2", "reserved": "C12-R3", "swap": "C12-R4", "frame": "C12-R3w"}


def run(ctx):
    fb = ctx.fb()
    res = Result("C12")
    res.rule("C12-R1", "position: value bit j of a field is stored at (and read from) memory byte O+(W/8-1-(lo+j) div 8), bit "
                        "(lo+j) mod 8 — the big-endian wire position the layout oracle prescribes — for all values")
    res.rule("C12-R1f", "flag bits: every flag enumerator reads/writes exactly the wire bit(s) the oracle lists")
    res.rule("C12-R2", "sizes: sizeof each header equals the standard's size, no padding, alignment 1; variable-length data "
                        "starts at sizeof(Header)")
    res.rule("C12-R3o", "raw header output: getRawCmpHeader / getRawMessageHeader hand out a complete, zero-based header — the untyped output pointer "
                        "only receives whole-object copies of a default-constructed local header (shared with C20-R2), so reserved bytes are zero "
                        "whatever the destination held")
    res.rule("C12-R3", "reserved bytes are zero-initialised in default-constructed header objects")
    res.rule("C12-R3w", "no in-range setter writes a reserved bit or a bit of another field (C11-R1 frame result, taken over in full)")
    res.rule("C12-R4", "swapEndian overloads are byte reversal for all values (integer overloads by G4, float overload by "
                        "its byte-assignment body)")
    res.rule("C12-R5", "variable-length parts: the builders write every byte they advance over, so the big-endian length fields and pad bytes of the "
                        "variable parts are always (re)written (C13-R3), and setData writes the header's length field and DLC code for the new length on every path (C13-R1, R2)")
    res.assumptions += ["the layout table /verif/spec/layout.json (written from the protocol formats) is the oracle",
                        "x86-64 little-endian target as compiled; in-range arguments"]
    res.not_decided += ["variable-length data (C13)", "correctness of the oracle table itself"]
    spec = ctx.spec("layout.json")
    obs, stats = accessors.analyse(fb, spec)
    # wire bits the oracle assigns to no field: reserved bytes and gaps inside containers
    reserved_bits = {}
    for crow in spec["classes"]:
        n = crow.get("size", crow.get("header_size"))
        used = set()
        for row in crow["fields"]:
            pos = accessors.wire_pos(row["offset"], row["bytes"])
            used |= {pos(v) for v in range(row["lo"], row["hi"] + 1)}
        for fr in crow.get("flags", []):
            pos = accessors.wire_pos(fr["offset"], fr["bytes"])
            used |= {pos(b) for bl in fr["bits"].values() for b in bl}
        reserved_bits[crow["class"]] = set(range(8 * n)) - used
    for o in obs:
        if o.tag in TAGS:
            if o.tag == "frame":
                if o.cls not in reserved_bits:
                    continue
                hit = sorted(set(o.bits) & reserved_bits[o.cls])
                # the layout prescribes every byte of the header: a setter that changes bits outside its own field (reserved ones, or a
                # neighbouring field's — C11-R1's frame result) leaves a header whose bytes are not what the fields say
                res.check(o.ok and not hit, "C12-R3w", o.key, o.loc, "writes only its own field's wire bits" if (o.ok and not hit) else
                          o.detail + (" — %d of them reserved by the layout" % len(hit) if hit else ""))
                continue
            res.check(o.ok, TAGS[o.tag], o.key, o.loc, o.detail)
    # variable-length parts: length fields and data written by the builders (C13-R3: every advanced byte is written)
    from rules import c13
    sub = c13.run(ctx)
    for o in sub.obligations:
        if o["rule"] in ("C13-R3", "C13-R6", "C13-R7") or (o["rule"] in ("C13-R1", "C13-R2") and ("setData:" in o["key"] or o["key"] == "encodeDlc")):
            # (R7: the variable part of the interface status payload — count word, ids, pad to even, vendor length word, vendor data — sits where
            # the format puts it, on the builder's and on the readers' side)
            # (R1/R2: the length and DLC bytes of the CAN / LIN / Ethernet headers are (re)written with the values of this call on every path)
            res.check(o["ok"], "C12-R5", "builders:" + o["key"], o["loc"], o["detail"])
    res.extra["accessor_stats"] = {k: v for k, v in stats.items() if k != "unsupported"}
    accessors.require_supported(stats)
    res.floor("C12-R1", 250)
    res.floor("C12-R2", 30)
    res.floor("C12-R3", 20)
    res.floor("C12-R4", 5)
    from rules.c20 import rule_raw_outputs
    if rule_raw_outputs(fb, res, "C12-R3o") < 2:
        raise Broken("raw header output functions (void* dest) not found")
    return res
