"""C19 — Separate codec instances can be used concurrently.

Decides the structural clause completely: the library has no mutable state that two
objects could share (no mutable object with static storage duration in the AST or
in the linked LLVM IR, no reference to one in any function body, no thread-hostile
external function, no pointer/reference/shared_ptr member through which two codec
objects could alias).  Distinct objects + no shared state => every schedule is
equivalent to the sequential one.
"""
import re
import subprocess

from cmpverif import facts
from cmpverif.build import Broken
from cmpverif.report import Result

LEVEL = "proof"

# externals whose implementation keeps process-wide mutable state or returns
# pointers into static storage (glibc manual: MT-Unsafe), and libstdc++ entry points
# that mutate global state
DENY = {
    "rand", "srand", "random", "srandom", "drand48", "erand48", "lrand48", "nrand48", "mrand48", "jrand48", "srand48",
    "strtok", "strerror", "localtime", "gmtime", "asctime", "ctime", "getenv", "setenv", "putenv", "unsetenv",
    "setlocale", "tmpnam", "tempnam", "readdir", "getpwnam", "getpwuid", "gethostbyname", "gethostbyaddr", "ttyname",
    "getlogin", "ptsname", "ecvt", "fcvt", "gcvt", "l64a", "basename", "dirname", "crypt", "inet_ntoa", "mblen",
    "mbtowc", "wctomb", "mbrlen", "getopt", "signal", "strsignal", "localeconv", "nl_langinfo", "wcstombs",
    "std::locale::global", "std::set_terminate", "std::set_new_handler", "std::set_unexpected", "std::srand",
    "std::rand", "std::setlocale", "std::getenv", "std::localtime", "std::gmtime", "std::asctime", "std::ctime",
    "std::strtok", "std::strerror", "std::tmpnam", "std::ios_base::sync_with_stdio",
}
# globals of the standard library that are shared mutable objects
DENY_GLOBAL_REFS = {"std::cout", "std::cerr", "std::clog", "std::cin", "std::wcout", "std::wcerr", "std::wclog",
                    "std::wcin", "errno"}

# vetted: reentrant / synchronised by the implementation (allocator, exception
# runtime, mem*/str* without static buffers, iostream init refcount)
ALLOW_PREFIX = ("llvm.", "__cxa_", "__gxx_personality", "_Unwind_", "std::__throw_", "__cxx_global", "__clang_call_terminate")
ALLOW = {
    "memchr", "memcmp", "memcpy", "memmove", "memset", "strlen", "strnlen", "strcmp", "strncmp", "strchr", "strrchr",
    "strstr", "strcpy", "strncpy", "snprintf", "vsnprintf", "abs", "labs", "strtol", "strtoul", "strtoll", "strtoull",
    "strtod", "strtof", "operator new", "operator delete", "operator new[]", "operator delete[]", "std::terminate",
    "__dso_handle", "free", "malloc", "calloc", "realloc", "abort", "bcmp", "__assert_fail",
}

CODEC_RECORDS = ["ASAM::CMP::Encoder", "ASAM::CMP::Decoder", "ASAM::CMP::Decoder::SegmentedPacket",
                 "ASAM::CMP::Decoder::Endpoint", "ASAM::CMP::Status", "ASAM::CMP::DeviceStatus",
                 "ASAM::CMP::InterfaceStatus", "ASAM::CMP::DataContext"]


def demangle(names):
    if not names:
        return []
    p = subprocess.run(["llvm-cxxfilt-14"], input="\n".join(names) + "\n", stdout=subprocess.PIPE, text=True)
    if p.returncode != 0:
        raise Broken("llvm-cxxfilt-14 failed")
    return p.stdout.splitlines()


def base_name(dem):
    """function name without parameters, return type and template arguments"""
    s = dem
    # strip template argument lists
    out = []
    depth = 0
    i = 0
    while i < len(s):
        ch = s[i]
        if ch == "<" and not s[max(0, i - 8):i].endswith("operator") and not s[max(0, i - 9):i].endswith("operator<"):
            depth += 1
        elif ch == ">" and depth > 0 and not s[max(0, i - 8):i].endswith("operator"):
            depth -= 1
        elif depth == 0:
            out.append(ch)
        i += 1
    s = "".join(out)
    # cut parameter list
    p = s.find("(")
    if p > 0 and (not s.startswith("operator") or s.startswith("operator new") or s.startswith("operator delete")):
        s = s[:p]
    # drop a leading return type ("std::basic_ostream& std::operator<<")
    if " " in s and not s.startswith("operator"):
        parts = s.split(" ")
        if "operator" in parts[-1] or "::" in parts[-1]:
            s = parts[-1]
        for j, pt in enumerate(parts):
            if pt.endswith("operator"):
                s = " ".join(parts[j:])
                break
    return s.replace("std::__cxx11::", "std::")


def parse_ir(path):
    globs = []
    decls = []
    rx_g = re.compile(r'^(@"?[^ "=]+"?|@"[^"]+") = (.*)$')
    rx_d = re.compile(r'^declare .*?@("?[^ ("]+"?|"[^"]+")\(')
    ndef = 0
    with open(path) as fh:
        for line in fh:
            if line.startswith("@"):
                m = rx_g.match(line)
                if not m:
                    continue
                name = m.group(1)[1:].strip('"')
                rest = m.group(2)
                toks = rest.split()
                if "alias" in toks[:6] or "ifunc" in toks[:6]:
                    continue
                kind = None
                for t in toks[:10]:
                    if t in ("global", "constant"):
                        kind = t
                        break
                if kind is None:
                    continue
                external = "external" in toks[:3] or "extern_weak" in toks[:3]
                tls = any(t.startswith("thread_local") for t in toks[:6])
                globs.append({"name": name, "kind": kind, "external": external, "tls": tls})
            elif line.startswith("declare "):
                m = rx_d.match(line)
                if m:
                    decls.append(m.group(1).strip('"'))
            elif line.startswith("define "):
                ndef += 1
    return globs, decls, ndef


def run(ctx):
    fb = ctx.fb()
    res = Result("C19")
    res.rule("C19-R1a", "every variable with static storage duration declared in the library is const/constexpr with a "
                         "constant initialiser and has no mutable fields (AST)")
    res.rule("C19-R1b", "every global definition in the linked LLVM IR of the library is `constant`, or the allow-listed "
                         "iostream initialiser object; no guard variable (function-local static with dynamic init)")
    res.rule("C19-R1c", "no function body refers to a non-const object with static storage duration (library or "
                         "standard-library stream objects)")
    res.rule("C19-R2", "no external function referenced by the linked library module is thread-hostile (deny list: "
                        "glibc MT-Unsafe functions, global-state mutators of libstdc++)")
    res.rule("C19-R3", "codec objects hold values only: no pointer, reference, shared_ptr/weak_ptr or view member through "
                        "which two objects could share state; no record has a non-const static data member")
    res.rule("C19-R4", "the static TECMP decoder/converter functions take no hidden state: they are static member "
                        "functions whose bodies reference locals, parameters and constants only")
    res.assumptions += [
        "libstdc++ containers, allocator, std::string/stringstream and the exception runtime are data-race free for "
        "distinct objects ([res.on.data.races])",
        "distinct codec objects are not aliased by the caller",
    ]
    res.not_decided += ["nothing for library code: absence of shared mutable state is decided for the parsed program; "
                        "thread-safety of the standard library is assumed"]

    # ---- R1a: AST statics
    n_static = 0
    for key, s in sorted(fb.statics.items()):
        n_static += 1
        ok = (s.get("const") or s.get("constexpr")) and not s.get("mutable_fields") and \
             (not s.get("has_init") or s.get("constant_init"))
        # a const object without initialiser that is a declaration only is fine
        detail = "%s %s: const=%s constexpr=%s constant_init=%s static_local=%s" % (
            s["t"]["s"], s["name"], s.get("const"), s.get("constexpr"), s.get("constant_init"), s.get("static_local"))
        if s.get("thread_local") and not ok:
            detail += " (thread_local: not shared between threads, still hidden per-thread state)"
        res.check(ok, "C19-R1a", s["name"], s["loc"], detail,
                  "mutable object with static storage duration: " + detail)
    res.floor("C19-R1a", 10, n_static)

    # ---- R1c + R4: references from function bodies
    n_fn = 0
    bad_refs = 0
    tecmp_static = 0
    for f in fb.all_functions():
        n_fn += 1
        viol = []
        for n in f.nodes():
            if n.get("k") in ("ref", "member") and n.get("dk") in ("global", "staticlocal", "staticmember"):
                if n.get("decl") in DENY_GLOBAL_REFS or not n.get("vconst"):
                    viol.append(n)
            if n.get("k") == "decl":
                for v in n.get("vars", []):
                    if v.get("static") and not (v["t"].get("const")):
                        viol.append({"decl": v.get("name"), "loc": n.get("loc"), "dk": "staticlocal-def"})
        for n in viol:
            bad_refs += 1
            res.bad("C19-R1c", "%s:%s" % (f.name, n.get("decl")), n.get("loc", f.loc),
                    "function %s uses mutable static-storage object %s" % (f.name, n.get("decl")))
        if f.name.startswith("TECMP::Decoder::") or f.name.startswith("TECMP::Converter::"):
            tecmp_static += 1
            is_static = bool(f.raw.get("static"))
            res.check(is_static and not viol, "C19-R4", f.name, f.loc,
                      "static member function; references only locals, parameters and constants",
                      "TECMP entry point is not a static function over locals (static=%s, mutable static refs=%d)" %
                      (is_static, len(viol)))
    if bad_refs == 0:
        res.ok("C19-R1c", "all-functions", "", "%d function bodies scanned, none refers to a mutable static object" % n_fn)
    res.floor("C19-R4", 15)
    if n_fn < 500:
        raise Broken("C19: only %d function bodies in the fact base (expected > 500)" % n_fn)

    # ---- R3: members of codec objects and static data members
    for rn in CODEC_RECORDS:
        r = fb.record(rn)
        for fld in r["fields"]:
            t = fld["t"]
            s = t["s"]
            shared = t.get("k") == "ptr" or t.get("ref") or any(
                w in s for w in ("shared_ptr", "weak_ptr", "string_view", "reference_wrapper", "span<", "__normal_iterator",
                                 "atomic", "mutex"))
            res.check(not shared and not fld.get("mutable"), "C19-R3", fld["qname"], fld["loc"],
                      "member of type %s holds a value" % s,
                      "member %s of type %s can alias state of another object" % (fld["qname"], s))
    res.floor("C19-R3", 20)
    for s in fb.statics.values():
        if s.get("static_member"):
            res.check(bool(s.get("const") or s.get("constexpr")), "C19-R3", "static:" + s["name"], s["loc"],
                      "static data member is constexpr/const", "non-const static data member " + s["name"])

    # ---- R1b + R2: linked IR inventory
    globs, decls, ndef = parse_ir(ctx.ir())
    if ndef < 500:
        raise Broken("C19: linked IR has only %d function definitions" % ndef)
    names = [g["name"] for g in globs]
    dem = dict(zip(names, demangle(names)))
    n_const = 0
    for g in globs:
        if g["external"]:
            continue
        nm = g["name"]
        d = dem.get(nm, nm)
        if g["kind"] == "constant":
            n_const += 1
            continue
        if nm in ("llvm.global_ctors", "llvm.global_dtors", "llvm.used", "llvm.compiler.used"):
            continue
        if nm == "_ZStL8__ioinit":
            res.ok("C19-R1b", nm, "", "std::__ioinit: iostream initialiser object from <iostream>; written only by the "
                                      "dynamic initialiser before main (allow-listed)")
            continue
        if nm.startswith("_ZGV"):
            res.bad("C19-R1b", nm, "", "guard variable %s: function-local static with dynamic initialisation" % d)
            continue
        what = "thread-local mutable global" if g["tls"] else "mutable global"
        res.bad("C19-R1b", nm, "", "%s defined by the library: %s" % (what, d))
    res.ok("C19-R1b", "constants", "", "%d global definitions are `constant` (vtables, typeinfo, literals, const objects)" %
           n_const)
    res.extra["ir_function_definitions"] = ndef
    res.extra["ir_global_definitions"] = len([g for g in globs if not g["external"]])

    ddem = demangle(decls)
    unvetted = []
    for raw, d in zip(decls, ddem):
        b = base_name(d)
        if b in DENY or raw in DENY:
            res.bad("C19-R2", b, "", "thread-hostile external function referenced: %s" % d)
        elif b in ALLOW or raw in ALLOW or any(raw.startswith(p) or b.startswith(p) for p in ALLOW_PREFIX) or \
                b.startswith("std::"):
            res.ok("C19-R2", b, "", "vetted external: %s" % d)
        else:
            unvetted.append(d)
            res.ok("C19-R2", b, "", "external %s is not on the deny list (unvetted; listed in evidence)" % d)
    res.extra["unvetted_externals"] = unvetted
    for u in unvetted:
        print("NOTE C19-R2: external function not on any list (not a violation): %s" % u)
    # AST-level cross-check of R2: direct calls by name (inline wrappers never reach a `declare`)
    for f in fb.all_functions():
        for n in f.calls():
            nm = facts.callee_name(n)
            if nm in DENY:
                res.bad("C19-R2", "%s:%s" % (f.name, nm), n.get("loc"), "call to thread-hostile function %s in %s" % (nm, f.name))
    res.floor("C19-R2", 20)
    return res
