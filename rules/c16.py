"""C16 — Status tracker equals a per-device, per-interface latest-message map (inductive invariant)."""
from cmpverif import facts, paths
from cmpverif.build import Broken
from cmpverif.facts import MustFacts, callee_name, called_names, canon, const_value, depends, lvalue_root, reads, strip, strip_all_casts, walk, writes_of
from cmpverif.report import Result

LEVEL = "other"
NS = "ASAM::CMP::"
LEVELS = [
    # (container class, element class, lookup name, key getter on the packet side, payload type required to create)
    {"cls": NS + "Status", "elem": NS + "DeviceStatus", "update": NS + "Status::update", "creator": NS + "Status::update",
     "lookup": NS + "Status::getIndexByDeviceId", "count": NS + "Status::getDeviceStatusCount", "remove": NS + "Status::removeDeviceById",
     "key_call": NS + "Packet::getDeviceId", "elem_key": [NS + "DeviceStatus::getPacket", NS + "Packet::getDeviceId"], "kind": "cmStatMsg", "bits": 16},
    {"cls": NS + "DeviceStatus", "elem": NS + "InterfaceStatus", "update": NS + "DeviceStatus::updateInterfaces", "creator": NS + "DeviceStatus::updateInterfaces",
     "lookup": NS + "DeviceStatus::getIndexByInterfaceId", "count": NS + "DeviceStatus::getInterfaceStatusCount", "remove": NS + "DeviceStatus::removeInterfaceById",
     "key_call": NS + "InterfacePayload::getInterfaceId", "elem_key": [NS + "InterfaceStatus::getInterfaceId"], "kind": "ifStatMsg", "bits": 32},
]


def vec_member(fb, cls, elem):
    c = [f for f in fb.record(cls)["fields"] if f["t"]["s"].startswith("std::vector<" + elem)]
    if len(c) != 1:
        raise Broken("%s: expected one vector<%s> member" % (cls, elem))
    return c[0]["qname"]


def index_loop_lookup(fb, look, vec, L):
    """(ok, why) for the index-loop idiom, (None, '') when the function is not of that shape."""
    loops = paths.loop_header(look)
    if len(loops) != 1:
        return None, ""
    lb, ls = loops[0]
    if ls.get("k") != "for":
        return None, ""
    prm = look.params[0]["decl"]
    cond = strip(ls.get("cond") or {})
    inc = strip(ls.get("inc") or {})
    init = ls.get("init") or {}
    iv = None
    for v in init.get("vars", []) if init.get("k") == "decl" else []:
        if const_value(v.get("init")) == 0:
            iv = v["decl"]
    if iv is None:
        return None, ""
    unmodified = not any(d == vec for d, _, _ in facts.writes_of(look))  # a cached size() stays the element count
    cr = strip_all_casts(facts.expand(look, cond["r"])) if cond.get("k") == "bin" and unmodified else {}
    whole = cond.get("k") == "bin" and cond.get("op") in ("<", "!=") and strip_all_casts(cond["l"]).get("decl") == iv and \
        (cr.get("callee") or {}).get("nm") == "size" and strip_all_casts(cr.get("obj", {})).get("field") == vec
    step = inc.get("k") == "un" and inc.get("op") in ("pre++", "post++") and strip_all_casts(inc["e"]).get("decl") == iv
    rets = look.returns()
    inside = [r for r in rets if any(a.get("id") == ls["id"] for a in look.ancestors(r))]
    outside = [r for r in rets if r not in inside]
    if len(inside) != 1 or len(outside) != 1:
        return None, ""
    ret_i = strip_all_casts(inside[0]["e"]).get("decl") == iv
    ro = strip_all_casts(facts.expand(look, outside[0]["e"])) if unmodified else strip_all_casts(outside[0]["e"])
    ret_n = (ro.get("callee") or {}).get("nm") == "size" and strip_all_casts(ro.get("obj", {})).get("field") == vec
    fs = MustFacts(look).at(inside[0])
    pred = False
    for a in fs:
        if a[0] == "cmp" and a[2] == "==":
            for x, y in ((a[4], a[5]), (a[5], a[4])):
                if set(L["elem_key"]) <= called_names(x) and strip_all_casts(y).get("decl") == prm and iv in reads(x) and vec in reads(x):
                    pred = True
    ok = whole and step and ret_i and ret_n and pred
    return ok, "index loop lookup: whole range=%s, ++i=%s, returns i on match=%s, returns size() when absent=%s, predicate element-key == id=%s" % (whole, step, ret_i, ret_n, pred)


def type_guard(facts_list, kind_value, pol=True, fn=None):
    for a in facts_list:
        if a[0] == "cmp" and fn is not None:
            a = ("cmp", facts.xcanon(fn, a[4]), a[2], facts.xcanon(fn, a[5]), facts.expand(fn, a[4]), facts.expand(fn, a[5]))
        if a[0] == "cmp" and a[2] == ("==" if pol else "!="):
            if (const_value(a[5]) == kind_value and "getType" in a[1]) or (const_value(a[4]) == kind_value and "getType" in a[3]):
                return a
            # PayloadType compared through its converting constructor: constant appears inside a construct
            for side, other in ((a[4], a[5]), (a[5], a[4])):
                if "getType" in canon(side) and any(const_value(x) == kind_value for x in walk(other)):
                    return a
    return None


def run(ctx):
    fb = ctx.fb()
    res = Result("C16")
    res.rule("C16-R1", "key agreement: the key looked up on update, the key the stored element answers to and the key of the by-id lookups are "
                        "the same getter over the same packet")
    res.rule("C16-R2", "uniqueness preserved: the only growth of each vector is a push_back guarded by 'lookup returned the element count'; the "
                        "only shrink is pop_back guarded by 'found' after swapping [index] with [size-1], or clear(); no other writer")
    res.rule("C16-R3", "creation only by the right kind: the device push_back is guarded by payload type == cmStatMsg; DeviceStatus::update writes "
                        "the device packet only under cmStatMsg and updates interfaces only under ifStatMsg")
    res.rule("C16-R4", "found => replaced: on the found branch the element at the found index receives update(packet); InterfaceStatus::update "
                        "assigns packet and id unconditionally")
    res.rule("C16-R5", "lookup contract: getIndexBy* return std::distance(begin, find_if(begin, end, predicate on the element's key == id))")
    res.not_decided += ["equality with the reference map after every operation sequence (history property): only the inductive invariant",
                        "'holding the latest packet' as byte equality goes through Packet::operator= (C14-R6)"]
    pt = {e: v for e, v in (("cmStatMsg", 0x0301), ("ifStatMsg", 0x0302))}
    for L in LEVELS:
        vec = vec_member(fb, L["cls"], L["elem"])
        short = L["cls"].split("::")[-1]
        upd = fb.fn(L["update"])
        look = fb.fn(L["lookup"])
        rem = fb.fn(L["remove"])
        # ---- R5 lookup contract
        rets = look.returns()
        fi = [c for c in look.calls("std::find_if")]
        okc = len(rets) == 1 and callee_name(strip_all_casts(rets[0]["e"])) == "std::distance" and len(fi) == 1
        pred_ok = False
        if fi:
            lam = [x for x in walk(fi[0]) if x.get("k") == "lambda"]
            a = fi[0].get("args", [])
            def whole(x, nm):
                x = strip_all_casts(x)
                while x.get("k") == "construct" and len(x.get("args", [])) == 1:
                    x = strip_all_casts(x["args"][0])
                return x.get("k") == "call" and (x.get("callee") or {}).get("nm") in (nm, "c" + nm) and not x.get("args") and \
                    strip_all_casts(x.get("obj", {})).get("field") == vec
            rng = len(a) == 3 and whole(a[0], "begin") and whole(a[1], "end")
            d0 = strip_all_casts(rets[0]["e"]) if rets else {}
            rng = rng and d0.get("k") == "call" and len(d0.get("args", [])) == 2 and whole(d0["args"][0], "begin")
            if lam and rng:
                lr = [n for n in walk(lam[0]["body"]) if n.get("k") == "return"]
                if len(lr) == 1:
                    at = facts.conjuncts(lr[0]["e"], True)
                    if len(at) == 1 and at[0][0] == "cmp" and at[0][2] == "==":
                        sides = (at[0][4], at[0][5])
                        calls = [called_names(s) for s in sides]
                        prm = look.params[0]["decl"]
                        for i in (0, 1):
                            if set(L["elem_key"]) <= calls[i] and prm in reads(sides[1 - i]) and not called_names(sides[1 - i]):
                                pred_ok = True
        bs = [c for c in look.calls() if callee_name(c) in ("std::lower_bound", "std::upper_bound", "std::binary_search", "std::equal_range")]
        if bs:
            # third idiom: binary search — sound only if every mutation keeps the vector ordered by the key
            sorted_ok = True
            why_s = ""
            for f2 in fb.all_functions():
                if f2.rec != L["cls"]:
                    continue
                for d2, kind2, n2 in writes_of(f2):
                    if d2 != vec or not (isinstance(n2, dict) and n2.get("k") == "call" and strip_all_casts(n2.get("obj", {})).get("field") == vec):
                        continue
                    if kind2 in ("call:push_back", "call:emplace_back", "call:pop_back", "call:swap"):
                        sorted_ok = False
                        why_s = "%s in %s" % (kind2.split(":")[-1], f2.name.split("::")[-1])
                    if kind2 == "call:insert":
                        pos = n2["args"][0] if n2.get("args") else {}
                        if not (depends(f2, pos)[1] & {"std::lower_bound", "std::upper_bound"}):
                            sorted_ok = False
                            why_s = "insert at an unsearched position in %s" % f2.name.split("::")[-1]
                for c2 in f2.calls("std::swap"):
                    if vec in depends(f2, c2)[0]:
                        sorted_ok = False
                        why_s = "element swap in %s" % f2.name.split("::")[-1]
            res.check(sorted_ok, "C16-R5", "%s:lookup" % short, look.loc, "binary search over a vector every mutation keeps ordered",
                      "%s searches %s with %s, but %s does not keep the vector ordered by id: present entries are missed and duplicated" %
                      (look.name, vec.split("::")[-1], callee_name(bs[0]), why_s))
            # the writer rules below assume the linear-search design
            continue
        if not fi:
            # accepted second idiom: index loop `for (i = 0; i < v.size(); ++i) if (key(v[i]) == id) return i; return v.size();`
            ok2, why2 = index_loop_lookup(fb, look, vec, L)
            if ok2 is None:
                raise Broken("%s: lookup is neither find_if/distance nor an index loop; re-derive C16-R5" % look.name)
            res.check(ok2, "C16-R5", "%s:lookup" % short, look.loc, "index loop over the whole vector returning the first match, else the count", why2)
        else:
            res.check(okc and pred_ok, "C16-R5", "%s:lookup" % short, look.loc, "distance(begin, find_if(begin, end, element key == id)) over the whole vector",
                      "%s is not `distance(begin, find_if(begin, end, element-key == id))` (whole range=%s)" % (look.name, okc))
        # ---- R1 key agreement on update
        lk = [c for c in upd.calls() if fb.resolve_call(c) is look]
        ok1 = len(lk) == 1 and L["key_call"] in depends(upd, lk[0]["args"][0])[1] and upd.params[0]["decl"] in depends(upd, lk[0]["args"][0])[0]
        res.check(ok1, "C16-R1", "%s:update-key" % short, lk[0].get("loc") if lk else upd.loc, "update looks up %s of the packet" % L["key_call"].split("::")[-1],
                  "update does not look the element up by %s of the packet being applied" % L["key_call"])
        # ---- R2 writers
        ws = []
        for f in fb.all_functions():
            if f.rec == L["cls"]:
                for d, kind, n in writes_of(f):
                    if d == vec and isinstance(n, dict) and n.get("k") == "call" and strip_all_casts(n.get("obj", {})).get("field") == vec:
                        ws.append((f, kind, n))
        idxvar = None
        mf = MustFacts(upd)
        for f, kind, n in ws:
            key = "%s:%s:%s" % (short, f.name.split("::")[-1], kind)
            if kind == "call:push_back":
                fs = MustFacts(f).at(n)
                # guarded by index == count (negation of index < count / index != count)
                g = None
                for a in fs:
                    if a[0] == "cmp" and a[2] in (">=", "=="):
                        sides = (a[4], a[5])
                        if any(fb.resolve_call(x) is look for s in sides for x in walk(s) if x.get("k") == "call") or \
                                any(depends(f, s)[1] & {look.name} for s in sides):
                            if any(L["count"] in called_names(s) or "size" in canon(s) for s in sides):
                                g = a
                res.check(g is not None and f is upd, "C16-R2", key, n.get("loc"), "push_back only when the lookup returned the element count (key absent)",
                          "push_back onto %s is not guarded by 'lookup == count': duplicate entries for one id become possible" % vec.split("::")[-1])
                tg = type_guard(fs, pt[L["kind"]], fn=f) if L["kind"] == "cmStatMsg" else True
                if L["kind"] == "cmStatMsg":
                    res.check(tg is not None, "C16-R3", "%s:create-kind" % short, n.get("loc"), "device entry created only for a capture-module status message",
                              "a device entry is created for packets that are not capture-module status messages")
                # the pushed element was updated with the same packet
                pushed = {x["decl"] for x in walk(n["args"][0]) if x.get("k") == "ref" and x.get("dk") == "local"}
                cfgf = f.cfg
                upd_before = any((callee_name(c2) or "") == L["elem"] + "::update" and "obj" in c2 and strip_all_casts(c2["obj"]).get("decl") in pushed and
                                 strip_all_casts(c2["args"][0]).get("decl") == f.params[0]["decl"] and cfgf.block_for(c2) == cfgf.block_for(n) and
                                 cfgf.pos_of[c2["id"]] < cfgf.pos_of[n["id"]] for c2 in f.calls())
                res.check(upd_before, "C16-R4", "%s:new-element-updated" % short, n.get("loc"),
                          "new element receives update(packet) before it is stored", "new element is stored without update(packet)")
            elif kind == "call:pop_back":
                fs = MustFacts(f).at(n)
                g = any(a[0] == "cmp" and a[2] in ("!=", "<") and any(depends(f, s)[1] & {look.name} for s in (a[4], a[5])) for a in fs)
                sw = [c for c in f.calls("std::swap")]
                oksw = False
                for c in sw:
                    a0, a1 = canon(c["args"][0]), canon(c["args"][1])
                    both = a0 + " " + a1
                    oksw = vec.split("::")[-1] in a0 and vec.split("::")[-1] in a1 and "size() - 1" in both.replace("std::vector::", "").replace("this->" + vec.split("::")[-1] + ".", "") and \
                        any(depends(f, x)[1] & {look.name} for x in walk(c) if x.get("k") == "call" and (x.get("callee") or {}).get("nm") == "operator[]" for x in x.get("args", []))
                    cfg = f.cfg
                    oksw = oksw and cfg.block_for(c) == cfg.block_for(n) and cfg.pos_of[c["id"]] < cfg.pos_of[n["id"]]
                res.check(g and f is rem and oksw, "C16-R2", key, n.get("loc"), "pop_back only when found, after swapping [index] with [size-1]",
                          "pop_back on %s without 'found' guard (%s) or without swapping exactly [index] and [size-1] first (%s)" % (vec.split("::")[-1], g, oksw))
            elif kind == "call:erase":
                # erase(begin() + index) of the found element keeps the remaining entries unique
                fs = MustFacts(f).at(n)
                g = any(a[0] == "cmp" and a[2] in ("!=", "<") and any(depends(f, s2)[1] & {look.name} for s2 in (a[4], a[5])) for a in fs)
                arg = strip_all_casts(n["args"][0]) if n.get("args") else {}
                ae = facts.expand(f, arg)
                one = len(n.get("args", [])) == 1 and any((x.get("callee") or {}).get("nm") in ("begin", "cbegin") and strip_all_casts(x.get("obj", {})).get("field") == vec
                                                          for x in walk(ae) if x.get("k") == "call") and look.name in depends(f, arg)[1]
                res.check(g and one and f is rem, "C16-R2", key, n.get("loc"), "erase(begin() + found index) only when found",
                          "erase on %s is not `erase(begin() + index)` of the found element under a 'found' guard" % vec.split("::")[-1])
            elif kind == "call:clear":
                res.ok("C16-R2", key, n.get("loc"), "clear()")
            elif kind == "call:operator[]":
                continue
            else:
                res.bad("C16-R2", key, n.get("loc"), "%s is modified by %s in %s: not one of push_back-if-absent / swap-and-pop / clear" % (vec.split("::")[-1], kind, f.name))
        # ---- R1b every element access uses an index computed by this call's lookup (or size()-1 inside the removal swap)
        for f in fb.all_functions():
            if f.rec != L["cls"] or f.raw.get("const"):
                continue
            for c in f.calls():
                if (c.get("callee") or {}).get("nm") == "operator[]" and strip_all_casts(c.get("obj", {})).get("field") == vec and c.get("args"):
                    idx = c["args"][0]
                    d, calls = depends(f, idx)
                    from_lookup = look.name in calls
                    last = "size" in canon(idx) and vec.split("::")[-1] in canon(idx)
                    is_param = any(strip_all_casts(idx).get("decl") == p["decl"] for p in f.params)
                    member_dep = sorted(x for x in d if x.startswith(L["cls"] + "::") and x != vec)
                    res.check((from_lookup or last or is_param) and not member_dep, "C16-R1", "%s:%s:index" % (short, f.name.split("::")[-1]), c.get("loc"),
                              "element index comes from this call's lookup" if from_lookup else "index is size()-1 / the caller's index",
                              "%s accesses %s[%s] with an index that does not come from a lookup in this call%s: after a removal the slot may hold another "
                              "id's entry" % (f.name, vec.split("::")[-1], canon(idx)[:60], (" (depends on member %s)" % member_dep) if member_dep else ""))
        # ---- R4 found => replaced
        ups = [c for c in upd.calls() if (callee_name(c) or "") == L["elem"] + "::update" and "obj" in c]
        found_ok = False
        for c in ups:
            o = strip_all_casts(c["obj"])
            if o.get("k") == "call" and (o.get("callee") or {}).get("nm") == "operator[]" and strip_all_casts(o.get("obj", {})).get("field") == vec:
                fs = MustFacts(upd).at(c)
                g = any(a[0] == "cmp" and a[2] in ("<", "!=") and any(depends(upd, s)[1] & {look.name} for s in (a[4], a[5])) for a in fs)
                same_idx = look.name in depends(upd, o["args"][0])[1]
                same_pkt = strip_all_casts(c["args"][0]).get("decl") == upd.params[0]["decl"]
                found_ok = g and same_idx and same_pkt
        res.check(found_ok, "C16-R4", "%s:found-updated" % short, upd.loc, "found: element [found index] receives update(packet)",
                  "on the found branch the element at the found index is not updated with the packet")
    # ---- DeviceStatus::update dispatch, InterfaceStatus::update
    du = fb.fn(NS + "DeviceStatus::update")
    mf = MustFacts(du)
    for d, kind, n in writes_of(du):
        if d == NS + "DeviceStatus::devicePacket" or (isinstance(n, dict) and n.get("k") == "call" and n.get("op") == "=" and d.startswith(NS + "DeviceStatus::")):
            res.check(type_guard(mf.at(n), 0x0301, fn=du) is not None, "C16-R3", "DeviceStatus::update:device-packet", n.get("loc"),
                      "device packet replaced only by a capture-module status message", "device packet is overwritten by messages of another kind")
    for c in du.calls(NS + "DeviceStatus::updateInterfaces"):
        res.check(type_guard(mf.at(c), 0x0302, fn=du) is not None, "C16-R3", "DeviceStatus::update:interfaces", c.get("loc"),
                  "interfaces updated only by an interface status message", "interface entries are updated by messages of another kind")
    wr = [(d, k) for d, k, n in writes_of(du)]
    iu = fb.fn(NS + "InterfaceStatus::update")
    cfg = iu.cfg
    uncond = not any(cfg.is_cond_branch(b) for b in cfg.blocks)
    w = {d for d, k, n in writes_of(iu)}
    idw = [n for d, k, n in writes_of(iu) if d == NS + "InterfaceStatus::interfaceId"]
    okid = bool(idw) and NS + "InterfacePayload::getInterfaceId" in called_names(idw[0])
    res.check(uncond and {NS + "InterfaceStatus::interfaceId", NS + "InterfaceStatus::interfacePacket"} <= w and okid, "C16-R4", "InterfaceStatus::update", iu.loc,
              "assigns packet and id (from the payload's getInterfaceId) unconditionally", "InterfaceStatus::update does not assign both packet and id unconditionally")
    # the id member is written nowhere else
    others = [f.name for f in fb.all_functions() for d, k, n in writes_of(f) if d == NS + "InterfaceStatus::interfaceId" and f is not iu]
    res.check(not others, "C16-R1", "InterfaceStatus::interfaceId:writers", iu.loc, "stored id is written only from the payload getter in update()",
              "stored interface id is also written by %s" % others)
    gid = fb.fn(NS + "InterfaceStatus::getInterfaceId")
    rets = [n for n in gid.nodes() if n.get("k") == "return"]
    res.check(len(rets) == 1 and strip_all_casts(rets[0]["e"]).get("field") == NS + "InterfaceStatus::interfaceId", "C16-R1", "InterfaceStatus::getInterfaceId", gid.loc,
              "returns the stored id", "getInterfaceId does not return the stored id")
    res.floor("C16-R1", 4)
    res.floor("C16-R2", 5)
    res.floor("C16-R3", 3)
    res.floor("C16-R4", 5)
    res.floor("C16-R5", 2)
    return res
