"""C16 — Status tracker equals a per-device, per-interface latest-message map (inductive invariant)."""
from cmpverif import facts, paths
from cmpverif.build import Broken
from cmpverif.facts import MustFacts, callee_name, called_names, canon, const_value, depends, lvalue_root, reads, strip, strip_all_casts, walk, writes_of
from cmpverif.report import Result

LEVEL = "other"
NS = "ASAM::CMP::"
LEVELS = [
    # (container class, element class, lookup name, key getter on the packet side, payload type required to create)
    {"cls": NS + "Status", "elem": NS + "DeviceStatus", "update": NS + "Status::update", "creator": NS + "Status::update",
     "lookup": NS + "Status::getIndexByDeviceId", "count": NS + "Status::getDeviceStatusCount", "remove": NS + "Status::removeDeviceById",
     "key_call": NS + "Packet::getDeviceId", "elem_key": [NS + "DeviceStatus::getPacket", NS + "Packet::getDeviceId"], "kind": "cmStatMsg", "bits": 16},
    {"cls": NS + "DeviceStatus", "elem": NS + "InterfaceStatus", "update": NS + "DeviceStatus::updateInterfaces", "creator": NS + "DeviceStatus::updateInterfaces",
     "lookup": NS + "DeviceStatus::getIndexByInterfaceId", "count": NS + "DeviceStatus::getInterfaceStatusCount", "remove": NS + "DeviceStatus::removeInterfaceById",
     "key_call": NS + "InterfacePayload::getInterfaceId", "elem_key": [NS + "InterfaceStatus::getInterfaceId"], "kind": "ifStatMsg", "bits": 32},
]


def vec_member(fb, cls, elem):
    c = [f for f in fb.record(cls)["fields"] if f["t"]["s"].startswith("std::vector<" + elem)]
    if len(c) != 1:
        raise Broken("%s: expected one vector<%s> member" % (cls, elem))
    return c[0]["qname"]


def index_loop_lookup(fb, look, vec, L):
    """(ok, why) for the index-loop idiom, (None, '') when the function is not of that shape."""
    loops = paths.loop_header(look)
    if len(loops) != 1:
        return None, ""
    lb, ls = loops[0]
    if ls.get("k") != "for":
        return None, ""
    prm = look.params[0]["decl"]
    cond = strip(ls.get("cond") or {})
    inc = strip(ls.get("inc") or {})
    init = ls.get("init") or {}
    iv = None
    for v in init.get("vars", []) if init.get("k") == "decl" else []:
        if const_value(v.get("init")) == 0:
            iv = v["decl"]
    if iv is None:
        return None, ""
    unmodified = not any(d == vec for d, _, _ in facts.writes_of(look))  # a cached size() stays the element count
    cr = strip_all_casts(facts.expand(look, cond["r"])) if cond.get("k") == "bin" and unmodified else {}
    whole = cond.get("k") == "bin" and cond.get("op") in ("<", "!=") and strip_all_casts(cond["l"]).get("decl") == iv and \
        (cr.get("callee") or {}).get("nm") == "size" and strip_all_casts(cr.get("obj", {})).get("field") == vec
    step = inc.get("k") == "un" and inc.get("op") in ("pre++", "post++") and strip_all_casts(inc["e"]).get("decl") == iv
    rets = look.returns()
    inside = [r for r in rets if any(a.get("id") == ls["id"] for a in look.ancestors(r))]
    outside = [r for r in rets if r not in inside]
    if len(inside) != 1 or len(outside) != 1:
        return None, ""
    ret_i = strip_all_casts(inside[0]["e"]).get("decl") == iv
    ro = strip_all_casts(facts.expand(look, outside[0]["e"])) if unmodified else strip_all_casts(outside[0]["e"])
    ret_n = (ro.get("callee") or {}).get("nm") == "size" and strip_all_casts(ro.get("obj", {})).get("field") == vec
    fs = MustFacts(look).at(inside[0])
    pred = False
    for a in fs:
        if a[0] == "cmp" and a[2] == "==":
            for x, y in ((a[4], a[5]), (a[5], a[4])):
                if set(L["elem_key"]) <= called_names(x) and strip_all_casts(y).get("decl") == prm and iv in reads(x) and vec in reads(x):
                    pred = True
    ok = whole and step and ret_i and ret_n and pred
    return ok, "index loop lookup: whole range=%s, ++i=%s, returns i on match=%s, returns size() when absent=%s, predicate element-key == id=%s" % (whole, step, ret_i, ret_n, pred)



def _unwrap(x):
    """strip casts, iterator conversions, std::move/forward and copy/move constructions"""
    for _ in range(8):
        x = strip_all_casts(x)
        if x.get("k") == "construct" and len(x.get("args", [])) == 1:
            x = x["args"][0]
            continue
        if x.get("k") == "call" and callee_name(x) in ("std::move", "std::forward") and x.get("args"):
            x = x["args"][0]
            continue
        return x
    return strip_all_casts(x)


def referent(p, e):
    """The object expression e designates on path p: follows reference locals to their initialiser and ?: through the path's decisions
    (a value local is the object itself)."""
    fn = p.fn
    reflocals = {v["decl"]: v.get("init") for n in fn.nodes() if n.get("k") == "decl" for v in n.get("vars", []) if (v.get("t") or {}).get("ref")}
    for _ in range(8):
        x = _unwrap(e)
        if x.get("k") == "cond":
            d = p.decisions.get(x["id"])
            if d is None:
                return x
            e = x["a"] if d == 0 else x["b"]
            continue
        if x.get("k") == "ref" and isinstance(reflocals.get(x.get("decl")), dict):
            e = reflocals[x["decl"]]
            continue
        return x
    return _unwrap(e)


class Positions:
    """Classifies index / iterator / element expressions of one tracked vector as the position the lookup
    found ('found') or the last position ('last'), whatever spelling is used: lookup method or inline
    find_if with the key predicate, begin()+i / std::next, size()-1 / count-1 / std::prev(end()) / back()."""

    def __init__(self, fb, f, vec, look, L, path=None):
        self.fb, self.f, self.vec, self.look, self.L, self.path = fb, f, vec, look, L, path

    def on_path(self, p):
        """the same classifier reading locals and ?: through the decisions of path p"""
        return Positions(self.fb, self.f, self.vec, self.look, self.L, p)

    def finder(self, e):
        """e is (a local holding) the result of a pointer finder of this container: a member function that returns the address of
        the element the lookup found for its first argument, and null exactly when the key is absent; returns the call"""
        x = _unwrap(facts.expand(self.f, e, 4))
        if self.path is not None:
            x = _unwrap(paths.path_value(self.path, x))
        if x.get("k") != "call" or not x.get("args"):
            return None
        g = self.fb.resolve_call(x)
        if g is None or self.look is None or g is self.look or g.rec != self.L["cls"] or g.key == self.f.key:
            return None
        return x if pointer_finder(self.fb, g, self.vec, self.look, self.L) else None

    def on_vec(self, x, names):
        x = _unwrap(facts.expand(self.f, x))
        return x.get("k") == "call" and (x.get("callee") or {}).get("nm") in names and strip_all_casts(x.get("obj", {})).get("field") == self.vec

    def count_like(self, x):
        x = _unwrap(facts.expand(self.f, x))
        return self.on_vec(x, ("size",)) or (x.get("k") == "call" and callee_name(x) == self.L["count"])

    def key_predicate(self, pred):
        """pred (a lambda, possibly through a local) tests `element key == id` with id not derived from the element"""
        pred = _unwrap(facts.expand(self.f, pred))
        lam = [x for x in walk(pred) if x.get("k") == "lambda"]
        if len(lam) != 1:
            return None
        lr = [n for n in walk(lam[0]["body"]) if n.get("k") == "return"]
        if len(lr) != 1:
            return None
        at = facts.conjuncts(lr[0]["e"], True)
        if len(at) != 1 or at[0][0] != "cmp" or at[0][2] != "==":
            return None
        sides = (at[0][4], at[0][5])
        for i in (0, 1):
            if set(self.L["elem_key"]) <= called_names(sides[i]) and \
                    not any(x.get("k") == "ref" and x.get("decl") in {q["decl"] for q in lam[0].get("params", [])} for x in walk(sides[1 - i])):
                return sides[1 - i]  # the id the elements are compared with
        return None

    def index(self, e):
        x = _unwrap(facts.expand(self.f, e, 4))
        if x.get("k") == "call" and self.look is not None and self.fb.resolve_call(x) is self.look:
            return "found"
        if x.get("k") == "call" and callee_name(x) == "std::distance" and len(x.get("args", [])) == 2 and self.on_vec(x["args"][0], ("begin", "cbegin")) and \
                self.iterator(x["args"][1]) == "found":
            return "found"
        if x.get("k") == "bin" and x.get("op") == "-" and const_value(x["r"]) == 1 and self.count_like(x["l"]):
            return "last"
        if x.get("k") == "call" and x.get("op") == "-" and len(x.get("args", [])) + (1 if "obj" in x else 0) == 2:
            # iterator difference `found - begin()`
            ops = ([x["obj"]] if "obj" in x else []) + x.get("args", [])
            if self.on_vec(ops[1], ("begin", "cbegin")) and self.iterator(ops[0]) == "found":
                return "found"
        return None

    def iterator(self, e):
        if self.finder(e) is not None:
            return "found"
        x = _unwrap(facts.expand(self.f, e, 4))
        if x.get("k") != "call":
            return None
        nm = callee_name(x) or ""
        a = x.get("args", [])
        if nm == "std::find_if" and len(a) == 3 and self.on_vec(a[0], ("begin", "cbegin")) and self.on_vec(a[1], ("end", "cend")) and self.key_predicate(a[2]) is not None:
            return "found"
        if nm == "std::next" and len(a) == 2 and self.on_vec(a[0], ("begin", "cbegin")):
            return self.index(a[1])
        if nm == "std::prev" and len(a) in (1, 2) and self.on_vec(a[0], ("end", "cend")) and (len(a) == 1 or const_value(a[1]) == 1):
            return "last"
        if x.get("op") == "+" and len(a) + (1 if "obj" in x else 0) == 2:
            ops = ([x["obj"]] if "obj" in x else []) + a
            if self.on_vec(ops[0], ("begin", "cbegin")):
                return self.index(ops[1])
        if x.get("op") == "-" and len(a) + (1 if "obj" in x else 0) == 2:
            ops = ([x["obj"]] if "obj" in x else []) + a
            if self.on_vec(ops[0], ("end", "cend")) and const_value(ops[1]) == 1:
                return "last"
        return None

    def element(self, e):
        x = _unwrap(e)
        if self.path is not None:
            x = referent(self.path, x)
        if self.finder(x) is not None:
            return "found"  # the pointer a finder returned (p->..., *p)
        if x.get("k") == "ref":
            x = _unwrap(facts.expand(self.f, x, 2))
        if x.get("k") == "call":
            nm = (x.get("callee") or {}).get("nm")
            if nm == "operator[]" and strip_all_casts(x.get("obj", {})).get("field") == self.vec and x.get("args"):
                return self.index(x["args"][0])
            if nm == "at" and strip_all_casts(x.get("obj", {})).get("field") == self.vec and x.get("args"):
                return self.index(x["args"][0])
            if nm == "back" and strip_all_casts(x.get("obj", {})).get("field") == self.vec:
                return "last"
            if nm in ("operator*", "operator->") and "obj" in x:
                return self.iterator(x["obj"])
        if x.get("k") == "un" and x.get("op") == "*":
            return self.iterator(x["e"])
        return None

    def found_guard(self, fs, present=True):
        """a live fact says the key is present (found index != / < count, found iterator != end()) or, with present=False, absent"""
        ops = ("!=", "<") if present else ("==", ">=")
        for a in fs:
            if a[0] == "truth" and a[2] == present and self.finder(a[3]) is not None:
                return True  # if (T* p = find(id)) / if (!p)
            if a[0] != "cmp":
                continue
            for x, y, o in ((a[4], a[5], a[2]), (a[5], a[4], a[2])):
                if o == ("!=" if present else "==") and paths.is_null_value(y) and self.finder(x) is not None:
                    return True
            for x, y, o in ((a[4], a[5], a[2]), (a[5], a[4], facts._flip_op(a[2]))):
                if o not in ops:
                    continue
                if self.index(x) == "found" and self.count_like(y):
                    return True
                if o in ("!=", "==") and self.iterator(x) == "found" and self.on_vec(facts.expand(self.f, y), ("end", "cend")):
                    return True
        return False

_FINDERS = {}


def pointer_finder(fb, g, vec, look, L):
    """g returns a pointer into vec: on every path either null under 'lookup(first parameter) == count' or the address of
    the element at the found index under 'lookup != count'."""
    key = (id(fb), g.key, vec)
    if key in _FINDERS:
        return _FINDERS[key]
    _FINDERS[key] = False
    ok = bool(g.params) and bool(g.cfg_raw) and (g.raw.get("rett") or {}).get("k") == "ptr" and (g.raw.get("rett") or {}).get("prec") == L["elem"]
    rows = 0
    lk = [c for c in g.calls() if fb.resolve_call(c) is look]
    ok = ok and len(lk) == 1 and strip_all_casts(lk[0]["args"][0]).get("decl") == g.params[0]["decl"]
    if ok:
        pos = Positions(fb, g, vec, look, L)
        for p in paths.enumerate_paths(g):
            r = p.returns()
            if r is None or r.get("e") is None:
                ok = False
                break
            v = _unwrap(paths.path_value(p, r["e"]))
            rows += 1
            if paths.is_null_value(v):
                ok = ok and pos.found_guard(p.atoms, present=False)
            elif v.get("k") == "un" and v.get("op") == "&":
                ok = ok and pos.on_path(p).element(v["e"]) == "found" and pos.found_guard(p.atoms, present=True)
            else:
                ok = False
    _FINDERS[key] = bool(ok and rows >= 2)
    return _FINDERS[key]


def type_guard(facts_list, kind_value, pol=True, fn=None):
    for a in facts_list:
        if a[0] == "cmp" and fn is not None:
            a = ("cmp", facts.xcanon(fn, a[4]), a[2], facts.xcanon(fn, a[5]), facts.expand(fn, a[4]), facts.expand(fn, a[5]))
        if a[0] == "cmp" and a[2] == ("==" if pol else "!="):
            if (const_value(a[5]) == kind_value and "getType" in a[1]) or (const_value(a[4]) == kind_value and "getType" in a[3]):
                return a
            # PayloadType compared through its converting constructor: constant appears inside a construct
            for side, other in ((a[4], a[5]), (a[5], a[4])):
                if "getType" in canon(side) and any(const_value(x) == kind_value for x in walk(other)):
                    return a
    return None


def run(ctx):
    fb = ctx.fb()
    res = Result("C16")
    res.rule("C16-R1", "key agreement: the key looked up on update, the key the stored element answers to and the key of the by-id lookups are "
                        "the same getter over the same packet")
    res.rule("C16-R2", "uniqueness preserved: the only growth of each vector is a push_back guarded by 'lookup returned the element count'; the "
                        "only shrink is pop_back guarded by 'found' after swapping [index] with [size-1], or clear(); no other writer")
    res.rule("C16-R3", "creation only by the right kind: the device push_back is guarded by payload type == cmStatMsg; DeviceStatus::update writes "
                        "the device packet only under cmStatMsg and updates interfaces only under ifStatMsg")
    res.rule("C16-R4", "found => replaced: on the found branch the element at the found index receives update(packet); InterfaceStatus::update "
                        "assigns packet and id unconditionally")
    res.rule("C16-R5", "lookup contract: getIndexBy* return std::distance(begin, find_if(begin, end, predicate on the element's key == id))")
    res.not_decided += ["equality with the reference map after every operation sequence (history property): only the inductive invariant",
                        "'holding the latest packet' as byte equality goes through Packet::operator= (C14-R6)"]
    pt = {e: v for e, v in (("cmStatMsg", 0x0301), ("ifStatMsg", 0x0302))}
    for L in LEVELS:
        vec = vec_member(fb, L["cls"], L["elem"])
        short = L["cls"].split("::")[-1]
        upd = fb.fn(L["update"])
        look = fb.fn(L["lookup"])
        rem = fb.fn(L["remove"])
        # ---- R1 key width: the by-id entry points take the id at the width the key has on the wire (a narrower parameter folds ids that
        # differ in the upper bits onto one entry: the wrong element is found or removed)
        kg = fb.fn_opt(L["key_call"])
        kbits = ((kg.raw.get("rett") or {}).get("bits") if kg is not None else None) or L["bits"]
        for role, g0 in (("lookup", look), ("remove", rem)):
            pt0 = (g0.params[0]["t"] if g0.params else {})
            res.check(pt0.get("k") == "int" and (pt0.get("bits") or 0) >= kbits and not pt0.get("sg"), "C16-R1", "%s:%s-id-width" % (short, role), g0.loc,
                      "%s takes the id as an unsigned %d-bit value (key: %d bits)" % (g0.name.split("::")[-1], pt0.get("bits") or 0, kbits),
                      "%s takes the id as `%s` while the key has %d bits: ids that differ only in the upper bits name the same entry" %
                      (g0.name, pt0.get("s"), kbits))
        # ---- R5 lookup contract
        rets = look.returns()
        fi = [c for c in look.calls("std::find_if")]
        okc = len(rets) == 1 and callee_name(strip_all_casts(rets[0]["e"])) == "std::distance" and len(fi) == 1
        pred_ok = False
        if fi:
            lam = [x for x in walk(fi[0]) if x.get("k") == "lambda"]
            a = fi[0].get("args", [])
            def whole(x, nm):
                x = strip_all_casts(x)
                while x.get("k") == "construct" and len(x.get("args", [])) == 1:
                    x = strip_all_casts(x["args"][0])
                return x.get("k") == "call" and (x.get("callee") or {}).get("nm") in (nm, "c" + nm) and not x.get("args") and \
                    strip_all_casts(x.get("obj", {})).get("field") == vec
            rng = len(a) == 3 and whole(a[0], "begin") and whole(a[1], "end")
            d0 = strip_all_casts(rets[0]["e"]) if rets else {}
            rng = rng and d0.get("k") == "call" and len(d0.get("args", [])) == 2 and whole(d0["args"][0], "begin")
            if lam and rng:
                lr = [n for n in walk(lam[0]["body"]) if n.get("k") == "return"]
                if len(lr) == 1:
                    at = facts.conjuncts(lr[0]["e"], True)
                    if len(at) == 1 and at[0][0] == "cmp" and at[0][2] == "==":
                        sides = (at[0][4], at[0][5])
                        calls = [called_names(s) for s in sides]
                        prm = look.params[0]["decl"]
                        for i in (0, 1):
                            if set(L["elem_key"]) <= calls[i] and prm in reads(sides[1 - i]) and not called_names(sides[1 - i]):
                                pred_ok = True
        bs = [c for c in look.calls() if callee_name(c) in ("std::lower_bound", "std::upper_bound", "std::binary_search", "std::equal_range")]
        if bs:
            # third idiom: binary search — sound only if every mutation keeps the vector ordered by the key
            sorted_ok = True
            why_s = ""
            for f2 in fb.all_functions():
                if f2.rec != L["cls"]:
                    continue
                for d2, kind2, n2 in writes_of(f2):
                    if d2 != vec or not (isinstance(n2, dict) and n2.get("k") == "call" and strip_all_casts(n2.get("obj", {})).get("field") == vec):
                        continue
                    if kind2 in ("call:push_back", "call:emplace_back", "call:pop_back", "call:swap"):
                        sorted_ok = False
                        why_s = "%s in %s" % (kind2.split(":")[-1], f2.name.split("::")[-1])
                    if kind2 == "call:insert":
                        pos = n2["args"][0] if n2.get("args") else {}
                        if not (depends(f2, pos)[1] & {"std::lower_bound", "std::upper_bound"}):
                            sorted_ok = False
                            why_s = "insert at an unsearched position in %s" % f2.name.split("::")[-1]
                for c2 in f2.calls("std::swap"):
                    if vec in depends(f2, c2)[0]:
                        sorted_ok = False
                        why_s = "element swap in %s" % f2.name.split("::")[-1]
            res.check(sorted_ok, "C16-R5", "%s:lookup" % short, look.loc, "binary search over a vector every mutation keeps ordered",
                      "%s searches %s with %s, but %s does not keep the vector ordered by id: present entries are missed and duplicated" %
                      (look.name, vec.split("::")[-1], callee_name(bs[0]), why_s))
            # the writer rules below assume the linear-search design
            continue
        if not fi:
            # accepted second idiom: index loop `for (i = 0; i < v.size(); ++i) if (key(v[i]) == id) return i; return v.size();`
            ok2, why2 = index_loop_lookup(fb, look, vec, L)
            if ok2 is None:
                raise Broken("%s: lookup is neither find_if/distance nor an index loop; re-derive C16-R5" % look.name)
            res.check(ok2, "C16-R5", "%s:lookup" % short, look.loc, "index loop over the whole vector returning the first match, else the count", why2)
        else:
            if not (okc and pred_ok) and len(rets) == 1 and len(fi) == 1:
                # the same search spelled with named iterators / an iterator difference
                posl = Positions(fb, look, vec, None, L)
                idn = posl.key_predicate(fi[0]["args"][2]) if len(fi[0].get("args", [])) == 3 else None
                if posl.index(rets[0]["e"]) == "found" and idn is not None and look.params[0]["decl"] in reads(facts.expand(look, idn)) and \
                        not called_names(facts.expand(look, idn)):
                    okc = pred_ok = True
            res.check(okc and pred_ok, "C16-R5", "%s:lookup" % short, look.loc, "distance(begin, find_if(begin, end, element key == id)) over the whole vector",
                      "%s is not `distance(begin, find_if(begin, end, element-key == id))` (whole range=%s)" % (look.name, okc))
        # ---- R1 key agreement on update
        posu = Positions(fb, upd, vec, look, L)
        lk = [c for c in upd.calls() if fb.resolve_call(c) is look]
        fiu = [c for c in upd.calls("std::find_if") if posu.iterator(c) == "found"]
        fk = [c for c in upd.calls() if posu.finder(c) is not None]
        if not lk and len(fk) == 1:
            lk = fk  # the lookup runs inside a pointer finder that passes its first argument on
        if lk:
            keyexpr = lk[0]["args"][0]
        elif fiu:
            # inline search: the id the predicate compares the elements with
            keyexpr = posu.key_predicate(fiu[0]["args"][2]) or {}
        else:
            keyexpr = {}
        ok1 = (len(lk) == 1 or len(fiu) == 1) and L["key_call"] in depends(upd, keyexpr)[1] and upd.params[0]["decl"] in depends(upd, keyexpr)[0]
        if not ok1 and (len(lk) == 1 or len(fiu) == 1) and isinstance(keyexpr, dict) and len(upd.params) > 1:
            # the key is handed in: a parameter of the updater that every call site fills from the key getter of the packet it passes along
            kx = strip_all_casts(facts.expand(upd, keyexpr))
            pd = [q["decl"] for q in upd.params]
            if kx.get("k") == "ref" and kx.get("dk") == "param" and kx.get("decl") in pd[1:]:
                i = pd.index(kx["decl"])
                sites = [(h, facts.effective_call(c)) for h in fb.all_functions() if h.body is not None for c in h.calls() if fb.resolve_call(c) is upd]

                def from_same_packet(h, c):
                    a = c.get("args", [])
                    if len(a) <= i:
                        return False
                    d0, _ = depends(h, a[0])
                    di, ci = depends(h, a[i])
                    return L["key_call"] in ci and bool(d0) and set(d0) <= set(di)
                ok1 = bool(sites) and all(from_same_packet(h, c) for h, c in sites)
        res.check(ok1, "C16-R1", "%s:update-key" % short, (lk or fiu or [upd])[0].get("loc") if (lk or fiu) else upd.loc,
                  "update looks up %s of the packet" % L["key_call"].split("::")[-1],
                  "update does not look the element up by %s of the packet being applied" % L["key_call"])
        # ---- R2 writers
        ws = []
        for f in fb.all_functions():
            if f.rec == L["cls"]:
                for d, kind, n in writes_of(f):
                    if d == vec and isinstance(n, dict) and n.get("k") == "call" and strip_all_casts(n.get("obj", {})).get("field") == vec:
                        ws.append((f, kind, n))
        idxvar = None
        mf = MustFacts(upd)
        for f, kind, n in ws:
            key = "%s:%s:%s" % (short, f.name.split("::")[-1], kind)
            if kind == "call:push_back":
                fs = paths.facts_at(f, n)
                # guarded by "key absent": found index == count / found iterator == end()
                g = True if Positions(fb, f, vec, look, L).found_guard(fs, present=False) else None
                res.check(g is not None and f is upd, "C16-R2", key, n.get("loc"), "push_back only when the lookup returned the element count (key absent)",
                          "push_back onto %s is not guarded by 'lookup == count': duplicate entries for one id become possible" % vec.split("::")[-1])
                tg = type_guard(fs, pt[L["kind"]], fn=f) if L["kind"] == "cmStatMsg" else True
                if L["kind"] == "cmStatMsg":
                    res.check(tg is not None, "C16-R3", "%s:create-kind" % short, n.get("loc"), "device entry created only for a capture-module status message",
                              "a device entry is created for packets that are not capture-module status messages")
                # the pushed element was updated with the same packet
                pushed = {x["decl"] for x in walk(n["args"][0]) if x.get("k") == "ref" and x.get("dk") == "local"}
                cfgf = f.cfg
                upd_before = any((callee_name(c2) or "") == L["elem"] + "::update" and "obj" in c2 and strip_all_casts(c2["obj"]).get("decl") in pushed and
                                 strip_all_casts(c2["args"][0]).get("decl") == f.params[0]["decl"] and cfgf.block_for(c2) == cfgf.block_for(n) and
                                 cfgf.pos_of[c2["id"]] < cfgf.pos_of[n["id"]] for c2 in f.calls())
                if not upd_before and pushed and not paths.loop_header(f):
                    # the update may go through a reference chosen earlier (`T& target = known ? v[i] : fresh; target.update(packet)`):
                    # on every feasible path that stores the new element, it received update(packet) first
                    thru = paths.paths_through(f, n)
                    def updated_on(p):
                        for _, c2 in p.elems():
                            if c2["id"] == n["id"]:
                                return False
                            if c2.get("k") == "call" and (callee_name(c2) or "") == L["elem"] + "::update" and "obj" in c2 and c2.get("args") and \
                                    strip_all_casts(c2["args"][0]).get("decl") == f.params[0]["decl"] and \
                                    referent(p, c2["obj"]).get("decl") in pushed:
                                return True
                        return False
                    upd_before = bool(thru) and all(updated_on(p) for p in thru)
                res.check(upd_before, "C16-R4", "%s:new-element-updated" % short, n.get("loc"),
                          "new element receives update(packet) before it is stored", "new element is stored without update(packet)")
            elif kind in ("call:pop_back", "call:erase"):
                pos = Positions(fb, f, vec, look, L)
                fs = paths.facts_at(f, n)
                g = pos.found_guard(fs, present=True)
                cfg = f.cfg

                def before(x):
                    return (cfg.block_for(x) == cfg.block_for(n) and cfg.pos_of[x["id"]] < cfg.pos_of[n["id"]]) or \
                        (cfg.block_for(x) != cfg.block_for(n) and cfg.dominates(cfg.block_for(x), cfg.block_for(n)))
                # what was moved into the found slot before the last slot is dropped
                moved = False
                how = ""
                for c in f.calls():
                    nmc = callee_name(c) or ""
                    if nmc in ("std::swap", "std::iter_swap") and len(c.get("args", [])) == 2 and before(c):
                        kinds = {(pos.element(a) if nmc == "std::swap" else pos.iterator(a)) for a in c["args"]}
                        if kinds == {"found", "last"}:
                            moved, how = True, "found and last element swapped"
                    if c.get("op") == "=" and "obj" in c and c.get("args") and pos.element(c["obj"]) == "found" and pos.element(c["args"][0]) == "last":
                        # found slot overwritten by the last element: on every path, or skipped exactly when found is the last slot
                        cb = cfg.block_for(c)
                        if before(c):
                            moved, how = True, "last element moved into the found slot"
                        else:
                            fsx = MustFacts(f).at(c)
                            skip_only_self = any(a[0] == "cmp" and a[2] == "!=" and {pos.index(a[4]), pos.index(a[5])} == {"found", "last"} for a in fsx)
                            if skip_only_self and cfg.dominates(cfg.block_for(c), cfg.block_for(c)):
                                moved, how = True, "last element moved into the found slot unless the found slot is the last"
                if kind == "call:pop_back":
                    res.check(g and f is rem and moved, "C16-R2", key, n.get("loc"), "pop_back only when found, after the %s" % (how or "swap"),
                              "pop_back on %s without 'found' guard (%s) or without first bringing the last element into the found slot (%s)" %
                              (vec.split("::")[-1], g, moved))
                else:
                    arg = n["args"][0] if n.get("args") else {}
                    what = pos.iterator(arg)
                    ok_e = len(n.get("args", [])) == 1 and (what == "found" or (what == "last" and moved))
                    res.check(g and ok_e and f is rem, "C16-R2", key, n.get("loc"),
                              "erase of the found element only when found" if what == "found" else "erase of the last slot after the %s" % how,
                              "erase on %s is not the removal of the found element under a 'found' guard (guard %s, erased position %s)" % (vec.split("::")[-1], g, what))
            elif kind == "call:clear":
                res.ok("C16-R2", key, n.get("loc"), "clear()")
            elif kind == "call:operator[]":
                continue
            else:
                res.bad("C16-R2", key, n.get("loc"), "%s is modified by %s in %s: not one of push_back-if-absent / swap-and-pop / clear" % (vec.split("::")[-1], kind, f.name))
        # removal removes: the by-id removal shrinks the vector
        if not any(f is rem and kind in ("call:pop_back", "call:erase") for f, kind, n in ws):
            res.bad("C16-R2", "%s:%s:removes" % (short, rem.name.split("::")[-1]), rem.loc,
                    "%s never shrinks %s: a removed id stays tracked (or, after the swap, is duplicated)" % (rem.name, vec.split("::")[-1]))
        if not any(f is upd and kind in ("call:push_back", "call:emplace_back") for f, kind, n in ws):
            res.bad("C16-R2", "%s:%s:creates" % (short, upd.name.split("::")[-1]), upd.loc,
                    "%s never appends to %s: messages of unknown ids are dropped instead of being tracked" % (upd.name, vec.split("::")[-1]))
        # ---- R1b every element access uses an index computed by this call's lookup (or size()-1 inside the removal swap)
        for f in fb.all_functions():
            if f.rec != L["cls"] or f.raw.get("const"):
                continue
            for c in f.calls():
                if (c.get("callee") or {}).get("nm") == "operator[]" and strip_all_casts(c.get("obj", {})).get("field") == vec and c.get("args"):
                    idx = c["args"][0]
                    d, calls = depends(f, idx)
                    pk = Positions(fb, f, vec, look, L).index(idx)
                    from_lookup = look.name in calls or pk == "found"
                    last = ("size" in canon(idx) and vec.split("::")[-1] in canon(idx)) or pk == "last"
                    is_param = any(strip_all_casts(idx).get("decl") == p["decl"] for p in f.params)
                    member_dep = sorted(x for x in d if x.startswith(L["cls"] + "::") and x != vec)
                    res.check((from_lookup or last or is_param) and not member_dep, "C16-R1", "%s:%s:index" % (short, f.name.split("::")[-1]), c.get("loc"),
                              "element index comes from this call's lookup" if from_lookup else "index is size()-1 / the caller's index",
                              "%s accesses %s[%s] with an index that does not come from a lookup in this call%s: after a removal the slot may hold another "
                              "id's entry" % (f.name, vec.split("::")[-1], canon(idx)[:60], (" (depends on member %s)" % member_dep) if member_dep else ""))
        # ---- R4 found => replaced
        ups = [c for c in upd.calls() if (callee_name(c) or "") == L["elem"] + "::update" and "obj" in c]
        found_ok = False
        for c in ups:
            if posu.element(c["obj"]) == "found":
                g = posu.found_guard(MustFacts(upd).at(c), present=True)
                same_pkt = strip_all_casts(c["args"][0]).get("decl") == upd.params[0]["decl"]
                found_ok = found_ok or (g and same_pkt)
        if not found_ok and not paths.loop_header(upd):
            # path form: every feasible path on which the key is known to be present applies update(packet) to the found element
            present_paths = [p for p in paths.enumerate_paths(upd) if p.end == "exit" and posu.found_guard(p.atoms, present=True)]
            def replaced_on(p):
                pp = posu.on_path(p)
                return any(c.get("k") == "call" and (callee_name(c) or "") == L["elem"] + "::update" and "obj" in c and c.get("args") and
                           strip_all_casts(c["args"][0]).get("decl") == upd.params[0]["decl"] and pp.element(c["obj"]) == "found" for _, c in p.elems())
            found_ok = bool(present_paths) and all(replaced_on(p) for p in present_paths)
        res.check(found_ok, "C16-R4", "%s:found-updated" % short, upd.loc, "found: element [found index] receives update(packet)",
                  "on the found branch the element at the found index is not updated with the packet")
    # ---- DeviceStatus::update dispatch, InterfaceStatus::update
    du = fb.fn(NS + "DeviceStatus::update")
    mf = MustFacts(du)
    for d, kind, n in writes_of(du):
        if d == NS + "DeviceStatus::devicePacket" or (isinstance(n, dict) and n.get("k") == "call" and n.get("op") == "=" and d.startswith(NS + "DeviceStatus::")):
            res.check(type_guard(mf.at(n), 0x0301, fn=du) is not None, "C16-R3", "DeviceStatus::update:device-packet", n.get("loc"),
                      "device packet replaced only by a capture-module status message", "device packet is overwritten by messages of another kind")
    stored = [n for d, kind, n in writes_of(du) if d == NS + "DeviceStatus::devicePacket" or
              (isinstance(n, dict) and n.get("k") == "call" and n.get("op") == "=" and d.startswith(NS + "DeviceStatus::") and "acket" in d)]
    res.check(bool(stored), "C16-R3", "DeviceStatus::update:stores-device-packet", du.loc, "a capture-module status message replaces the stored device packet",
              "DeviceStatus::update never stores the packet it is given: the tracker keeps the device's first (or a default) capture-module status forever")
    if not list(du.calls(NS + "DeviceStatus::updateInterfaces")):
        res.bad("C16-R3", "DeviceStatus::update:updates-interfaces", du.loc, "DeviceStatus::update never updates the interface entries: interface status "
                "messages are dropped")
    for c in du.calls(NS + "DeviceStatus::updateInterfaces"):
        res.check(type_guard(mf.at(c), 0x0302, fn=du) is not None, "C16-R3", "DeviceStatus::update:interfaces", c.get("loc"),
                  "interfaces updated only by an interface status message", "interface entries are updated by messages of another kind")
    wr = [(d, k) for d, k, n in writes_of(du)]
    iu = fb.fn(NS + "InterfaceStatus::update")
    cfg = iu.cfg
    uncond = not any(cfg.is_cond_branch(b) for b in cfg.blocks)
    w = {d for d, k, n in writes_of(iu)}
    idw = [n for d, k, n in writes_of(iu) if d == NS + "InterfaceStatus::interfaceId"]
    okid = bool(idw) and NS + "InterfacePayload::getInterfaceId" in called_names(idw[0])
    res.check(uncond and {NS + "InterfaceStatus::interfaceId", NS + "InterfaceStatus::interfacePacket"} <= w and okid, "C16-R4", "InterfaceStatus::update", iu.loc,
              "assigns packet and id (from the payload's getInterfaceId) unconditionally", "InterfaceStatus::update does not assign both packet and id unconditionally")
    # the id member is written nowhere else
    others = [f.name for f in fb.all_functions() for d, k, n in writes_of(f) if d == NS + "InterfaceStatus::interfaceId" and f is not iu]
    res.check(not others, "C16-R1", "InterfaceStatus::interfaceId:writers", iu.loc, "stored id is written only from the payload getter in update()",
              "stored interface id is also written by %s" % others)
    gid = fb.fn(NS + "InterfaceStatus::getInterfaceId")
    rets = [n for n in gid.nodes() if n.get("k") == "return"]
    res.check(len(rets) == 1 and strip_all_casts(rets[0]["e"]).get("field") == NS + "InterfaceStatus::interfaceId", "C16-R1", "InterfaceStatus::getInterfaceId", gid.loc,
              "returns the stored id", "getInterfaceId does not return the stored id")
    # the key extractors themselves: the tracker files a message under whatever these two getters report, so each must report the
    # message's own id for every message the tracker accepts (engine and layout oracle of C12; a getter that answers differently
    # for some valid payloads files those messages under another key)
    from cmpverif import accessors
    obs, ast = accessors.analyse(fb, ctx.spec("layout.json"), scope=lambda cls, stem: (cls, stem) in ((NS + "InterfacePayload", "InterfaceId"), (NS + "Packet", "DeviceId")))
    kx = [o for o in obs if o.key in (NS + "InterfacePayload::getInterfaceId", NS + "Packet::getDeviceId", NS + "Packet::DeviceId",
                                      NS + "InterfacePayload::Header::getInterfaceId")]
    for o in kx:
        res.check(o.ok, "C16-R1", "key-extractor:" + o.key, o.loc, o.detail)
    accessors.require_supported(ast)
    if len(kx) < 3:
        raise Broken("C16-R1: key extractor obligations not found (%d)" % len(kx))
    # 'holding the latest packet': the entries receive the packet through Packet's copy operations (DeviceStatus / InterfaceStatus assign
    # it, the vectors copy and move it), so an entry holds the latest message only if those copy every member on every path (C14-R1/R2/R6)
    from rules import c14
    k14 = 0
    for o in c14.run(ctx).obligations:
        if o["rule"] in ("C14-R1", "C14-R2", "C14-R6") and (o["key"].startswith(("Packet::operator=", "Packet(const Packet&)", "swap(Packet&,Packet&)", "Packet:")) or
                                                              o["key"].startswith("ASAM::CMP::Packet::")):
            res.check(o["ok"], "C16-R4", "stored-by-value:" + o["key"], o["loc"], o["detail"], o["detail"])
            k14 += 1
    if k14 < 6:
        raise Broken("C16-R4: Packet copy obligations of C14 not found (%d)" % k14)
    res.floor("C16-R1", 7)
    res.floor("C16-R2", 5)
    res.floor("C16-R3", 3)
    res.floor("C16-R4", 5)
    res.floor("C16-R5", 2)
    return res
