"""C01 — Encode then decode returns the original packets (structural necessary conditions)."""
from cmpverif.report import Result
from rules import encoder_rules as E
from rules import decoder_rules as D

LEVEL = "other"


def run(ctx):
    fb = ctx.fb()
    res = Result("C01")
    m = E.EncoderModel(fb)
    res.rule("C01-R1", "segment source advances: in the segmentation loop every copy from the packet's raw payload has a source that depends on a "
                        "variable the loop modifies")
    res.rule("C01-R2", "header writer/reader tables agree: Packet::getRawMessageHeader and the Packet(msgType,data,size) constructor choose the "
                        "same id field per message type (data: interface id; status/vendor: vendor id) and pair up on timestamp, flags, payload type, length")
    res.rule("C01-R3", "one length, all uses: the value given to setPayloadLength, the copy length and the movement of payload position and "
                        "free-byte count are the same variable")
    res.rule("C01-R4", "decoder side: the reassembler appends under exactly the protocol's conditions and rejects a well-formed continuation for no "
                        "other reason (C05-R5/R7), and copies each segment's declared length only (C05-R4)")
    res.rule("C01-R5", "every message the encoder starts it also finishes: a packet is marked segmented exactly when it does not fit an empty frame "
                        "(C08-R4: decided against a freshly opened frame, at the exact boundary `free < 16 + payload length`), and the flag table gives "
                        "first/intermediary/last by position (C08-R1) — otherwise a packet that fits exactly goes out as a lone first segment that no "
                        "decoder ever completes")
    res.rule("C01-R6", "the decoder accepts what the encoder sends: the payload validators reject exactly the protocol's error conditions (C04-R3: CAN / "
                        "CAN-FD error flags and error position, Ethernet error bits, tested at their wire positions) — a validator that also tests an "
                        "informational bit (BRS, ESI, …) turns well-formed packets into invalid ones on the way back")
    res.rule("C01-R7", "tagged with the encoder's ids, version and message type of the batch: wherever a packet's raw CMP header enters the frame template "
                        "(or a frame), device id and stream id are overridden from the encoder's members afterwards, the raw header carries the packet's "
                        "version and message type on every path, every frame is a copy of the template, and changing an id invalidates the template (C09-R3)")
    res.rule("C01-R8", "header fields survive the trip: for every field of CmpHeader and MessageHeader the getter returns what the setter stored, for all "
                        "values (G4, shared with C11-R2), and the message type is handed through whether or not the API names it")
    res.not_decided += ["byte equality of decoded and original packets over all batches x frame sizes (run-time values)",
                        "mixed batches (C08-R3), layout premises (C12), decoder premises (C04/C05)"]
    n1 = E.rule_segment_source_advances(res, "C01-R1", m)
    E.rule_header_tables_agree(res, "C01-R2", m)
    E.rule_one_length(res, "C01-R3", m)
    E.rule_header_fully_stamped(res, "C01-R3", m)
    E.rule_fit_decided_on_fresh_frame(res, "C01-R5", m)
    E.rule_flag_table(res, "C01-R5", m)
    E.rule_writes_inside_frame(res, "C01-R5", m)  # chunk = min(free - 16, remaining) at full width: a packet that fits is not cut in pieces
    res.floor("C01-R5", 6)
    E.rule_identity(res, "C01-R7", m, identity_only=True)
    res.floor("C01-R7", 6)
    dm = D.DecodeModel(fb)
    D.rule_accept_guard(res, "C01-R4", dm)
    D.rule_reject_reasons(res, "C01-R4", dm)
    D.rule_declared_length(res, "C01-R4", dm)
    D.rule_segment_ends_walk(res, "C01-R4", dm)
    D.rule_segment_plumbing(res, "C01-R4", dm)
    D.rule_loop_typestate(res, "C01-R4", dm)  # each segment case does its part on the endpoint's entry: a first segment opens a fresh one, delivery releases it
    D.rule_first_restart(res, "C01-R4", dm)
    D.rule_deliver_release(res, "C01-R4", dm)  # the reassembled packet is built from the stored type / buffer and is given the stored version (C05-R6, shared)
    from rules import c04
    for o in c04.run(ctx).obligations:
        if (o["rule"] == "C04-R3" and o["key"].startswith(("error-bits", "invalid-only-for-protocol-reasons", "defined-values-accepted"))) or \
                (o["rule"] == "C04-R6" and o["key"].startswith("Payload(")):  # (the decoded payload object holds the message's own bytes)
            res.check(o["ok"], "C01-R6", o["key"], o["loc"], o["detail"], o["detail"])
    # every complete message is accepted: the message validator rejects for the protocol's reasons only — the error-in-payload bit and nothing
    # else of the common flags (C03-R4 / C04-R4, shared)
    from rules import c03 as _c03
    _c03.rule_message_validator_exact(fb, res, "C01-R6", "message-validator:")
    res.floor("C01-R6", 2)
    # what the encoder writes into the two headers, the decoder reads back: get(set(v)) == v for every field of the frame header and the
    # message header and for every value — message types the API does not name included (a generic message of type 0x04 comes back as 0x04)
    from cmpverif import accessors
    obs, ast = accessors.analyse(fb, ctx.spec("layout.json"), scope=lambda cls, stem: cls in ("ASAM::CMP::CmpHeader", "ASAM::CMP::MessageHeader"))
    for o in obs:
        if o.cls in ("ASAM::CMP::CmpHeader", "ASAM::CMP::MessageHeader") and (o.tag == "readback" or o.key.endswith("[open]")):
            res.check(o.ok, "C01-R8", o.key, o.loc, o.detail)
    accessors.require_supported(ast)
    res.floor("C01-R8", 12)
    # the frames arrive numbered the way the reassembler expects them: each frame takes the previous counter + 1 modulo 2^16 (no value skipped or
    # repeated), else the segments of a message that straddles the irregular step are rejected and the message is never delivered (C09-R1/R2)
    res.rule("C01-R9", "consecutive frame counters: every pushed frame is stamped with the pre-incremented 16-bit counter, whose only writers are that "
                        "increment and the resets (shared with C09-R1/R2) — the decoder accepts a continuation only at counter + 1 mod 2^16")
    E.rule_counter_writers(res, "C01-R9", m, reported=False)
    E.rule_frame_stamped(res, "C01-R9", m)
    res.floor("C01-R9", 3)
    res.floor("C01-R1", 1, n1)
    res.floor("C01-R4", 25)
    res.floor("C01-R2", 9)
    res.floor("C01-R3", 4)
    return res
