"""C06 — Loss, duplication or reordering never yields a corrupted packet (structural clauses)."""
from cmpverif.report import Result
from rules import decoder_rules as D

LEVEL = "other"


def run(ctx):
    fb = ctx.fb()
    res = Result("C06")
    m = D.DecodeModel(fb)
    res.rule("C06-R1", "nothing is appended unless version, message type, counter (exact modulo 2^16) and segment-type transition all match")
    res.rule("C06-R2", "reject paths are pure: no member of the entry is written before the last `return false` of addSegment")
    res.rule("C06-R3", "a first segment restarts unconditionally: the entry is overwritten by a freshly constructed SegmentedPacket, the old entry is not read")
    res.rule("C06-R4", "a rejected continuation or an invalid message discards the open message (erase); an unsegmented valid message is always delivered")
    res.rule("C06-R5", "fragments of another endpoint cannot enter: every table access is keyed by this frame's {device id, stream id} and the key "
                        "relation separates exactly the endpoints (C05-R1/R2)")
    res.rule("C06-R6", "the stream's own numbering makes the counter test meaningful: within one encoder stream the sequence counter only advances by 1 "
                        "per frame and is never reassigned on a path from encode() (C09-R1), so within fewer than 65536 frames no two frames carry the "
                        "same counter and a continuation cannot fit behind another message's first segment")
    res.not_decided += ["byte identity of everything delivered under every fault sequence; recovery as a liveness statement"]
    D.rule_segtype_subject(res, "C06-R4", m)
    D.rule_classifier_reads_type_only(res, "C06-R4", m)
    D.rule_accept_guard(res, "C06-R1", m)
    D.rule_modular_successor(res, "C06-R1", m)
    D.rule_segment_plumbing(res, "C06-R1", m)
    D.rule_segment_ends_walk(res, "C06-R2", m)
    D.rule_reject_pure(res, "C06-R2", m)
    D.rule_first_restart(res, "C06-R3", m)
    D.rule_keyed_access(res, "C06-R5", m)
    D.rule_key_equality(res, "C06-R5", m)
    D.rule_loop_typestate(res, "C06-R4", m)
    D.rule_unsegmented_delivered(res, "C06-R4", m)
    # a frame that cannot be parsed discards the open message only if it is walked at all: decode leaves early for nothing but
    # 'no frame header' / TECMP (a runt frame skipped at the door lets the next continuation complete the aborted message)
    D.rule_entry_classification(res, "C06-R4", m, parts=("early-returns",))
    D.rule_header_reads(res, "C06-R1", ctx, fb)  # the fields the accept guard compares are the wire's (shared with C05-R11 / C12-R1)
    from rules import encoder_rules as E
    em = E.EncoderModel(fb)
    E.rule_counter_writers(res, "C06-R6", em, reported=False)
    E.rule_counter_survives_encode(res, "C06-R6", em)
    # ... and its own segment marks make the transition test meaningful: each message header the encoder writes carries exactly the segment type
    # the flag table decided (C08-R1/R6) — a mark composed onto whatever the packet's flags held turns an intermediary segment into a `last`
    # and the decoder delivers a message with a hole
    res.rule("C06-R7", "the stream's segment marks are the protocol's: flag table of the builder and the stamping of every message header (C08-R1 / C08-R6, shared)")
    E.rule_flag_table(res, "C06-R7", em)
    E.rule_header_fully_stamped(res, "C06-R7", em)
    res.floor("C06-R7", 4)
    res.floor("C06-R6", 6)
    res.floor("C06-R1", 20)
    res.floor("C06-R2", 4)
    res.floor("C06-R3", 1)
    res.floor("C06-R4", 7)
    res.floor("C06-R5", 7)
    return res
