"""C09 — Frame headers carry consecutive sequence counters and the encoder's identity."""
from cmpverif import accessors
from cmpverif.report import Result
from rules import encoder_rules as E

LEVEL = "other"


def run(ctx):
    fb = ctx.fb()
    res = Result("C09")
    m = E.EncoderModel(fb)
    res.rule("C09-R1", "who may write the sequence counter: only a pre-increment in the frame opener and resets to 0; it is a uint16_t (wraps "
                        "modulo 65536 by type); getSequenceCounter returns the member")
    res.rule("C09-R2", "every frame is stamped: each push onto the frame list is the template and is followed on every path by "
                        "CmpHeader::setSequenceCounter(++counter) on the pushed frame")
    res.rule("C09-R3", "identity: the template's device id and stream id are the encoder's members, written after the raw header copy; every "
                        "writer of those members invalidates the cached template and resets the counter on every path; restart() resets the counter")
    res.rule("C09-R4", "message type announced: a message-type change rebuilds/invalidates the frame template before the next frame is opened")
    res.rule("C09-R5", "wire positions of device id, stream id, sequence counter, version and message type in the frame header (G4 result of C12)")
    res.assumptions += ["one protocol version per batch (domain of the property)"]
    res.not_decided += ["nothing numeric is left: one pre-increment of a uint16_t per pushed frame and none elsewhere implies consecutive counters "
                        "modulo 65536 and 'reported = last emitted'"]
    E.rule_counter_writers(res, "C09-R1", m)
    E.rule_frame_stamped(res, "C09-R2", m)
    # stamped frames are never dropped: the frame list only grows until it is handed out
    for wf, kind, n in m.writes.get(m.frames, []):
        if not (isinstance(n, dict) and n.get("k") == "call" and E.strip_all_casts(n.get("obj", {})).get("field") == m.frames):
            continue
        okk = kind in ("call:push_back", "call:emplace_back", "call:clear", "call:operator=")
        res.check(okk, "C09-R2", "frames:%s:%s" % (wf.name.split("::")[-1], kind), n.get("loc"), "frame list only grows / is cleared / moved out",
                  "a frame is removed from the frame list by %s in %s after it was stamped: its sequence number is consumed but never emitted, so the "
                  "reported counter is ahead of the last emitted frame and the next frame skips a number" % (kind.split(":")[-1], wf.name))
    E.rule_counter_survives_encode(res, "C09-R1", m)
    E.rule_puts_are_flushed(res, "C09-R1", m)  # a frame that took a counter is emitted: no return between putPacket and the finisher
    E.rule_identity(res, "C09-R3", m)
    E.rule_type_change_rebuilds_template(res, "C09-R4", m)
    E.rule_type_change_opens_frame(res, "C09-R4", m)
    obs, ast = accessors.analyse(fb, ctx.spec("layout.json"), scope=lambda cls, stem: cls == "ASAM::CMP::CmpHeader")
    for o in obs:
        # the write side of the frame header (what the encoder puts on the wire); what a decoder reads back through the getters is C04's
        if o.cls == "ASAM::CMP::CmpHeader" and (o.tag == "frame" or (o.tag == "position" and "::set" in o.key)):
            res.check(o.ok, "C09-R5", o.key, o.loc, o.detail)
    accessors.require_supported(ast)
    res.floor("C09-R1", 5)
    res.floor("C09-R2", 2)
    res.floor("C09-R3", 6)
    res.floor("C09-R5", 15)
    return res
