"""Reader positions of the interface status payload (shared by C13-R7 and C12-R2v).

The variable part of an interface status payload is, by the format (DESIGN.md Appendix A): header | u16 N = number of stream ids | N id
bytes | one pad byte when N is odd | u16 V = vendor data length | V bytes.  The builder's side of this is C13-R3 (its writes tile the
buffer in exactly this order).  This module decides the reader's side: the position every pointer-returning reader of the class hands
out, on every path and for every N, as a linear form over  D = payloadData.data(),  N = the 16-bit word read at D + sizeof(Header)  and
PAR(N) = N mod 2 — by a path-forking abstract interpretation of the (structured) function bodies with in-class calls inlined.  Nothing is
executed; a construct outside the small vocabulary (straight-line code, if/else, ?:, ++/+=, in-class helper calls) is analysis-broken.
"""
from cmpverif import facts
from cmpverif.build import Broken
from cmpverif.facts import callee_name, canon, const_value, strip, strip_all_casts

NS = "ASAM::CMP::"
NULL = {"NULL": 1}


class Outside(Exception):
    pass


class Lossy(Exception):
    """a 16-bit word read from the payload is converted to a type that cannot hold all its values"""
    pass


def _clean(f):
    return {k: v for k, v in f.items() if v or k == 1}


def _add(a, b, sign=1, scale=1):
    out = dict(a)
    for k, v in b.items():
        out[k] = out.get(k, 0) + sign * scale * v
    return _clean(out)


def _with(d, extra):
    out = dict(d)
    out.update(extra)
    return out


def _is_const(f):
    return all(k == 1 for k, v in f.items() if v)


def fmt(f):
    if f is None:
        return "?"
    if f.get("NULL"):
        rest = {k: v for k, v in f.items() if k != "NULL" and v}
        return "nullptr" + ("" if not rest else " + " + fmt(rest))
    parts = []
    for k in sorted((k for k in f if k != 1 and f[k]), key=str):
        parts.append(("%s" % k) if f[k] == 1 else "%d*%s" % (f[k], k))
    if f.get(1) or not parts:
        parts.append(str(f.get(1, 0)))
    return " + ".join(parts)


def apply_pins(f, pins):
    """substitute what the path knows: N == 0, parity of N"""
    out = dict(f)
    for s, v in pins.items():
        kind, sym = s
        if kind == "ZERO" and v == 1:
            out[1] = out.get(1, 0)
            out.pop(sym, None)
            out.pop("PAR(%s)" % sym, None)
        elif kind == "PAR":
            c = out.pop("PAR(%s)" % sym, 0)
            out[1] = out.get(1, 0) + c * v
    return _clean(out)


class ReaderEval:
    def __init__(self, fb, cls, hsize):
        self.fb, self.cls, self.hsize = fb, cls, hsize
        self.bases = [cls] + fb.bases_of(cls)

    # ------------------------------------------------------------ expressions: list of (form, pins)
    def ev(self, e, env, pins, g, depth):
        e0 = e
        # conversions on the way: a length / count word (unsigned, 16 bits) must not pass through a narrower or a signed 16-bit type
        x = e
        lossy_t = None
        while isinstance(x, dict) and x.get("k") == "cast":
            t = x.get("t") or {}
            if x.get("ck") == "IntegralCast" and t.get("k") == "int" and ((t.get("bits") or 64) < 16 or ((t.get("bits") or 64) == 16 and t.get("sg"))):
                lossy_t = t
            x = x["e"]
        if lossy_t is not None:
            inner = self.ev(x, env, pins, g, depth)
            for f, _ in inner:
                if any(str(s) == "N" or str(s).startswith("W[") for s in f if s != 1 and f[s]):
                    raise Lossy("the word read from the payload (%s) is converted to `%s`: values that type cannot hold (>= %d) arrive changed, the position "
                                "computed from it lies somewhere else — for large counts in front of the payload" %
                                (fmt(f), lossy_t.get("s"), 1 << ((lossy_t.get("bits") or 16) - (1 if lossy_t.get("sg") else 0))))
            return inner
        e = strip_all_casts(e)
        cv = const_value(e)
        if cv is not None and (e.get("t") or {}).get("k") != "ptr":
            return [({1: cv}, pins)]
        if e.get("null") or (cv == 0 and (e.get("t") or {}).get("k") == "ptr"):
            return [(dict(NULL), pins)]
        k = e.get("k")
        if k == "ref" and e.get("dk") in ("local", "param"):
            if e["decl"] not in env:
                raise Outside("read of %s before it has a value" % e.get("name"))
            return [(env[e["decl"]], pins)]
        if k == "call":
            c = e.get("callee") or {}
            if c.get("nm") == "data" and "obj" in e and self.fb.is_payload_buffer(e["obj"]):
                return [({"D": 1, 1: 0}, pins)]
            if c.get("nm") == "size" and "obj" in e and self.fb.is_payload_buffer(e["obj"]):
                return [({"SIZE": 1}, pins)]
            h = self.fb.resolve_call(e)
            if h is not None and h.body is not None and h.rec in self.bases and depth < 5 and \
                    ("obj" not in e or strip_all_casts(e["obj"]).get("k") == "this"):
                argsets = [[]]
                cur = [([], pins)]
                for a in e.get("args", []):
                    nxt = []
                    for vals, pn in cur:
                        for f, pn2 in self.ev(a, env, pn, g, depth):
                            nxt.append((vals + [f], pn2))
                    cur = nxt
                out = []
                for vals, pn in cur:
                    out.extend(self.call(h, vals, pn, depth + 1))
                return out
            raise Outside("call to %s" % (c.get("name") or c.get("nm")))
        if k == "sizeof":
            raise Outside("sizeof without value")
        if k == "bin" and e["op"] in ("+", "-"):
            out = []
            lt, rt = (strip(e["l"]).get("t") or {}), (strip(e["r"]).get("t") or {})
            for a, p1 in self.ev(e["l"], env, pins, g, depth):
                for b, p2 in self.ev(e["r"], env, p1, g, depth):
                    sa = (rt.get("psize") or 1) if rt.get("k") == "ptr" and lt.get("k") != "ptr" else 1
                    sb = (lt.get("psize") or 1) if lt.get("k") == "ptr" and rt.get("k") != "ptr" else 1
                    a2 = {k2: v * sa for k2, v in a.items()}
                    out.append((_add(a2, b, 1 if e["op"] == "+" else -1, sb), p2))
            return out
        if k == "bin" and ((e["op"] == "%" and const_value(e["r"]) == 2) or (e["op"] == "&" and const_value(e["r"]) == 1)):
            out = []
            for a, p1 in self.ev(e["l"], env, pins, g, depth):
                a = apply_pins(a, p1)
                syms = [s for s in a if s != 1 and a[s]]
                c = a.get(1, 0)
                if not syms:
                    out.append(({1: c % 2}, p1))
                elif len(syms) == 1 and a[syms[0]] == 1 and c % 2 == 0 and not str(syms[0]).startswith("PAR("):
                    if ("PAR", syms[0]) in p1:
                        out.append(({1: p1[("PAR", syms[0])]}, p1))
                    else:
                        out.append(({"PAR(%s)" % syms[0]: 1}, p1))
                else:
                    raise Outside("parity of %s" % fmt(a))
            return out
        if k == "bin" and e["op"] == "&" and const_value(strip_all_casts(e["r"])) is not None and e["l"] is not None:
            # (x + 1) & ~1 : round up to even
            m = const_value(strip_all_casts(e["r"]))
            if m is not None and (m & 0xFFFF) == 0xFFFE:
                out = []
                for a, p1 in self.ev(e["l"], env, pins, g, depth):
                    a = apply_pins(a, p1)
                    syms = [s for s in a if s != 1 and a[s]]
                    if len(syms) == 1 and a[syms[0]] == 1 and a.get(1, 0) == 1:
                        out.append((_add({syms[0]: 1}, {"PAR(%s)" % syms[0]: 1}), p1))  # (N + 1) & ~1 == N + N % 2
                    else:
                        raise Outside("masking of %s" % fmt(a))
                return out
        if k == "cond":
            out = []
            for pol, pn in self.branch(e["c"], env, pins, g, depth):
                out.extend(self.ev(e["a"] if pol else e["b"], env, pn, g, depth))
            return out
        if k == "un" and e.get("op") in ("pre++", "post++", "pre--", "post--"):
            t = strip_all_casts(e["e"])
            if t.get("k") == "ref" and t.get("decl") in env:
                old = env[t["decl"]]
                sc = ((t.get("t") or {}).get("psize") or 1) if (t.get("t") or {}).get("k") == "ptr" else 1
                env[t["decl"]] = _add(old, {1: sc if "++" in e["op"] else -sc})
                return [(env[t["decl"]] if e["op"].startswith("pre") else old, pins)]
        if k in ("assign", "cassign"):
            t = strip_all_casts(e["l"])
            if t.get("k") == "ref" and t.get("dk") == "local":
                vals = self.ev(e["r"], env, pins, g, depth)
                if len(vals) != 1:
                    raise Outside("assignment of a value that differs between paths")
                v, pn = vals[0]
                if k == "cassign":
                    if e.get("op") not in ("+", "-") or t["decl"] not in env:
                        raise Outside("compound assignment %s" % e.get("op"))
                    sc = ((t.get("t") or {}).get("psize") or 1) if (t.get("t") or {}).get("k") == "ptr" else 1
                    v = _add(env[t["decl"]], v, 1 if e["op"] == "+" else -1, sc)
                env[t["decl"]] = v
                return [(v, pn)]
        raise Outside("expression `%s`" % canon(e0)[:60])

    def branch(self, c, env, pins, g, depth):
        """[(outcome True/False, pins)] for a condition"""
        c = strip_all_casts(c)
        if c.get("k") == "un" and c.get("op") == "!":
            return [(not pol, pn) for pol, pn in self.branch(c["e"], env, pins, g, depth)]
        op, zero_side = None, None
        if c.get("k") == "bin" and c["op"] in ("==", "!=", ">", "<", ">=", "<="):
            for x, y, o in ((c["l"], c["r"], c["op"]), (c["r"], c["l"], facts._flip_op(c["op"]))):
                cy = const_value(strip_all_casts(y))
                yn = strip_all_casts(y)
                if cy is not None or yn.get("null"):
                    op, zero_side, subject = o, (0 if yn.get("null") else cy), x
                    break
            if op is None:
                raise Outside("condition `%s`" % canon(c)[:60])
        else:
            subject, op, zero_side = c, "!=", 0
        out = []
        for f, pn in self.ev(subject, env, pins, g, depth):
            f = apply_pins(f, pn)
            if f.get("NULL"):
                rest = {k2: v for k2, v in f.items() if k2 != "NULL" and v}
                if rest:
                    raise Outside("comparison of a null-derived position")
                val = 0
            elif f.get("D"):
                val = "nonnull"
            elif _is_const(f):
                val = f.get(1, 0)
            else:
                val = None
            if val == "nonnull":
                if zero_side != 0 or op not in ("==", "!="):
                    raise Outside("pointer compared with %s" % zero_side)
                out.append((op == "!=", pn))
                continue
            if val is not None:
                r = {"==": val == zero_side, "!=": val != zero_side, ">": val > zero_side, "<": val < zero_side,
                     ">=": val >= zero_side, "<=": val <= zero_side}[op]
                out.append((r, pn))
                continue
            syms = [s for s in f if s != 1 and f[s]]
            if len(syms) == 1 and f[syms[0]] == 1 and f.get(1, 0) == 0:
                s = syms[0]
                if str(s).startswith("PAR("):
                    base = s[4:-1]
                    tv = {("!=", 0): 1, ("==", 1): 1, (">", 0): 1, ("==", 0): 0, ("!=", 1): 0, ("<", 1): 0, (">=", 1): 1, ("<=", 0): 0}.get((op, zero_side))
                    if tv is None:
                        raise Outside("parity test `%s`" % canon(c)[:60])
                    for p in (1, 0):
                        out.append((p == tv, _with(pn, {("PAR", base): p})))
                    continue
                # an unsigned quantity tested against zero
                tz = {("!=", 0): False, (">", 0): False, ("==", 0): True, ("<=", 0): True, (">=", 1): False, ("<", 1): True}.get((op, zero_side))
                if tz is None:
                    raise Outside("test `%s`" % canon(c)[:60])
                out.append((tz, _with(pn, {("ZERO", s): 1, ("PAR", s): 0})))
                out.append((not tz, _with(pn, {("ZERO", s): 0})))
                continue
            raise Outside("condition `%s`" % canon(c)[:60])
        return out

    # ------------------------------------------------------------ statements
    def run(self, s, states, g, depth):
        """states: list of [env, pins, ret]; returns the list after statement s"""
        k = s.get("k")
        out = []
        for env, pins, ret in states:
            if ret is not None:
                out.append([env, pins, ret])
                continue
            if k == "compound":
                cur = [[env, pins, None]]
                for x in s.get("body", []):
                    cur = self.run(x, cur, g, depth)
                out.extend(cur)
            elif k == "decl":
                cur = [[dict(env), pins, None]]
                for v in s.get("vars", []):
                    if "other" in v:
                        continue
                    if not isinstance(v.get("init"), dict):
                        raise Outside("uninitialised local %s" % v.get("name"))
                    nxt = []
                    for en, pn, _ in cur:
                        for f, pn2 in self.ev(v["init"], en, pn, g, depth):
                            e2 = dict(en)
                            e2[v["decl"]] = f
                            nxt.append([e2, pn2, None])
                    cur = nxt
                out.extend(cur)
            elif k == "if":
                if "init" in s or "condvar" in s:
                    raise Outside("if with init")
                for pol, pn in self.branch(s["cond"], env, pins, g, depth):
                    st = [[dict(env), pn, None]]
                    if pol:
                        st = self.run(s["then"], st, g, depth)
                    elif "else" in s:
                        st = self.run(s["else"], st, g, depth)
                    out.extend(st)
            elif k == "return":
                if s.get("e") is None:
                    raise Outside("return without value")
                for f, pn in self.ev(s["e"], env, pins, g, depth):
                    out.append([env, pn, f])
            elif k == "null":
                out.append([env, pins, None])
            elif k in ("while", "for", "do", "rangefor", "switch", "try"):
                raise Outside("statement kind %s" % k)
            else:
                e2 = dict(env)
                vals = self.ev(s, e2, pins, g, depth)
                for _, pn in vals:
                    out.append([e2, pn, None])
        return out

    def call(self, h, argforms, pins, depth):
        """[(returned form, pins)] of in-class function h"""
        rt = h.raw.get("rett") or {}
        # a bounded reader of a 16-bit word: its value is a symbol named by the position it reads (0 when handed no position)
        if rt.get("k") == "int" and len(h.params) == 1 and h.params[0]["t"].get("k") == "ptr":
            # (whether its guard is sound is C03-R2b's question; what it yields is the word at the position it is handed)
            reads_ptr = any(x.get("k") == "un" and x.get("op") == "*" and h.params[0]["decl"] in facts.reads(x) for x in h.nodes())
            if reads_ptr:
                f = apply_pins(argforms[0], pins)
                if f.get("NULL"):
                    return [({1: 0}, pins)]
                sym = "N" if f == {"D": 1, 1: self.hsize} else "W[%s]" % fmt(f)
                if ("ZERO", sym) in pins and pins[("ZERO", sym)] == 1:
                    return [({1: 0}, pins)]
                return [({sym: 1}, pins)]
        env = {p["decl"]: a for p, a in zip(h.params, argforms)}
        sts = self.run(h.body, [[env, pins, None]], h, depth)
        res = []
        for en, pn, ret in sts:
            if ret is None:
                raise Outside("%s does not return on every path" % h.name)
            res.append((ret, pn))
        return res


def interface_reader_positions(fb, res, rid, prefix=""):
    """Obligations: each pointer reader of InterfacePayload hands out the position the format puts its field at, for every N."""
    cls = NS + "InterfacePayload"
    from cmpverif.accessors import header_view_record, find_method
    H = fb.record(header_view_record(fb, cls))["size"]
    ev = ReaderEval(fb, cls, H)
    vlen_pos = {"D": 1, "N": 1, "PAR(N)": 1, 1: H + 2}
    want = {
        "getStreamIdCountPtr": ({"D": 1, 1: H}, False, "the stream-id count word at sizeof(Header)"),
        "getStreamIds": ({"D": 1, 1: H + 2}, True, "the first stream id, right behind the count word"),
        "getVendorDataLengthPtr": (vlen_pos, False, "the vendor-data length word behind the ids and the pad byte: sizeof(Header) + 2 + N + N mod 2"),
        "getVendorData": (_add(vlen_pos, {1: 2}), True, "the vendor data, right behind its length word"),
    }
    n = 0
    for nm, (exp, nullable, what) in want.items():
        g = find_method(fb, cls, nm, 0, const=True) or find_method(fb, cls, nm, 0)
        if g is None:
            if nm in ("getStreamIds", "getVendorData"):
                raise Broken("InterfacePayload::%s not found" % nm)
            continue  # private helpers may be folded into the public readers
        try:
            alts = ev.call(g, [], {}, 0)
        except Lossy as e:
            n += 1
            res.bad(rid, "%sInterfacePayload::%s:position" % (prefix, nm), g.loc, "InterfacePayload::%s: %s" % (nm, e))
            continue
        except Outside as e:
            raise Broken("InterfacePayload::%s: position outside the reader vocabulary: %s" % (nm, e))
        bad = None
        nonnull = 0
        for f, pins in alts:
            f2 = apply_pins(f, pins)
            e2 = apply_pins(exp, pins)
            if f2.get("NULL"):
                rest = {k2: v for k2, v in f2.items() if k2 != "NULL" and v}
                if not nullable or rest:
                    cond = ", ".join("%s %s" % (k2[1], ("== 0" if v else "!= 0") if k2[0] == "ZERO" else ("odd" if v else "even"))
                                     for k2, v in sorted(pins.items(), key=str))
                    bad = bad or "on the path with %s it hands out `%s` where the builder put %s (%s)" % (cond or "no condition", fmt(f2), what, fmt(e2))
                continue
            nonnull += 1
            if _clean(f2) != _clean(e2):
                bad = bad or "it hands out %s, the format puts %s at %s" % (fmt(f2), what.split(",")[0].split(":")[0], fmt(e2))
        if not nonnull:
            bad = bad or "it never hands out a position"
        n += 1
        res.check(bad is None, rid, "%sInterfacePayload::%s:position" % (prefix, nm), g.loc, "%s() = %s on every path, for every count" % (nm, fmt(exp)),
                  "InterfacePayload::%s: %s — what setData stored there is read back from somewhere else" % (nm, bad))
    return n


def interface_builder_size(fb, res, rid, prefix=""):
    """The builder's side of the same format: InterfacePayload::setData sizes the payload to sizeof(Header) + 2 + N + (N mod 2) + 2 + V for
    every id count N and vendor length V, on every path (its writes tile that buffer in format order: C13-R3) — so the pad byte exists
    exactly when N is odd, whatever else is or is not stored behind it."""
    cls = NS + "InterfacePayload"
    from cmpverif.accessors import header_view_record
    H = fb.record(header_view_record(fb, cls))["size"]
    gs = [g for g in fb.fns(cls + "::setData") if len(g.params) == 4 and g.body]
    if len(gs) != 1:
        raise Broken("InterfacePayload::setData(ids, count, vendor data, length) not found")
    g = gs[0]
    ev = ReaderEval(fb, cls, H)
    env = {g.params[0]["decl"]: {"P0": 1}, g.params[1]["decl"]: {"N": 1}, g.params[2]["decl"]: {"P2": 1}, g.params[3]["decl"]: {"V": 1}}
    sizes = []

    def visit(s, states, depth=0):
        """statements in order; whatever is not a declaration, a branch or an assignment of a tracked local is skipped"""
        k = s.get("k")
        if k == "compound":
            for x in s.get("body", []):
                states = visit(x, states, depth)
            return states
        out = []
        for en, pn in states:
            try:
                if k in ("decl", "if"):
                    if k == "if":
                        for pol, pn2 in ev.branch(s["cond"], en, pn, g, 0):
                            st = [(dict(en), pn2)]
                            if pol:
                                st = visit(s["then"], st, depth + 1)
                            elif "else" in s:
                                st = visit(s["else"], st, depth + 1)
                            out.extend(st)
                    else:
                        try:
                            for e2, p2, _ in ev.run(s, [[dict(en), pn, None]], g, 0):
                                out.append((e2, p2))
                        except Outside:
                            # a local this computation does not understand (a byte-swapped copy, a pointer into the buffer): an opaque value
                            e2 = dict(en)
                            for v in s.get("vars", []):
                                if "decl" in v:
                                    e2[v["decl"]] = {"?" + v["decl"]: 1}
                            out.append((e2, pn))
                    continue
                c = strip_all_casts(s)
                if c.get("k") == "call" and (c.get("callee") or {}).get("nm") == "resize" and fb.is_payload_buffer(c.get("obj", {})) and c.get("args"):
                    for f, p2 in ev.ev(c["args"][0], en, pn, g, 0):
                        sizes.append((f, p2, c))
                        out.append((en, p2))
                    continue
                if c.get("k") in ("assign", "cassign") or (c.get("k") == "un" and c.get("op") in ("pre++", "post++", "pre--", "post--")):
                    t = strip_all_casts(c.get("l") or c.get("e") or {})
                    if t.get("k") == "ref" and t.get("decl") in en and (t.get("t") or {}).get("k") == "int":
                        e2 = dict(en)
                        try:
                            for _, p2 in ev.ev(c, e2, pn, g, 0):
                                out.append((e2, p2))
                        except Outside:
                            e2 = dict(en)
                            e2[t["decl"]] = {"?%s@%s" % (t["decl"], c.get("id")): 1}
                            out.append((e2, pn))
                        continue
                out.append((en, pn))
            except Outside as e:
                raise Broken("InterfacePayload::setData: size computation outside the vocabulary: %s" % e)
        return out
    visit(g.body, [(env, {})])
    if not sizes:
        raise Broken("InterfacePayload::setData does not resize the payload buffer")
    want = {"N": 1, "PAR(N)": 1, "V": 1, 1: H + 4}
    bad = None
    for f, pins, c in sizes:
        f2, w2 = apply_pins(f, pins), apply_pins(want, pins)
        if _clean(f2) != _clean(w2):
            cond = ", ".join("%s %s" % (k2[1], ("== 0" if v else "!= 0") if k2[0] == "ZERO" else ("odd" if v else "even")) for k2, v in sorted(pins.items(), key=str))
            bad = bad or "with %s it sizes the payload to %s, the format needs %s (N ids, V vendor bytes, one pad byte exactly when N is odd)" % (
                cond or "no condition", fmt(f2), fmt(w2))
    res.check(bad is None, rid, "%sInterfacePayload::setData:format-size" % prefix, g.loc,
              "payload sized to sizeof(Header) + 2 + N + N mod 2 + 2 + V on every path (%d)" % len(sizes),
              "InterfacePayload::setData: %s — the fields behind the ids are not where the format (and every reader) looks for them" % bad)
    return 1
