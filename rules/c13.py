"""C13 — Payload builders store data faithfully and produce self-valid payloads (structural clauses)."""
from cmpverif import facts, paths, tables
from cmpverif.build import Broken
from cmpverif.facts import (callee_name, called_names, canon, const_value, depends, lvalue_root, reads, strip, strip_all_casts, walk,
                            writes_of, local_defs)
from cmpverif.report import Result

LEVEL = "other"
NS = "ASAM::CMP::"
SIMPLE = [  # (class whose setData forwards to Payload::setData<Header>, header length setters it must call with the same parameter)
    (NS + "CanPayloadBase", ["setDataLength", "setDlc"]),
    (NS + "LinPayload", ["setDataLength"]),
    (NS + "EthernetPayload", ["setDataLength"]),
    (NS + "AnalogPayload", []),
    ("TECMP::LinPayload", ["setDataLength"]),
]
CURSOR_BUILDERS = [NS + "CaptureModulePayload::setData", NS + "CaptureModulePayload::fillWithString", NS + "InterfacePayload::setData"]


def cursor_events(fn):
    """Straight-line sequence of (kind, cursor decl, length canon, node) in CFG order:
    write (memcpy/memset/fill to the cursor), advance (cursor += k)."""
    cfg = fn.cfg
    ev = []
    for b in sorted(cfg.blocks, reverse=True):
        for e in cfg.blocks[b].get("el", []):
            n = fn.node(e) if e >= 0 else None
            if n is None:
                continue
            if n.get("k") == "call" and callee_name(n) in ("memcpy", "memmove", "memset", "std::memcpy", "std::memset", "std::fill_n") and len(n.get("args", [])) == 3:
                dst = strip_all_casts(n["args"][0])
                if dst.get("k") == "ref":
                    ev.append(("write", dst["decl"], canon(strip_all_casts(n["args"][2])), n, b))
            elif n.get("k") == "cassign" and n.get("op") == "+":
                l = strip_all_casts(n["l"])
                if l.get("k") == "ref" and (l.get("t") or {}).get("k") == "ptr":
                    ev.append(("advance", l["decl"], canon(strip_all_casts(n["r"])), n, b))
            elif n.get("k") == "assign":
                l = strip_all_casts(n["l"])
                r = strip_all_casts(n["r"])
                if l.get("k") == "ref" and (l.get("t") or {}).get("k") == "ptr" and r.get("k") == "call":
                    ev.append(("reassign", l["decl"], canon(r), n, b))
    return ev


def parity(fn, path, var_decl, upto_id):
    """Parity of local `var_decl` just before element `upto_id` on a path: 'even' | 'odd' | 'unknown'."""
    par = "unknown"
    atoms_by_block = {}
    cfg = fn.cfg
    # walk the path: branch atoms on (var % 2) refine, += odd constants flip, (x & ~1) makes even
    blocks = path.blocks
    dec = path.decisions
    for bi, b in enumerate(blocks):
        for e in cfg.blocks[b].get("el", []):
            if e == upto_id:
                return par
            n = fn.node(e) if e >= 0 else None
            if n is None:
                continue
            k = n.get("k")
            tgt = None
            if k == "decl":
                for v in n.get("vars", []):
                    if v.get("decl") == var_decl and isinstance(v.get("init"), dict):
                        par = expr_parity(v["init"])
            elif k == "assign" and strip_all_casts(n["l"]).get("decl") == var_decl:
                par = expr_parity(n["r"])
            elif k == "cassign" and strip_all_casts(n["l"]).get("decl") == var_decl:
                c = const_value(n["r"])
                if n.get("op") in ("+", "-") and c is not None:
                    if c % 2:
                        par = {"even": "odd", "odd": "even"}.get(par, "unknown")
                elif n.get("op") == "&" and c is not None and c % 2 == 0:
                    par = "even"
                else:
                    par = "unknown"
            elif k == "un" and n.get("op") in ("pre++", "post++", "pre--", "post--") and strip_all_casts(n["e"]).get("decl") == var_decl:
                par = {"even": "odd", "odd": "even"}.get(par, "unknown")
        # branch refinement at the end of the block
        blk = cfg.blocks[b]
        if cfg.is_cond_branch(b) and blk.get("term", -1) in dec:
            leaf = cfg.branch_leaf(b)
            taken_true = dec[blk["term"]] == 0
            x = strip(leaf)
            neg = False
            while x.get("k") == "un" and x.get("op") == "!":
                neg = not neg
                x = strip(x["e"])
            while x.get("k") == "cast":
                x = x["e"]
            val = None
            if x.get("k") == "bin" and x.get("op") in ("%", "&") and strip_all_casts(x["l"]).get("decl") == var_decl and \
                    ((x["op"] == "%" and const_value(x["r"]) == 2) or (x["op"] == "&" and const_value(x["r"]) == 1)):
                val = "odd" if (taken_true != neg) else "even"
            elif x.get("k") == "bin" and x.get("op") in ("==", "!=") and const_value(x["r"]) in (0, 1):
                y = strip_all_casts(x["l"])
                if y.get("k") == "bin" and y.get("op") in ("%", "&") and strip_all_casts(y["l"]).get("decl") == var_decl:
                    is_one = (const_value(x["r"]) == 1) == (x["op"] == "==")
                    val = "odd" if (is_one == (taken_true != neg)) else "even"
            if val:
                par = val
    return par


def expr_parity(e):
    e = strip_all_casts(e)
    c = const_value(e)
    if c is not None:
        return "even" if c % 2 == 0 else "odd"
    if e.get("k") == "bin":
        if e["op"] == "&" and const_value(e["r"]) is not None and const_value(e["r"]) % 2 == 0:
            return "even"
        if e["op"] == "*" and (const_value(e["r"]) in (2, 4, 8) or const_value(e["l"]) in (2, 4, 8)):
            return "even"
        if e["op"] in ("+", "-"):
            a, b = expr_parity(e["l"]), expr_parity(e["r"])
            if "unknown" in (a, b):
                return "unknown"
            return "even" if a == b else "odd"
        if e["op"] == "<<" and (const_value(e["r"]) or 0) >= 1:
            return "even"
    return "unknown"


def run(ctx):
    fb = ctx.fb()
    res = Result("C13")
    res.rule("C13-R1", "one length, all uses: in each setData the length written to the header, the copy length and the resize amount "
                        "(sizeof(Header) + n) are the same parameter; only the length/DLC setters are called on the header")
    res.rule("C13-R2", "DLC table: encodeDlc tabulated over all 256 arguments equals the CAN-FD length->DLC table for every valid length")
    res.rule("C13-R3", "every advanced byte is written: in the cursor-style builders every advance of the write cursor by k is preceded, at the "
                        "same cursor, by a write of k bytes")
    res.rule("C13-R4", "string framing: the length written by fillWithString depends on str.size(), is even on every path (parity domain over "
                        "the CFG), includes a terminator (+1), and the trailing write of length - str.size() bytes comes from a zero-initialised array")
    res.rule("C13-R5", "buffer sized before it is written: each builder's resize dominates its first write and its size expression depends on "
                        "sizeof(Header) and on every variable-length operand of the later copies")
    res.not_decided += ["getters return exactly the data supplied for every length; acceptance by the validator/decoder; arithmetic sufficiency of the size"]

    # ---- R1: generic Payload::setData<Header> instantiations and the forwarding builders
    def stores_pair(f, hdr):
        """f resizes its buffer to sizeof(hdr) + n and copies exactly n bytes from its data parameter
        to data() + sizeof(hdr), in that order, on every path (n = the length parameter)."""
        from rules.c02 import prov
        from rules.decoder_rules import _linear
        hsize = fb.record(hdr)["size"]
        datap, size_p = f.params[0]["decl"], f.params[1]["decl"]
        rs = [(kind, c, ln) for _, kind, c, ln in facts.vector_sizing(f)]
        cp = [(c, facts.copy_args(c)) for c in f.calls() if facts.copy_args(c)]
        if len(rs) != 1 or len(cp) != 1 or rs[0][0] != "set":
            return False, "expected one resize and one copy, found %d / %d" % (len(rs), len(cp))

        def syms(x):
            return "n" if x.get("k") == "ref" and x.get("decl") == size_p else None
        form = _linear(f, rs[0][2], syms)
        okr = form is not None and form.get("n") == 1 and form.get(1, 0) == hsize and set(form) <= {"n", 1}
        c, (dst, src, ln) = cp[0]
        lform = _linear(f, ln, syms) if ln is not None else None
        oklen = lform is not None and lform.get("n") == 1 and lform.get(1, 0) == 0 and set(lform) <= {"n", 1}
        pd, ps = prov(f, dst), prov(f, src)
        okdst = pd.kind == "vec" and pd.off == hsize and canon(strip_all_casts(rs[0][1].get("obj"))) == pd.base
        oksrc = ps.kind == "param" and ps.base == datap and ps.off == 0
        cfg = f.cfg
        okord = cfg.pos_of[rs[0][1]["id"]] < cfg.pos_of[c["id"]] if cfg.block_for(rs[0][1]) == cfg.block_for(c) else \
            cfg.dominates(cfg.block_for(rs[0][1]), cfg.block_for(c))
        allp = paths.enumerate_paths(f)
        every = all(any(x["id"] == c["id"] for x in q.calls()) and any(x["id"] == rs[0][1]["id"] for x in q.calls()) for q in allp)
        why = "resize=sizeof(Header)+n:%s copy length=n:%s destination=data()+sizeof(Header):%s source=data parameter:%s resize first:%s on every path:%s" % (
            okr, oklen, okdst, oksrc, okord, every)
        return okr and oklen and okdst and oksrc and okord and every, why

    for base in (NS + "Payload::setData", "TECMP::Payload::setData"):
        inst = [f for f in fb.fns(base) if not f.raw.get("templated")]
        if not inst:
            raise Broken("no instantiation of %s" % base)
        for f in inst:
            hdr = (f.raw.get("targs") or ["?"])[0]
            ok, why = stores_pair(f, hdr) if hdr in fb.records else (False, "unknown header type " + hdr)
            res.check(ok, "C13-R1", "setData<%s>" % hdr.replace("ASAM::CMP::", ""), f.loc, "resize(sizeof(Header) + n); copy n bytes to data() + sizeof(Header)",
                      "Payload::setData<%s> does not resize to sizeof(Header)+n and copy exactly n bytes behind the header (%s)" % (hdr, why))
    from cmpverif.accessors import header_view_record
    for cls, setters in SIMPLE:
        f = fb.fn(cls + "::setData", 2)
        fw = [c for c in f.calls() if (callee_name(c) or "").endswith("Payload::setData")]
        lenp = f.params[1]["decl"]
        hdr = header_view_record(fb, cls)
        allp = paths.enumerate_paths(f)
        if fw:
            g = fb.resolve_call(fw[0])
            ok = len(fw) == 1 and [canon(strip_all_casts(a)) for a in fw[0]["args"]] == [f.params[0]["decl"], lenp] and \
                g is not None and (g.raw.get("targs") or ["?"])[0] == hdr
            res.check(ok, "C13-R1", "%s::setData:forward" % cls.replace(NS, ""), f.loc, "forwards (data, length) unchanged to Payload::setData<%s>" % hdr.split("::", 2)[-1],
                      "%s::setData does not forward its data pointer and length unchanged to Payload::setData<its own Header>" % cls)
            uncond = all(any((callee_name(x) or "").endswith("Payload::setData") for x in q.calls()) for q in allp)
        else:
            ok, why = stores_pair(f, hdr)
            res.check(ok, "C13-R1", "%s::setData:forward" % cls.replace(NS, ""), f.loc, "stores (data, length) itself: resize(sizeof(Header) + n), copy n bytes behind the header",
                      "%s::setData neither forwards to Payload::setData<Header> nor stores the pair itself (%s)" % (cls, why))
            uncond = ok
        res.check(uncond, "C13-R1", "%s::setData:every-path" % cls.replace(NS, ""), f.loc, "the buffer is resized and filled on every path (%d)" % len(allp),
                  "%s::setData skips the resize/copy on some path while the header length is still updated: the buffer keeps its previous "
                  "size and content" % cls)
        for st in setters:
            unc = all(any((x.get("callee") or {}).get("nm") == st for x in q.calls()) for q in allp)
            res.check(unc, "C13-R1", "%s::setData:every-path:%s" % (cls.replace(NS, ""), st), f.loc, "%s is called on every path" % st,
                      "%s::setData does not call %s on every path" % (cls, st))
        hdr_calls = [c for c in f.calls() if "obj" in c and strip_all_casts(c["obj"]).get("k") == "call" and
                     (strip_all_casts(c["obj"]).get("callee") or {}).get("nm") == "getHeader"]
        names = sorted((c.get("callee") or {}).get("nm") for c in hdr_calls)
        res.check(names == sorted(setters), "C13-R1", "%s::setData:header-writes" % cls.replace(NS, ""), f.loc,
                  "header setters called: %s (other header fields untouched)" % names,
                  "%s::setData calls header setters %s, expected exactly %s" % (cls, names, sorted(setters)))
        for c in hdr_calls:
            nm = (c.get("callee") or {}).get("nm")
            a = strip_all_casts(c["args"][0])
            if nm == "setDataLength":
                res.check(canon(a) == lenp, "C13-R1", "%s::setData:%s" % (cls.replace(NS, ""), nm), c.get("loc"), "length field := the length parameter",
                          "the length field is set to %s, the copied length is %s" % (canon(a), lenp))
            elif nm == "setDlc":
                okd = a.get("k") == "call" and (a.get("callee") or {}).get("nm") == "encodeDlc" and canon(strip_all_casts(a["args"][0])) == lenp
                res.check(okd, "C13-R1", "%s::setData:%s" % (cls.replace(NS, ""), nm), c.get("loc"), "DLC := encodeDlc(length parameter)",
                          "the DLC is set to %s" % canon(a))

    # ---- R2 DLC table
    enc = fb.fn(NS + "CanPayloadBase::encodeDlc", 1)
    want = {int(k): v for k, v in ctx.spec("dlc.json")["length_to_dlc"].items()}
    bad = []
    for n in range(256):
        try:
            got = tables.ceval(enc, {enc.params[0]["decl"]: n})
        except tables.Unsupported as e:
            raise Broken("encodeDlc outside the table vocabulary: %s" % e)
        if n in want and got != want[n]:
            bad.append((n, got, want[n]))
    res.check(not bad, "C13-R2", "encodeDlc", enc.loc, "all 16 valid lengths map to their DLC (256 arguments tabulated)",
              "encodeDlc(%d) = %s, CAN-FD table says %d" % (bad[0] if bad else (0, 0, 0)))

    # ---- R3 cursor builders
    n3 = 0
    for name in CURSOR_BUILDERS:
        f = fb.fn(name)
        ev = cursor_events(f)
        pending = {}
        for kind, cur, ln, n, b in ev:
            if kind == "write":
                pending[cur] = ln
            elif kind == "advance":
                n3 += 1
                ok = pending.get(cur) == ln
                res.check(ok, "C13-R3", "%s:advance(%s)" % (name.replace(NS, ""), ln.replace("p", "", 0)), n.get("loc"),
                          "cursor advances by %s after a write of the same length" % ln,
                          "the write cursor advances by %s without those bytes being written (last write at the cursor: %s): the bytes keep "
                          "whatever the object held before" % (ln, pending.get(cur)))
                pending.pop(cur, None)
            elif kind == "reassign":
                pending.pop(cur, None)

    # ---- R4 string framing
    fs = fb.fn(NS + "CaptureModulePayload::fillWithString")
    strp = fs.params[1]["decl"]
    lens = [v for n in fs.nodes() if n.get("k") == "decl" for v in n.get("vars", []) if (v["t"].get("k") == "int" and v["t"].get("bits") == 16)]
    lens = [v for v in lens if isinstance(v.get("init"), dict) and any((callee_name(x) or "").endswith("::size") for x in walk(v["init"]) if x.get("k") == "call")]
    if len(lens) != 1:
        raise Broken("fillWithString: cannot bind the length variable")
    lenv = lens[0]["decl"]
    init = lens[0].get("init")
    dep_ok = init is not None and strp in depends(fs, init)[0] and any((callee_name(x) or "").endswith("::size") for x in walk(init) if x.get("k") == "call")
    plus1 = False
    for x in walk(init or {}):
        if x.get("k") == "bin" and x.get("op") == "+" and (const_value(x["r"]) or 0) >= 1:
            plus1 = True
    res.check(dep_ok and plus1, "C13-R4", "fillWithString:length", fs.loc, "length = str.size() + 1 (terminator) before rounding",
              "the stored string length does not derive from str.size() + 1")
    # parity at the point the length is serialised (first read of the length after its last modification)
    swaps = [c for c in fs.calls() if callee_name(c) == "ASAM::CMP::swapEndian"]
    if not swaps:
        raise Broken("fillWithString: length is not serialised through swapEndian")
    ps = paths.enumerate_paths(fs)
    pars = set()
    for p in ps:
        pars.add(parity(fs, p, lenv, swaps[0]["id"]))
    res.check(pars == {"even"}, "C13-R4", "fillWithString:even", swaps[0].get("loc"), "the length is even on every path when it is written (%d paths)" % len(ps),
              "the string length written to the payload is not even on every path (parity per path: %s)" % sorted(pars))
    # trailing write from a zero-initialised array covering length - size
    tail = None
    for c in fs.calls():
        if callee_name(c) in ("memcpy", "memset", "std::memcpy", "std::memset") and len(c.get("args", [])) == 3:
            ln = strip_all_casts(c["args"][2])
            if ln.get("k") == "bin" and ln.get("op") == "-" and lenv in reads(ln) and strp in reads(ln):
                tail = c
    zero_src = False
    if tail is not None:
        if callee_name(tail).endswith("memset"):
            zero_src = const_value(tail["args"][1]) == 0
        else:
            src = strip_all_casts(tail["args"][1])
            if src.get("k") == "ref":
                for n in fs.nodes():
                    if n.get("k") == "decl":
                        for v in n.get("vars", []):
                            if v.get("decl") == src.get("decl") and isinstance(v.get("init"), dict) and v["t"].get("k") == "array":
                                ini = v["init"]
                                vals = [const_value(x) for x in ini.get("inits", [])] if ini.get("k") == "initlist" else []
                                zero_src = v["t"].get("n", 0) >= 2 and len(vals) <= v["t"].get("n", 0) and all(x == 0 for x in vals)
    res.check(tail is not None and zero_src, "C13-R4", "fillWithString:terminator", tail.get("loc") if tail else fs.loc,
              "length - str.size() zero bytes written after the characters, from a zero-initialised source of >= 2 bytes",
              "the NUL terminator / pad bytes after the string are not written from a zero-initialised source")

    # ---- R5 resize dominates first write, size covers operands
    for name in (NS + "CaptureModulePayload::setData", NS + "InterfacePayload::setData"):
        f = fb.fn(name)
        rs = [c for c in f.calls("std::vector::resize") if strip_all_casts(c.get("obj", {})).get("name") == "payloadData"]
        cfg = f.cfg
        writes = [n for kind, cur, ln, n, b in cursor_events(f) if kind == "write"]
        helper_calls = [c for c in f.calls() if (callee_name(c) or "").endswith("fillWithString")]
        first_w = min([cfg.pos_of[w["id"]] for w in writes + helper_calls if cfg.block_for(w) == cfg.block_for(rs[0])] or [10 ** 9]) if rs else -1
        ok = bool(rs) and cfg.pos_of[rs[0]["id"]] < first_w
        res.check(ok, "C13-R5", "%s:resize-first" % name.replace(NS, ""), rs[0].get("loc") if rs else f.loc, "payload is resized before the first write",
                  "the payload buffer is written before it is resized")
        if rs:
            d, calls = depends(f, rs[0]["args"][0])
            need = {p["decl"] for p in f.params if p["t"].get("k") != "ptr"}
            has_sizeof = any(x.get("k") == "sizeof" and (x.get("ofrec") or "").endswith("::Header") for a in [rs[0]["args"][0]] for x in
                             [y for dd in [a] for y in walk(dd)] + [y for v in local_defs(f).values() for e in v for y in walk(e)])
            missing = sorted(need - d)
            res.check(not missing and has_sizeof, "C13-R5", "%s:size-operands" % name.replace(NS, ""), rs[0].get("loc"),
                      "size depends on sizeof(Header) and on every variable-length operand (%s)" % sorted(x.split(":")[1] for x in need),
                      "the resize amount does not depend on %s" % [x.split(":")[1] for x in missing])
    res.floor("C13-R1", 15)
    res.floor("C13-R3", 8, n3)
    res.floor("C13-R4", 3)
    res.floor("C13-R5", 4)
    return res
