"""C13 — Payload builders store data faithfully and produce self-valid payloads (structural clauses)."""
from cmpverif import facts, paths, tables
from cmpverif.build import Broken
from cmpverif.facts import (callee_name, called_names, canon, const_value, depends, lvalue_root, reads, strip, strip_all_casts, walk,
                            writes_of, local_defs)
from cmpverif.report import Result

LEVEL = "other"
NS = "ASAM::CMP::"
SIMPLE = [  # (class whose setData forwards to Payload::setData<Header>, header length setters it must call with the same parameter)
    (NS + "CanPayloadBase", ["setDataLength", "setDlc"]),
    (NS + "LinPayload", ["setDataLength"]),
    (NS + "EthernetPayload", ["setDataLength"]),
    (NS + "AnalogPayload", []),
    ("TECMP::LinPayload", ["setDataLength"]),
]
CURSOR_BUILDERS = [NS + "CaptureModulePayload::setData", NS + "CaptureModulePayload::fillWithString", NS + "InterfacePayload::setData"]


def cursor_events(fn):
    """Straight-line sequence of (kind, cursor decl, length canon, node) in CFG order:
    write (memcpy/memset/fill to the cursor), advance (cursor += k)."""
    cfg = fn.cfg
    ev = []
    for b in sorted(cfg.blocks, reverse=True):
        for e in cfg.blocks[b].get("el", []):
            n = fn.node(e) if e >= 0 else None
            if n is None:
                continue
            if n.get("k") == "call" and callee_name(n) in ("memcpy", "memmove", "memset", "std::memcpy", "std::memset", "std::fill_n") and len(n.get("args", [])) == 3:
                dst = strip_all_casts(n["args"][0])
                if dst.get("k") == "ref":
                    ev.append(("write", dst["decl"], canon(strip_all_casts(n["args"][2])), n, b))
            elif n.get("k") == "cassign" and n.get("op") == "+":
                l = strip_all_casts(n["l"])
                if l.get("k") == "ref" and (l.get("t") or {}).get("k") == "ptr":
                    ev.append(("advance", l["decl"], canon(strip_all_casts(n["r"])), n, b))
            elif n.get("k") == "assign":
                l = strip_all_casts(n["l"])
                r = strip_all_casts(n["r"])
                if l.get("k") == "ref" and (l.get("t") or {}).get("k") == "ptr" and r.get("k") == "call":
                    ev.append(("reassign", l["decl"], canon(r), n, b))
    return ev


WRITE_FUNCS = {"memcpy": (0, 2), "memmove": (0, 2), "memset": (0, 2), "std::memcpy": (0, 2), "std::memmove": (0, 2), "std::memset": (0, 2),
               "std::fill_n": (0, 1), "std::copy_n": (2, 1)}


_TILING_CACHE = {}


def _helper_tiling(fb, g):
    key = (id(fb), g.key)
    if key not in _TILING_CACHE:
        _TILING_CACHE[key] = None  # recursion guard
        _TILING_CACHE[key] = write_tiling(fb, g)
    return _TILING_CACHE[key]


def write_tiling(fb, fn):
    """Per path of builder fn, the positions of its raw writes as linear forms relative to
    payloadData.data() (symbol D) or to its own pointer parameter (symbol P).
    Yields (key, loc, ok, text when ok, text when violated)."""
    from rules.decoder_rules import _linear
    defs = local_defs(fn)
    ptr_params = [p["decl"] for p in fn.params if p["t"].get("k") == "ptr" and not p["t"].get("pconst")]
    hdr = None
    if fn.rec:
        from cmpverif.accessors import header_view_record
        try:
            hdr = fb.record(header_view_record(fb, fn.rec))["size"]
        except Broken:
            hdr = None

    def fmt(form):
        if form is None:
            return "?"
        parts = []
        for k in sorted(form, key=str):
            v = form[k]
            if v == 0:
                continue
            if k == 1:
                parts.append(str(v))
            else:
                nm = str(k).split(":")[-1] if str(k).startswith(("l", "p")) and ":" in str(k) else str(k)
                parts.append(nm if v == 1 else "%d*%s" % (v, nm))
        return " + ".join(parts) or "0"

    def clean(form):
        return {k: v for k, v in form.items() if v != 0 or k == 1}

    def add(a, b, sign=1):
        out = dict(a)
        for k, v in b.items():
            out[k] = out.get(k, 0) + sign * v
        return clean(out)

    def eq(a, b):
        return a is not None and b is not None and {k: v for k, v in clean(a).items() if v} == {k: v for k, v in clean(b).items() if v}

    def inside(form):
        """the form is a position in the payload buffer (relative to data(), the pointer parameter or a helper's result)"""
        return form is not None and sum(v for k, v in form.items() if k in ("D", "P") or str(k).startswith("after(")) == 1

    out = []
    for pi, p in enumerate(paths.enumerate_paths(fn)):
        pos = {}  # pointer local/param -> form
        for d in ptr_params:
            pos[d] = {"P": 1, 1: 0}
        sval = {}  # multi-definition scalar local -> constant it holds on this path

        # values the branch outcomes of this path pin down: `padding == 0`, or `padding != 0` for a local defined as x & 1 / x % 2
        pathval = {}
        for a in p.atoms:
            if a[0] != "cmp" or a[2] not in ("==", "!="):
                continue
            for x, y in ((a[4], a[5]), (a[5], a[4])):
                xs = strip_all_casts(x)
                cv = const_value(y)
                if xs.get("k") == "ref" and xs.get("dk") == "local" and len(defs.get(xs["decl"], [])) == 1 and cv is not None:
                    if a[2] == "==":
                        pathval[xs["decl"]] = cv
                    elif cv == 0:
                        d0 = strip_all_casts(defs[xs["decl"]][0])
                        if d0.get("k") == "bin" and ((d0.get("op") == "&" and const_value(d0["r"]) == 1) or (d0.get("op") == "%" and const_value(d0["r"]) == 2)):
                            pathval[xs["decl"]] = 1
        ver = {}  # multi-definition local -> number of assignments seen so far on this path

        def stamp(x):
            """opaque symbol for expression x, versioned by the assignments its operands have seen so far"""
            vs = sorted("%s#%d" % (d.split(":")[-1], ver.get(d, 0)) for d in reads(x) if d in ver)
            return canon(x) + ("{" + ",".join(vs) + "}" if vs else "")

        def lin(e, depth=6):
            e = strip_all_casts(e)
            c = const_value(e)
            if c is not None:
                return {1: c}
            k = e.get("k")
            if k == "ref" and e.get("decl") in pos:
                return pos[e["decl"]]
            if k == "ref" and e.get("decl") in sval:
                return {1: sval[e["decl"]]}
            if k == "ref" and e.get("decl") in pathval:
                return {1: pathval[e["decl"]]}
            if k == "bin" and e.get("op") in ("+", "-"):
                a, b = lin(e["l"], depth), lin(e["r"], depth)
                if a is None or b is None:
                    return None
                return add(a, b, 1 if e["op"] == "+" else -1)
            if k == "bin" and e.get("op") == "*":
                for x, y in ((e["l"], e["r"]), (e["r"], e["l"])):
                    cx = lin(x, depth)
                    if cx is not None and set(clean(cx)) <= {1}:
                        b = lin(y, depth)
                        return None if b is None else clean({kk: v * cx.get(1, 0) for kk, v in b.items()})
            if k == "ref" and e.get("dk") == "local" and len(defs.get(e["decl"], [])) == 1 and depth > 0:
                r = lin(defs[e["decl"]][0], depth - 1)
                return r if r is not None else {e["decl"]: 1}
            if k == "ref" and e.get("dk") in ("local", "param"):
                return {"%s#%d" % (e["decl"], ver.get(e["decl"], 0)) if e["decl"] in ver else e["decl"]: 1}
            if k == "call" and (e.get("callee") or {}).get("nm") == "data" and fb.is_payload_buffer(e.get("obj", {})):
                return {"D": 1}
            if any(x.get("k") in ("assign", "cassign") or (x.get("k") == "un" and x.get("op") in ("pre++", "post++", "pre--", "post--")) for x in walk(e)):
                return None
            if any(x.get("k") == "ref" and x.get("decl") in pos for x in walk(e)):
                return None
            return {stamp(e): 1}

        for d, es in defs.items():
            if len(es) > 1:
                ver[d] = 0

        state = {"prev_end": None, "first": True, "last_write": None}
        in_lambda = {y.get("id") for x in fn.nodes() if x.get("k") == "lambda" for y in walk(x.get("body", {}))}
        lambdas = {}
        for d, es in defs.items():
            if len(es) == 1:
                lm = strip_all_casts(es[0])
                while lm.get("k") == "construct" and len(lm.get("args", [])) == 1:
                    lm = strip_all_casts(lm["args"][0])
                if lm.get("k") == "lambda":
                    lambdas[d] = lm

        def count_helper(n):
            r = strip_all_casts(n["r"])
            g = fb.resolve_call(r) if r.get("k") == "call" else None
            if g is None or g.body is None or g.key == fn.key or not r.get("args") or not g.params or not g.cfg_raw or not g.raw.get("inrepo"):
                return None
            if g.params[0]["t"].get("k") != "ptr" or g.params[0]["t"].get("pconst") or (g.raw.get("rett") or {}).get("k") != "int":
                return None
            sub = _helper_tiling(fb, g)
            return (g, sub) if sub else None

        def handle_(n, depth):
            k = n.get("k")
            prev_end, first = state["prev_end"], state["first"]
            if k == "call" and (n.get("callee") or {}).get("nm") == "operator()" and "obj" in n and strip_all_casts(n["obj"]).get("decl") in lambdas and depth < 2:
                # a local lambda that writes through / moves a captured cursor: its statements run here with the arguments substituted
                lm = lambdas[strip_all_casts(n["obj"])["decl"]]
                mapping = {prm["decl"]: a for prm, a in zip(lm.get("params", []), n.get("args", []))}
                stmts = lm["body"].get("body", []) if lm["body"].get("k") == "compound" else [lm["body"]]
                for st in stmts:
                    if st.get("k") in ("if", "while", "for", "do", "switch", "return"):
                        out.append(("lambda@%s" % (n.get("loc") or "").split(":", 1)[-1], n.get("loc"), False, "",
                                    "the helper lambda called here is not straight-line: its writes cannot be placed"))
                        return
                    handle_(facts.substitute(st, mapping), depth + 1)
                return
            if k in ("assign", "cassign") and lvalue_root(n["l"]) in ver:
                ver[lvalue_root(n["l"])] += 1
            elif k == "un" and n.get("op") in ("pre++", "post++", "pre--", "post--") and lvalue_root(n["e"]) in ver:
                ver[lvalue_root(n["e"])] += 1
            if k == "decl":
                for v in n.get("vars", []):
                    if isinstance(v.get("init"), dict) and (v["t"].get("k") == "ptr"):
                        f = lin(v["init"])
                        if inside(f):
                            pos[v["decl"]] = f
                    elif isinstance(v.get("init"), dict) and len(defs.get(v["decl"], [])) > 1 and const_value(v["init"]) is not None:
                        sval[v["decl"]] = const_value(v["init"])
            elif k == "assign" and strip_all_casts(n["l"]).get("decl") in sval or (k == "assign" and strip_all_casts(n["l"]).get("k") == "ref" and
                                                                                   len(defs.get(strip_all_casts(n["l"]).get("decl"), [])) > 1 and
                                                                                   (strip_all_casts(n["l"]).get("t") or {}).get("k") == "int"):
                d = strip_all_casts(n["l"])["decl"]
                c = const_value(n["r"])
                if c is not None:
                    sval[d] = c
                else:
                    sval.pop(d, None)
            elif k == "cassign" and strip_all_casts(n["l"]).get("decl") in sval:
                sval.pop(strip_all_casts(n["l"])["decl"], None)
            elif k == "un" and n.get("op") in ("pre++", "post++", "pre--", "post--") and strip_all_casts(n["e"]).get("decl") in sval:
                sval.pop(strip_all_casts(n["e"])["decl"], None)
            elif k == "cassign" and n.get("op") == "+" and strip_all_casts(n["l"]).get("decl") in pos and count_helper(n) is not None:
                # `cursor += helper(cursor, ..)`: a helper that writes from its pointer argument and returns how many bytes it wrote
                d = strip_all_casts(n["l"])["decl"]
                r = strip_all_casts(n["r"])
                g, sub = count_helper(n)
                for so in sub:
                    out.append(("%s:%s" % (g.name.split("::")[-1], so[0]),) + tuple(so[1:]))
                start = lin(r["args"][0])
                key = "helper@%s" % (n.get("loc") or "").split(":", 1)[-1]
                ok = start is not None and eq(start, pos[d]) and all(so[2] for so in sub) and any(so[0].startswith("returns-count") for so in sub) and \
                    ((first and hdr is not None and eq(start, {"D": 1, 1: hdr})) or (first and bool(ptr_params) and eq(start, {"P": 1, 1: 0})) or
                     (not first and eq(start, prev_end)))
                out.append((key, n.get("loc"), ok, "%s continues at %s and the cursor moves by the count it returns" % (g.name.split("::")[-1], fmt(start)),
                            "%s is handed position %s (cursor at %s) but the previous write ended at %s: bytes in between keep whatever the buffer held" %
                            (g.name.split("::")[-1], fmt(start), fmt(pos[d]), fmt(prev_end) if not first else "sizeof(Header)")))
                sym = "after(%s@%s)" % (g.name.split("::")[-1], (n.get("loc") or "").split(":")[1] if n.get("loc") else n["id"])
                pos[d] = {sym: 1, 1: 0}
                state["prev_end"] = prev_end = pos[d]
                state["first"] = first = False
                state["last_write"] = n
            elif k == "cassign" and n.get("op") in ("+", "-") and strip_all_casts(n["l"]).get("decl") in pos:
                d = strip_all_casts(n["l"])["decl"]
                f = lin(n["r"])
                pos[d] = add(pos[d], f, 1 if n["op"] == "+" else -1) if f is not None and pos[d] is not None else None
            elif k == "assign" and strip_all_casts(n["l"]).get("decl") in pos or \
                    (k == "assign" and (strip_all_casts(n["l"]).get("t") or {}).get("k") == "ptr" and strip_all_casts(n["l"]).get("k") == "ref"):
                d = strip_all_casts(n["l"])["decl"]
                r = strip_all_casts(n["r"])
                g = fb.resolve_call(r) if r.get("k") == "call" else None
                if g is not None and g.name not in CURSOR_BUILDERS and g.body is not None and g.key != fn.key and r.get("args") and g.params and \
                        g.params[0]["t"].get("k") == "ptr" and not g.params[0]["t"].get("pconst") and (g.raw.get("rett") or {}).get("k") == "ptr" and \
                        depth < 2 and g.cfg_raw:
                    # any helper of the same shape as fillWithString: writes from its pointer parameter and returns the end — judged by its own tiling
                    sub = _helper_tiling(fb, g)
                    if sub is not None:
                        for so in sub:
                            out.append(("%s:%s" % (g.name.split("::")[-1], so[0]),) + tuple(so[1:]))
                        if all(so[2] for so in sub) and any(so[0].startswith("returns-end") for so in sub):
                            g_ok_helper = True
                        else:
                            g_ok_helper = False
                    else:
                        g_ok_helper = False
                else:
                    g_ok_helper = g is not None and g.name in CURSOR_BUILDERS
                if g is not None and g_ok_helper and r.get("args"):
                    # a helper that writes from its pointer argument and returns the end of what it wrote
                    start = lin(r["args"][0])
                    key = "helper@%s" % (n.get("loc") or "").split(":", 1)[-1]
                    ok = start is not None and ((first and hdr is not None and eq(start, {"D": 1, 1: hdr})) or (first and bool(ptr_params) and eq(start, {"P": 1, 1: 0})) or
                                                (not first and eq(start, prev_end)))
                    out.append((key, n.get("loc"), ok, "%s continues at %s" % (g.name.split("::")[-1], fmt(start)),
                                "%s is handed position %s but the previous write ended at %s: bytes in between keep whatever the buffer held" %
                                (g.name.split("::")[-1], fmt(start), fmt(prev_end) if not first else "sizeof(Header)")))
                    sym = "after(%s@%s)" % (g.name.split("::")[-1], (n.get("loc") or "").split(":")[1] if n.get("loc") else n["id"])
                    pos[d] = {sym: 1, 1: 0}
                    state["prev_end"] = prev_end = pos[d]
                    state["first"] = first = False
                    state["last_write"] = n
                else:
                    pos[d] = lin(n["r"])
            elif k == "assign" and strip_all_casts(n["l"]).get("k") in ("un", "subscript") and \
                    ((strip_all_casts(n["l"]).get("k") == "un" and strip_all_casts(n["l"]).get("op") == "*" and inside(lin(strip_all_casts(n["l"])["e"]))) or
                     (strip_all_casts(n["l"]).get("k") == "subscript" and inside(lin(strip_all_casts(n["l"])["base"])) and
                      const_value(strip_all_casts(n["l"])["idx"]) is not None)):
                # a single element stored through the cursor
                l0 = strip_all_casts(n["l"])
                if l0.get("k") == "un":
                    start = lin(l0["e"])
                else:
                    start = add(lin(l0["base"]), {1: const_value(l0["idx"])})
                width = ((l0.get("t") or {}).get("bits") or 8) // 8
                key = "write@%s" % (n.get("loc") or "").split(":", 1)[-1]
                if first:
                    want = {"D": 1, 1: hdr} if start.get("D") == 1 and hdr is not None else {"P": 1, 1: 0}
                    out.append((key, n.get("loc"), eq(start, want), "first write at %s" % fmt(start),
                                "the first write lands at %s, the variable part starts at %s" % (fmt(start), fmt(want))))
                else:
                    out.append((key, n.get("loc"), eq(start, prev_end), "starts at %s where the previous write ended" % fmt(start),
                                "this store lands at %s but the previous write ended at %s" % (fmt(start), fmt(prev_end))))
                state["prev_end"] = prev_end = add(start, {1: width})
                state["first"] = first = False
                state["last_write"] = n
            elif k == "call" and callee_name(n) in WRITE_FUNCS and len(n.get("args", [])) == 3:
                di, li = WRITE_FUNCS[callee_name(n)]
                start, ln = lin(n["args"][di]), lin(n["args"][li])
                key = "write@%s" % (n.get("loc") or "").split(":", 1)[-1]
                if ln is None or not inside(start):
                    dd = strip_all_casts(n["args"][di])
                    if dd.get("k") == "un" and dd.get("op") == "&":
                        return  # a write into a local object, not into the payload
                    if start is not None and not any(k in ("D", "P") or str(k).startswith("after(") for k in start):
                        return
                    out.append((key, n.get("loc"), False, "", "the position or length of this write is not a linear form over the operands (%s, %s)" % (fmt(start), fmt(ln))))
                    return
                if first:
                    want = {"D": 1, 1: hdr} if start.get("D") == 1 and hdr is not None else {"P": 1, 1: 0}
                    ok = eq(start, want)
                    out.append((key, n.get("loc"), ok, "first write at %s" % fmt(start),
                                "the first write lands at %s, the variable part starts at %s" % (fmt(start), fmt(want))))
                else:
                    ok = eq(start, prev_end)
                    out.append((key, n.get("loc"), ok, "starts at %s where the previous write ended" % fmt(start),
                                "this write starts at %s but the previous one ended at %s: %s" %
                                (fmt(start), fmt(prev_end), "the bytes in between keep whatever the buffer held / earlier bytes are overwritten")))
                state["prev_end"] = prev_end = add(start, ln)
                state["first"] = first = False
                state["last_write"] = n
            elif k == "call" and (n.get("callee") or {}).get("nm") == "resize" and fb.is_payload_buffer(n.get("obj", {})) and not first:
                amount = lin(n["args"][0])
                want = add(prev_end, {"D": 1}, -1) if prev_end is not None else None
                key = "final-size@%s" % (n.get("loc") or "").split(":", 1)[-1]
                out.append((key, n.get("loc"), eq(amount, want), "final size %s = end of the last write" % fmt(amount),
                            "the payload is finally sized to %s but the last write ended at %s" % (fmt(amount), fmt(want))))
            elif k == "return" and n.get("e") is not None and ptr_params and (fn.raw.get("rett") or {}).get("k") == "int" and not first and \
                    lin(n["e"]) is not None and not any(kk in ("D", "P") for kk, v in lin(n["e"]).items() if v):
                # a helper that answers how many bytes it wrote: the count is the distance from its pointer parameter to the end of its last write
                rv = lin(n["e"])
                key = "returns-count@%s" % (n.get("loc") or "").split(":", 1)[-1]
                out.append((key, n.get("loc"), eq(add(rv, {"P": 1}), prev_end), "returns %s, the distance to the end of its last write" % fmt(rv),
                            "returns the count %s but its last write ended at %s" % (fmt(rv), fmt(prev_end))))
            elif k == "return" and n.get("e") is not None and ptr_params and (strip_all_casts(n["e"]).get("t") or {}).get("k") == "ptr":
                rv = lin(n["e"])
                key = "returns-end@%s" % (n.get("loc") or "").split(":", 1)[-1]
                out.append((key, n.get("loc"), eq(rv, prev_end), "returns %s, the end of its last write" % fmt(rv),
                            "returns position %s but its last write ended at %s" % (fmt(rv), fmt(prev_end))))
        for _, n in p.elems():
            if n.get("id") in in_lambda:
                continue
            handle_(n, 0)
        prev_end, first, last_write = state["prev_end"], state["first"], state["last_write"]
        # the sizing resize that precedes the writes must equal the end of the last write when nothing resizes afterwards
        if not first and not ptr_params:
            sizes = [c for c in p.calls("std::vector::resize") if fb.is_payload_buffer(c.get("obj", {}))]
            if len(sizes) == 1:
                pos_backup = dict(pos)
                amount = lin(sizes[0]["args"][0])
                want = add(prev_end, {"D": 1}, -1) if prev_end is not None else None
                key = "size@%s" % (sizes[0].get("loc") or "").split(":", 1)[-1]
                out.append((key, sizes[0].get("loc"), eq(amount, want), "buffer sized to %s = end of the last write" % fmt(amount),
                            "the buffer is sized to %s but the writes end at %s" % (fmt(amount), fmt(want))))
    return out


def rule_reader_exact(fb, res):
    from rules.c03 import buffer_end_locals
    from rules.decoder_rules import _linear
    n = 0
    for g in sorted(fb.all_functions(), key=lambda f: f.name):
        if not g.rec or not g.cfg_raw or not g.params or g.params[0]["t"].get("k") != "ptr":
            continue
        if not (g.rec.endswith("CaptureModulePayload") or g.rec.endswith("InterfacePayload")) or g.rec.startswith("TECMP"):
            continue
        ends = buffer_end_locals(g)
        pdecl = g.params[0]["decl"]
        from rules.c03 import remaining_accessor_locals as _ral
        if not ends and not _ral(g, pdecl):
            continue
        # the value read from the length field: locals initialised from a dereference of the pointer
        lens = set()
        for d, es in local_defs(g).items():
            # (a constant initialiser in front of the one real definition — `uint16_t length = 0;` filled in a branch or through an
            # out-parameter of an inlined helper — is a placeholder, not a second source)
            real = [e for e in es if const_value(e) is None]
            if len(real) == 1 and any(x.get("k") == "un" and x.get("op") == "*" and pdecl in reads(x) for x in walk(real[0])):
                lens.add(d)
        # ... or filled by a raw copy from the pointer (memcpy(&length, ptr, sizeof length)), possibly byte-swapped afterwards
        for c in g.calls():
            ca = facts.copy_args(c)
            if ca is not None:
                d0 = strip_all_casts(ca[0])
                if d0.get("k") == "un" and d0.get("op") == "&" and strip_all_casts(d0["e"]).get("dk") == "local" and pdecl in reads(ca[1]):
                    raw = strip_all_casts(d0["e"])["decl"]
                    lens.add(raw)
                    for d, es in local_defs(g).items():
                        if len(es) == 1 and raw in reads(es[0]) and (callee_name(strip_all_casts(es[0])) or "").endswith("swapEndian"):
                            lens.add(d)
        cfg = g.cfg
        from rules.c03 import remaining_views, remaining_accessor_locals
        rviews = remaining_views(g, ends, pdecl)
        ralocals = remaining_accessor_locals(g, pdecl)
        advances = [x for x in g.nodes() if x.get("k") == "cassign" and x.get("op") == "+" and lvalue_root(x["l"]) == pdecl]
        # a view of the remaining bytes that is shrunk from the front plays the cursor's role
        advances += [{"r": x["args"][0], "id": x["id"]} for x in g.calls() if (x.get("callee") or {}).get("nm") == "remove_prefix" and x.get("args") and
                     strip_all_casts(x.get("obj", {})).get("decl") in rviews]

        def syms(x):
            if x.get("k") == "bin" and x.get("op") == "-" and strip_all_casts(x["l"]).get("decl") in ends and strip_all_casts(x["r"]).get("decl") == pdecl:
                return "R"
            if x.get("k") == "call" and (x.get("callee") or {}).get("nm") in ("size", "length") and strip_all_casts(x.get("obj", {})).get("decl") in rviews:
                return "R"
            if x.get("k") == "ref" and x.get("decl") in ralocals:
                return "R"  # = end - ptr whenever it is non-zero (a bounded 'available bytes' accessor)
            if x.get("k") == "ref" and x.get("decl") in lens:
                return "L"
            return None
        for c in g.nodes():
            if c.get("k") != "bin" or c.get("op") not in ("<", "<=", ">", ">="):
                continue
            keepset = ends | lens | rviews | ralocals

            def flow_expand(e, depth=2):
                # a local that still holds what its initialiser says at this comparison (`const size_t available = end - ptr;` tested
                # before the pointer moves) stands for that initialiser here, even if the pointer is moved later on
                e1 = strip_all_casts(e)
                if e1.get("k") == "ref" and e1.get("dk") == "local" and e1.get("decl") not in keepset and depth > 0:
                    d = facts.current_definition(g, e1)
                    if d is not None:
                        return flow_expand(d, depth - 1)
                return e
            l = strip_all_casts(facts.expand(g, flow_expand(c["l"]), keep=tuple(keepset)))
            r = strip_all_casts(facts.expand(g, flow_expand(c["r"]), keep=tuple(keepset)))
            if not any(syms(x) == "R" for e in (l, r) for x in walk(e)):
                continue
            n += 1
            key = "%s:bound@%s" % (g.name.replace(NS, ""), (c.get("loc") or "").split(":", 1)[-1])
            fl, fr = _linear(g, l, syms), _linear(g, r, syms)
            ok = False
            why = "the bound `%s` is not a linear comparison of the remaining bytes with the announced length" % canon(c)[:120]
            if fl is not None and fr is not None:
                d = dict(fl)
                for k2, v in fr.items():
                    d[k2] = d.get(k2, 0) - v
                # orient as  R - (...) >= 0  /  R - (...) < 0
                if d.get("R", 0) < 0:
                    d = {k2: -v for k2, v in d.items()}
                    op = {"<": ">", "<=": ">=", ">": "<", ">=": "<="}[c["op"]]
                else:
                    op = c["op"]
                # strict forms: R - X > 0  <=>  R - X - 1 >= 0 ; R - X <= 0  <=> not (R - X - 1 >= 0)
                if op in (">", "<="):
                    d[1] = d.get(1, 0) - 1
                K = -d.get(1, 0)
                # bytes of the length field the pointer has already been moved over when this bound is evaluated
                skipped = sum(const_value(a["r"]) or 0 for a in advances
                              if (cfg.block_for(a) == cfg.block_for(c) and cfg.pos_of[a["id"]] < cfg.pos_of[c["id"]]) or
                              (cfg.block_for(a) != cfg.block_for(c) and cfg.dominates(cfg.block_for(a), cfg.block_for(c))))
                # (a bound that demands LESS than the field needs lets the reader run past the payload: that is C03-R2b's report, not a
                # builder/reader disagreement — stored data is still read back)
                if d.get("R") == 1 and set(k2 for k2, v in d.items() if v) <= {"R", 1}:
                    ok = K <= 2 and skipped == 0
                    why = "room for the 2-byte length field" if ok else "demands %d bytes where the length field needs 2" % K
                elif d.get("R") == 1 and d.get("L") == -1 and set(k2 for k2, v in d.items() if v) <= {"R", "L", 1}:
                    ok = K <= 2 - skipped
                    why = "remaining - %d >= length read" % K if ok else "demands length + %d bytes behind a pointer that skipped %d of the 2 length-field bytes" % (K, skipped)
            res.check(ok, "C13-R6", key, c.get("loc"), why,
                      "%s: %s — a field that the builder stored in full is reported as absent" % (g.name.replace(NS, ""), why))
    return n


def parity(fn, path, var_decl, upto_id):
    """Parity of local `var_decl` just before element `upto_id` on a path: 'even' | 'odd' | 'unknown'."""
    par = "unknown"
    atoms_by_block = {}
    cfg = fn.cfg
    # walk the path: branch atoms on (var % 2) refine, += odd constants flip, (x & ~1) makes even
    blocks = path.blocks
    dec = path.decisions
    for bi, b in enumerate(blocks):
        for e in cfg.blocks[b].get("el", []):
            if e == upto_id:
                return par
            n = fn.node(e) if e >= 0 else None
            if n is None:
                continue
            k = n.get("k")
            tgt = None
            if k == "decl":
                for v in n.get("vars", []):
                    if v.get("decl") == var_decl and isinstance(v.get("init"), dict):
                        par = expr_parity(v["init"])
            elif k == "assign" and strip_all_casts(n["l"]).get("decl") == var_decl:
                par = expr_parity(n["r"], {var_decl: par})
            elif k == "cassign" and strip_all_casts(n["l"]).get("decl") == var_decl:
                c = const_value(n["r"])
                if n.get("op") in ("+", "-") and c is not None:
                    if c % 2:
                        par = {"even": "odd", "odd": "even"}.get(par, "unknown")
                elif n.get("op") == "&" and c is not None and c % 2 == 0:
                    par = "even"
                else:
                    par = "unknown"
            elif k == "un" and n.get("op") in ("pre++", "post++", "pre--", "post--") and strip_all_casts(n["e"]).get("decl") == var_decl:
                par = {"even": "odd", "odd": "even"}.get(par, "unknown")
        # branch refinement at the end of the block
        blk = cfg.blocks[b]
        if cfg.is_cond_branch(b) and blk.get("term", -1) in dec:
            leaf = cfg.branch_leaf(b)
            taken_true = dec[blk["term"]] == 0
            x = strip(leaf)
            neg = False
            while x.get("k") == "un" and x.get("op") == "!":
                neg = not neg
                x = strip(x["e"])
            while x.get("k") == "cast":
                x = x["e"]
            val = None
            if x.get("k") == "bin" and x.get("op") in ("%", "&") and strip_all_casts(x["l"]).get("decl") == var_decl and \
                    ((x["op"] == "%" and const_value(x["r"]) == 2) or (x["op"] == "&" and const_value(x["r"]) == 1)):
                val = "odd" if (taken_true != neg) else "even"
            elif x.get("k") == "bin" and x.get("op") in ("==", "!=") and const_value(x["r"]) in (0, 1):
                y = strip_all_casts(x["l"])
                if y.get("k") == "bin" and y.get("op") in ("%", "&") and strip_all_casts(y["l"]).get("decl") == var_decl:
                    is_one = (const_value(x["r"]) == 1) == (x["op"] == "==")
                    val = "odd" if (is_one == (taken_true != neg)) else "even"
            if val:
                par = val
    return par


def expr_parity(e, known=None):
    """parity of an expression; `known` maps a declaration to the parity it currently has (`length = length + 1`)"""
    e = strip_all_casts(e)
    c = const_value(e)
    if c is not None:
        return "even" if c % 2 == 0 else "odd"
    if known and e.get("k") == "ref" and e.get("decl") in known:
        return known[e["decl"]]
    if e.get("k") == "bin":
        if e["op"] == "&" and const_value(e["r"]) is not None and const_value(e["r"]) % 2 == 0:
            return "even"
        if e["op"] == "*" and (const_value(e["r"]) in (2, 4, 8) or const_value(e["l"]) in (2, 4, 8)):
            return "even"
        if e["op"] in ("+", "-"):
            a, b = expr_parity(e["l"], known), expr_parity(e["r"], known)
            if "unknown" in (a, b):
                return "unknown"
            return "even" if a == b else "odd"
        if e["op"] == "<<" and (const_value(e["r"]) or 0) >= 1:
            return "even"
    return "unknown"


def run(ctx):
    fb = ctx.fb()
    res = Result("C13")
    res.rule("C13-R1", "one length, all uses: in each setData the length written to the header, the copy length and the resize amount "
                        "(sizeof(Header) + n) are the same parameter; only the length/DLC setters are called on the header")
    res.rule("C13-R2", "DLC table: encodeDlc tabulated over all 256 arguments equals the CAN-FD length->DLC table for every valid length")
    res.rule("C13-R3", "the written bytes tile the variable part: on every path of the multi-field builders, positions (as linear forms over the "
                        "operands, through a moving cursor or explicit offsets) show that the first write starts at sizeof(Header) or at the helper's "
                        "pointer, every later write starts where the previous one ended (no gap, no overlap), a helper returns the end of its last "
                        "write, and a final resize equals the end of the last write")
    res.rule("C13-R4", "string framing: the length written by fillWithString depends on str.size(), is even on every path (parity domain over "
                        "the CFG), includes a terminator (+1), and the trailing write of length - str.size() bytes comes from a zero-initialised array")
    res.rule("C13-R5", "buffer sized before it is written: each builder's resize dominates its first write and its size expression depends on "
                        "sizeof(Header) and on every variable-length operand of the later copies")
    res.rule("C13-R6", "readers accept what the builders write: in the length-prefixed readers (pointer parameter, end = data() + size()) every comparison of "
                        "the remaining bytes is exactly `remaining >= 2` (room for the length field) or `remaining - k >= length` with k the part of the "
                        "length field not yet skipped and `length` the value read, as linear forms — a stricter bound (padding demanded, off by one) "
                        "rejects data that setData stored correctly")
    res.rule("C13-R7", "readers look where the builders wrote: every pointer reader of the interface status payload (count word, first id, vendor-data "
                        "length word, vendor data) hands out, on every path and for every id count N, the position the format puts that field at — "
                        "sizeof(Header), +2, +2+N+(N mod 2), +2 — as a linear form over data(), the count word and its parity (path-forking abstract "
                        "interpretation with in-class helpers inlined; null only where the block is empty)")
    res.not_decided += ["getters return exactly the data supplied for every length; acceptance by the validator/decoder; arithmetic sufficiency of the size"]

    # ---- R1: generic Payload::setData<Header> instantiations and the forwarding builders
    def stores_pair(f, hdr, datap=None, size_p=None, off_p=None, depth=0):
        """f resizes its buffer to sizeof(hdr) + n and copies exactly n bytes from its data parameter
        to data() + sizeof(hdr), in that order, on every path (n = the length parameter).  A forwarder
        that hands (sizeof(hdr), data, n) to one out-of-line helper of its class is judged through the
        helper, the helper's offset parameter standing for sizeof(hdr)."""
        from rules.c02 import prov
        from rules.decoder_rules import _linear
        hsize = fb.record(hdr)["size"]
        if datap is None:
            datap, size_p = f.params[0]["decl"], f.params[1]["decl"]
        rs = [(kind, c, ln) for _, kind, c, ln in facts.vector_sizing(f)]
        cp = [(c, facts.copy_args(c)) for c in f.calls() if facts.copy_args(c)]
        if not rs and not cp and depth == 0:
            fw = [c for c in f.calls() if fb.resolve_call(c) is not None and fb.resolve_call(c).rec and fb.resolve_call(c).body is not None and
                  strip_all_casts(c.get("obj", {})).get("k") in ("this", None) and len(c.get("args", [])) >= 3]
            if len(fw) == 1:
                g = fb.resolve_call(fw[0])
                args = fw[0]["args"]
                gd = gs = go = None
                for prm, a in zip(g.params, args):
                    a0 = strip_all_casts(a)
                    if a0.get("decl") == datap:
                        gd = prm["decl"]
                    elif a0.get("decl") == size_p:
                        gs = prm["decl"]
                    elif const_value(a0) == hsize:
                        go = prm["decl"]
                allp = paths.enumerate_paths(f)
                every = all(any(x["id"] == fw[0]["id"] for x in q.calls()) for q in allp)
                if gd and gs and go and every:
                    return stores_pair(g, hdr, gd, gs, go, 1)
        if len(rs) != 1 or len(cp) != 1 or rs[0][0] != "set":
            return False, "expected one resize and one copy, found %d / %d" % (len(rs), len(cp))

        def syms(x):
            if x.get("k") == "ref" and x.get("decl") == size_p:
                return "n"
            if off_p is not None and x.get("k") == "ref" and x.get("decl") == off_p:
                return "H"
            return None
        _lin0 = _linear

        def _linear(fn, e, sy):
            form = _lin0(fn, e, sy)
            if form is not None and "H" in form:
                form = dict(form)
                form[1] = form.get(1, 0) + form.pop("H") * hsize
            return form
        form = _linear(f, rs[0][2], syms)
        okr = form is not None and form.get("n") == 1 and form.get(1, 0) == hsize and set(form) <= {"n", 1}
        c, (dst, src, ln) = cp[0]
        lform = _linear(f, ln, syms) if ln is not None else None
        oklen = lform is not None and lform.get("n") == 1 and lform.get(1, 0) == 0 and set(lform) <= {"n", 1}
        pd, ps = prov(f, dst), prov(f, src)
        doff = pd.off
        if doff is None and off_p is not None and getattr(pd, "sym", None) == off_p:
            doff = hsize  # data() + <offset parameter>, bound to sizeof(Header) by the forwarder
        okdst = pd.kind == "vec" and doff == hsize and canon(strip_all_casts(rs[0][1].get("obj"))) == pd.base
        oksrc = ps.kind == "param" and ps.base == datap and ps.off == 0
        cfg = f.cfg
        okord = cfg.pos_of[rs[0][1]["id"]] < cfg.pos_of[c["id"]] if cfg.block_for(rs[0][1]) == cfg.block_for(c) else \
            cfg.dominates(cfg.block_for(rs[0][1]), cfg.block_for(c))
        allp = paths.enumerate_paths(f)
        def zero_len(q):
            """the path has established n == 0: there is nothing to copy"""
            for a in q.atoms:
                if a[0] == "cmp" and a[2] == "==" and ((strip_all_casts(a[4]).get("decl") == size_p and const_value(a[5]) == 0) or
                                                       (strip_all_casts(a[5]).get("decl") == size_p and const_value(a[4]) == 0)):
                    return True
                if a[0] == "truth" and a[2] is False and strip_all_casts(a[3]).get("decl") == size_p:
                    return True
            return False
        every = all((any(x["id"] == c["id"] for x in q.calls()) or zero_len(q)) and any(x["id"] == rs[0][1]["id"] for x in q.calls()) for q in allp)
        why = "resize=sizeof(Header)+n:%s copy length=n:%s destination=data()+sizeof(Header):%s source=data parameter:%s resize first:%s on every path:%s" % (
            okr, oklen, okdst, oksrc, okord, every)
        return okr and oklen and okdst and oksrc and okord and every, why

    for base in (NS + "Payload::setData", "TECMP::Payload::setData"):
        inst = [f for f in fb.fns(base) if not f.raw.get("templated")]
        if not inst:
            raise Broken("no instantiation of %s" % base)
        for f in inst:
            hdr = (f.raw.get("targs") or ["?"])[0]
            ok, why = stores_pair(f, hdr) if hdr in fb.records else (False, "unknown header type " + hdr)
            res.check(ok, "C13-R1", "setData<%s>" % hdr.replace("ASAM::CMP::", ""), f.loc, "resize(sizeof(Header) + n); copy n bytes to data() + sizeof(Header)",
                      "Payload::setData<%s> does not resize to sizeof(Header)+n and copy exactly n bytes behind the header (%s)" % (hdr, why))
    from cmpverif.accessors import header_view_record
    for cls, setters in SIMPLE:
        f = fb.fn(cls + "::setData", 2)
        fw = [c for c in f.calls() if (callee_name(c) or "").endswith("Payload::setData")]
        lenp = f.params[1]["decl"]
        hdr = header_view_record(fb, cls)
        allp = paths.enumerate_paths(f)
        if fw:
            g = fb.resolve_call(fw[0])
            ok = len(fw) == 1 and [canon(strip_all_casts(a)) for a in fw[0]["args"]] == [f.params[0]["decl"], lenp] and \
                g is not None and (g.raw.get("targs") or ["?"])[0] == hdr
            res.check(ok, "C13-R1", "%s::setData:forward" % cls.replace(NS, ""), f.loc, "forwards (data, length) unchanged to Payload::setData<%s>" % hdr.split("::", 2)[-1],
                      "%s::setData does not forward its data pointer and length unchanged to Payload::setData<its own Header>" % cls)
            hsz = fb.record(hdr)["size"]

            def empty_case(q):
                """a path that does not forward: it is the zero-length case spelled out — the length is known to be 0 and the buffer is
                resized to exactly the header (what the forwarded call does for n = 0)"""
                zero = any((a[0] == "cmp" and a[2] == "==" and ((strip_all_casts(a[4]).get("decl") == lenp and const_value(a[5]) == 0) or
                                                                  (strip_all_casts(a[5]).get("decl") == lenp and const_value(a[4]) == 0))) or
                           (a[0] == "truth" and a[2] is False and strip_all_casts(a[3]).get("decl") == lenp) for a in q.atoms)
                rs = [x for x in q.calls() if (x.get("callee") or {}).get("nm") == "resize" and fb.is_payload_buffer(x.get("obj", {}))]
                return zero and len(rs) == 1 and const_value(strip_all_casts(rs[0]["args"][0])) == hsz
            uncond = all(any((callee_name(x) or "").endswith("Payload::setData") for x in q.calls()) or empty_case(q) for q in allp if q.end == "exit")
        else:
            ok, why = stores_pair(f, hdr)
            res.check(ok, "C13-R1", "%s::setData:forward" % cls.replace(NS, ""), f.loc, "stores (data, length) itself: resize(sizeof(Header) + n), copy n bytes behind the header",
                      "%s::setData neither forwards to Payload::setData<Header> nor stores the pair itself (%s)" % (cls, why))
            uncond = ok
        res.check(uncond, "C13-R1", "%s::setData:every-path" % cls.replace(NS, ""), f.loc, "the buffer is resized and filled on every path (%d)" % len(allp),
                  "%s::setData skips the resize/copy on some path while the header length is still updated: the buffer keeps its previous "
                  "size and content" % cls)
        for st in setters:
            unc = all(any((x.get("callee") or {}).get("nm") == st for x in q.calls()) for q in allp)
            res.check(unc, "C13-R1", "%s::setData:every-path:%s" % (cls.replace(NS, ""), st), f.loc, "%s is called on every path" % st,
                      "%s::setData does not call %s on every path" % (cls, st))
        def on_header(c):
            # the object is getHeader() — directly, or through a local that caches the pointer after the resize
            o = strip_all_casts(facts.expand(f, c["obj"])) if "obj" in c else {}
            return o.get("k") == "call" and (o.get("callee") or {}).get("nm") == "getHeader"
        hdr_calls = [c for c in f.calls() if on_header(c) and not (c.get("callee") or {}).get("const") and c.get("args")]  # (reads of the header are not writes)
        # a cached header pointer must be taken after the buffer was resized (resize may reallocate)
        for c in hdr_calls:
            o = strip_all_casts(c["obj"])
            if o.get("k") == "ref" and o.get("dk") == "local":
                dn = [x for x in f.nodes() if x.get("k") == "decl" and any(v.get("decl") == o["decl"] for v in x.get("vars", []))]
                sz = [x for x in f.calls() if (x.get("callee") or {}).get("nm") == "resize" or (callee_name(x) or "").endswith("Payload::setData")]
                cfg = f.cfg
                fresh = bool(dn) and all(cfg.block_for(x) == cfg.block_for(dn[0]) and cfg.pos_of[x["id"]] < cfg.pos_of[dn[0]["id"]] or
                                         (cfg.block_for(x) != cfg.block_for(dn[0]) and cfg.dominates(cfg.block_for(x), cfg.block_for(dn[0]))) for x in sz)
                res.check(fresh, "C13-R1", "%s::setData:header-pointer-fresh" % cls.replace(NS, ""), c.get("loc"), "cached header pointer is taken after the buffer is sized",
                          "%s::setData writes header fields through a pointer taken before the buffer was resized (the resize may move the buffer)" % cls)
        names = sorted((c.get("callee") or {}).get("nm") for c in hdr_calls)
        res.check(names == sorted(setters), "C13-R1", "%s::setData:header-writes" % cls.replace(NS, ""), f.loc,
                  "header setters called: %s (other header fields untouched)" % names,
                  "%s::setData calls header setters %s, expected exactly %s" % (cls, names, sorted(setters)))
        for c in hdr_calls:
            nm = (c.get("callee") or {}).get("nm")
            a = strip_all_casts(facts.expand(f, c["args"][0]))
            if nm == "setDataLength":
                res.check(canon(a) == lenp, "C13-R1", "%s::setData:%s" % (cls.replace(NS, ""), nm), c.get("loc"), "length field := the length parameter",
                          "the length field is set to %s, the copied length is %s" % (canon(a), lenp))
            elif nm == "setDlc":
                okd = a.get("k") == "call" and (a.get("callee") or {}).get("nm") == "encodeDlc" and canon(strip_all_casts(a["args"][0])) == lenp
                res.check(okd, "C13-R1", "%s::setData:%s" % (cls.replace(NS, ""), nm), c.get("loc"), "DLC := encodeDlc(length parameter)",
                          "the DLC is set to %s" % canon(a))

    # ---- R2 DLC table
    enc = fb.fn(NS + "CanPayloadBase::encodeDlc", 1)
    want = {int(k): v for k, v in ctx.spec("dlc.json")["length_to_dlc"].items()}
    bad = []
    for n in range(256):
        try:
            got = tables.ceval(enc, {enc.params[0]["decl"]: n})
        except tables.OutOfTable as e:
            if n not in want:
                continue  # no defined result for a length that is none of the 16 valid ones: the out-of-table read itself is C02-R3's (tables)
            got = "undefined (%s)" % e
        except tables.Unsupported as e:
            raise Broken("encodeDlc outside the table vocabulary: %s" % e)
        if n in want and got != want[n]:
            bad.append((n, got, want[n]))
    res.check(not bad, "C13-R2", "encodeDlc", enc.loc, "all 16 valid lengths map to their DLC (256 arguments tabulated)",
              "encodeDlc(%d) = %s, CAN-FD table says %d" % (bad[0] if bad else (0, 0, 0)))

    # ---- R3 written bytes tile the variable part
    n3 = 0
    seen3 = set()
    for name in CURSOR_BUILDERS:
        f = fb.fn(name)
        for key, loc, ok, good, bad_msg in write_tiling(fb, f):
            if (key, ok) in seen3:
                continue
            seen3.add((key, ok))
            n3 += 1
            res.check(ok, "C13-R3", "%s:%s" % (name.replace(NS, ""), key), loc, good, bad_msg)

    # ---- R4 string framing
    fs = fb.fn(NS + "CaptureModulePayload::fillWithString")
    strp = fs.params[1]["decl"]
    lens = [v for n in fs.nodes() if n.get("k") == "decl" for v in n.get("vars", []) if (v["t"].get("k") == "int" and v["t"].get("bits") == 16)]
    lens = [v for v in lens if isinstance(v.get("init"), dict) and any((callee_name(x) or "").endswith("::size") for x in walk(v["init"]) if x.get("k") == "call")]
    if len(lens) != 1:
        raise Broken("fillWithString: cannot bind the length variable")
    lenv = lens[0]["decl"]
    init = lens[0].get("init")
    dep_ok = init is not None and strp in depends(fs, init)[0] and any((callee_name(x) or "").endswith("::size") for x in walk(init) if x.get("k") == "call")
    plus1 = False
    for x in walk(init or {}):
        if x.get("k") == "bin" and x.get("op") == "+" and (const_value(x["r"]) or 0) >= 1:
            plus1 = True
    res.check(dep_ok and plus1, "C13-R4", "fillWithString:length", fs.loc, "length = str.size() + 1 (terminator) before rounding",
              "the stored string length does not derive from str.size() + 1")
    # parity at the point the length is serialised (first read of the length after its last modification)
    swaps = [c for c in fs.calls() if callee_name(c) == "ASAM::CMP::swapEndian"]
    if not swaps:
        # the length is handed to a helper that serialises it: the hand-over is the point where it must be even
        swaps = [c for c in fs.calls() if fb.resolve_call(c) is not None and fb.resolve_call(c).body is not None and
                 any(strip_all_casts(a).get("decl") == lenv for a in c.get("args", [])) and
                 any(callee_name(x) == "ASAM::CMP::swapEndian" for x in fb.resolve_call(c).calls())]
    if not swaps:
        raise Broken("fillWithString: length is not serialised through swapEndian")
    ps = paths.enumerate_paths(fs)
    pars = set()
    for p in ps:
        pars.add(parity(fs, p, lenv, swaps[0]["id"]))
    res.check(pars == {"even"}, "C13-R4", "fillWithString:even", swaps[0].get("loc"), "the length is even on every path when it is written (%d paths)" % len(ps),
              "the string length written to the payload is not even on every path (parity per path: %s)" % sorted(pars))
    # trailing write from a zero-initialised array covering length - size
    tail = None
    tail_src = None
    for c in fs.calls():
        args = c.get("args", [])
        direct = callee_name(c) in ("memcpy", "memset", "std::memcpy", "std::memset") and len(args) == 3
        via_lambda = (c.get("callee") or {}).get("nm") == "operator()" and len(args) >= 2  # a local append-style helper (placed by C13-R3)
        if not (direct or via_lambda):
            continue
        for i, a in enumerate(args):
            ln = strip_all_casts(facts.expand(fs, a, keep=(lenv,)))
            if ln.get("k") == "ref" and ln.get("dk") == "local":
                cd = facts.current_definition(fs, ln)  # a named count computed after the length was rounded
                if cd is not None:
                    ln = strip_all_casts(cd)
            if ln.get("k") == "bin" and ln.get("op") == "-" and lenv in reads(ln) and strp in reads(ln):
                tail = c
                tail_src = args[1] if direct else next((x for j, x in enumerate(args) if j != i), None)
    zero_src = False
    if tail is not None:
        if (callee_name(tail) or "").endswith("memset"):
            zero_src = const_value(tail["args"][1]) == 0
        else:
            src = strip_all_casts(tail_src) if tail_src is not None else {}
            if src.get("k") == "ref":
                for n in fs.nodes():
                    if n.get("k") == "decl":
                        for v in n.get("vars", []):
                            if v.get("decl") == src.get("decl") and isinstance(v.get("init"), dict) and v["t"].get("k") == "array":
                                ini = v["init"]
                                vals = [const_value(x) for x in ini.get("inits", [])] if ini.get("k") == "initlist" else []
                                zero_src = v["t"].get("n", 0) >= 2 and len(vals) <= v["t"].get("n", 0) and all(x == 0 for x in vals)
    res.check(tail is not None and zero_src, "C13-R4", "fillWithString:terminator", tail.get("loc") if tail else fs.loc,
              "length - str.size() zero bytes written after the characters, from a zero-initialised source of >= 2 bytes",
              "the NUL terminator / pad bytes after the string are not written from a zero-initialised source")

    # ---- R5 resize dominates first write, size covers operands
    for name in (NS + "CaptureModulePayload::setData", NS + "InterfacePayload::setData"):
        f = fb.fn(name)
        rs = [c for c in f.calls("std::vector::resize") if fb.is_payload_buffer(c.get("obj", {}))]
        cfg = f.cfg
        writes = [n for kind, cur, ln, n, b in cursor_events(f) if kind == "write"]
        helper_calls = [c for c in f.calls() if (callee_name(c) or "").endswith("fillWithString")]
        first_w = min([cfg.pos_of[w["id"]] for w in writes + helper_calls if cfg.block_for(w) == cfg.block_for(rs[0])] or [10 ** 9]) if rs else -1
        ok = bool(rs) and cfg.pos_of[rs[0]["id"]] < first_w
        res.check(ok, "C13-R5", "%s:resize-first" % name.replace(NS, ""), rs[0].get("loc") if rs else f.loc, "payload is resized before the first write",
                  "the payload buffer is written before it is resized")
        if rs:
            d, calls = depends(f, rs[0]["args"][0])
            need = {p["decl"] for p in f.params if p["t"].get("k") != "ptr"}
            has_sizeof = any(x.get("k") == "sizeof" and (x.get("ofrec") or "").endswith("::Header") for a in [rs[0]["args"][0]] for x in
                             [y for dd in [a] for y in walk(dd)] + [y for v in local_defs(f).values() for e in v for y in walk(e)])
            missing = sorted(need - d)
            res.check(not missing and has_sizeof, "C13-R5", "%s:size-operands" % name.replace(NS, ""), rs[0].get("loc"),
                      "size depends on sizeof(Header) and on every variable-length operand (%s)" % sorted(x.split(":")[1] for x in need),
                      "the resize amount does not depend on %s" % [x.split(":")[1] for x in missing])
    n6 = rule_reader_exact(fb, res)
    res.floor("C13-R6", 4, n6)
    # self-valid: what a builder can produce, the class's own validator accepts — it holds nothing against a payload but lengths that do not
    # fit, the protocol's error flags and undefined enumerators (C04-R3's closed world); a validator with an extra demand on the size or on
    # another field rejects payloads that setData stored correctly
    res.rule("C13-R8", "self-valid payloads: every payload validator rejects only for the protocol's reasons — announced lengths that do not fit, error "
                        "flags, undefined enumerators — and the payload size enters it only as a lower bound (C04-R3, shared)")
    from rules import c04
    for o in c04.run(ctx).obligations:
        # (the error flags are exactly the protocol's: a mask that also holds a status flag makes a payload a builder can produce invalid)
        if o["rule"] == "C04-R3" and o["key"].startswith(("invalid-only-for-protocol-reasons", "defined-values-accepted", "error-bits")):
            res.check(o["ok"], "C13-R8", o["key"], o["loc"], o["detail"], o["detail"])
    res.floor("C13-R8", 7)
    # what was stored is what is read back, whatever was read before: the readers are functions of the payload's bytes — a typed payload class
    # keeps no data member of its own beside the buffer (a cached field position survives setData and then points into the old layout)
    res.rule("C13-R10", "readers are functions of the bytes: the typed payload classes add no data members to Payload (C14-R1 `no-extra-members`, shared)")
    n10 = 0
    for base in ("ASAM::CMP::Payload",):
        for d in sorted(fb.derived_from(base)):
            dr = fb.record(d)
            n10 += 1
            res.check(not dr["fields"], "C13-R10", "%s:no-state-beside-the-bytes" % d.replace("ASAM::CMP::", ""), (dr["fields"][0].get("loc") if dr["fields"] else dr["loc"]),
                      "no data member beside the payload buffer",
                      "%s keeps %s beside the payload bytes: what its readers answer depends on earlier calls — after setData() rebuilt the payload a "
                      "remembered position or value belongs to the old content and the getters report something else than was stored" %
                      (d, ", ".join("`%s`" % x["name"] for x in dr["fields"])))
    res.floor("C13-R10", 7, n10)
    # the data comes back whenever there is some: the pointer getter of a (pointer, length) pair answers nullptr only when its own length
    # getter says 0 / the payload has no bytes behind the header — not when some other field happens to be 0
    res.rule("C13-R9", "view pairs hand the stored data out: a data pointer getter returns nullptr only on paths that have found the pair's own length "
                        "getter (or the payload's size) to be zero")
    from rules import c03 as _c03
    n9 = 0
    for cls in _c03.CLASSES:
        q = NS + cls
        for pg, lg in _c03.VIEWS[cls]:
            ptrf = _c03.find_method(fb, q, pg, const=True)
            lenf = _c03.find_method(fb, q, lg, const=True)
            if ptrf is None or lenf is None or not ptrf.cfg_raw:
                continue
            lens_ok = {lenf.name} | {g2.name for g2 in fb.reachable_from([lenf]).values() if g2.rec and (g2.rec == lenf.rec or g2.rec in fb.bases_of(lenf.rec))}
            bad9 = None
            npaths = 0
            for pth in paths.enumerate_paths(ptrf):
                if pth.end != "exit":
                    continue
                v = paths.returned_value(pth)
                if v is None or not paths.is_null_value(v):
                    continue
                npaths += 1
                why_null = False
                for a in pth.atoms:
                    nodes = [a[4], a[5]] if a[0] == "cmp" else [a[3]]
                    names = set()
                    for nd in nodes:
                        ex = facts.expand(ptrf, nd)
                        names |= called_names(ex)
                        if any(fb.is_payload_buffer(x.get("obj", {})) for x in walk(ex) if x.get("k") == "call" and (x.get("callee") or {}).get("nm") in ("size", "empty")):
                            names.add("<payload size>")
                    if names & (lens_ok | {"<payload size>", NS + "Payload::getLength"}):
                        why_null = True
                if not why_null:
                    bad9 = bad9 or "a path answers nullptr under `%s`" % ("; ".join(a[1][:50] for a in pth.atoms)[:120] or "no condition")
            if npaths:
                n9 += 1
                res.check(bad9 is None, "C13-R9", "%s:%s/%s:null-only-when-empty" % (cls, pg, lg), ptrf.loc, "nullptr only when %s() is 0 (%d paths)" % (lg, npaths),
                          "%s::%s(): %s, which does not look at %s(): data that setData stored is not handed out" % (cls, pg, bad9, lg))
    # wire bytes are numbers 0..255: a byte read through a pointer to plain (signed) char and then widened — shifted, or-ed, added — drags its
    # sign bit across the upper bits (a length word whose low byte is >= 0x80 reads back as 0xFFxx)
    nsc = 0
    for f in fb.all_functions():
        if not f.rec or not (f.rec.startswith(NS) or f.rec.startswith("TECMP::")) or not f.body:
            continue
        for x in f.nodes():
            if x.get("k") not in ("subscript", "un") or (x.get("k") == "un" and x.get("op") != "*"):
                continue
            pt = (strip_all_casts(x.get("base") if x.get("k") == "subscript" else x.get("e")).get("t") or {})
            vt = x.get("t") or {}
            if pt.get("k") in ("ptr", "array") and vt.get("k") == "int" and vt.get("bits") == 8 and vt.get("sg"):
                par = f.parent(x)
                widened = False
                while par is not None and par.get("k") == "cast":
                    if par.get("ck") == "IntegralCast" and (par.get("t") or {}).get("bits", 8) > 8:
                        widened = True
                    par = f.parent(par)
                if widened and par is not None and par.get("k") in ("bin", "cassign", "assign", "decl", "return", "call"):
                    nsc += 1
                    res.bad("C13-R6", "%s:signed-byte-read@%s" % (f.name.replace(NS, ""), (x.get("loc") or "").split(":", 1)[-1]), x.get("loc"),
                            "%s reads a payload byte through a pointer to signed char and widens it (`%s`): bytes >= 0x80 sign-extend, so a length or "
                            "field whose byte has the top bit set reads back with its upper bits all ones" % (f.name, canon(par)[:70]))
    if not nsc:
        res.ok("C13-R6", "bytes-read-unsigned", "", "no payload byte is read through a signed char and widened")
    from rules import readers
    n7 = readers.interface_reader_positions(fb, res, "C13-R7")
    n7 += readers.interface_builder_size(fb, res, "C13-R7")
    res.floor("C13-R7", 3, n7)
    res.floor("C13-R1", 15)
    res.floor("C13-R3", 14, n3)
    res.floor("C13-R4", 3)
    res.floor("C13-R5", 4)
    return res
