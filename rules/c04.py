"""C04 — Decoded packets report exactly what is on the wire (plumbing, stride, invalid marking, positions)."""
from cmpverif import accessors, facts, g4, paths
from cmpverif.build import Broken
from cmpverif.facts import MustFacts, callee_name, called_names, canon, const_value, depends, lvalue_root, reads, strip, strip_all_casts, walk
from cmpverif.report import Result
from rules import decoder_rules as D

LEVEL = "other"
PKT = "ASAM::CMP::Packet"
MH = "ASAM::CMP::MessageHeader"
CH = "ASAM::CMP::CmpHeader"


def implied_atoms(val):
    """Per true-return of a bool function: the atoms that hold when it returns true
    (must-facts on the way to the return + the conjuncts of the returned expression)."""
    mf = MustFacts(val)
    out = []
    for r in val.returns():
        e = r.get("e")
        if const_value(e) == 0:
            continue
        atoms = list(mf.at(r))
        if const_value(e) != 1:
            atoms += facts.conjuncts(e, True, val)
        out.append(atoms)
    if not out:
        raise Broken("%s never returns true" % val.name)
    return out


def getters_in(fn, e, prefix):
    _, calls = depends(fn, e)
    return {c for c in calls if c.startswith(prefix + "::get")}


def rule_reported_length(fb, res, rid="C04-R6"):
    """Payload(type, data, size) gives its buffer exactly `size` bytes on every path (also for payloads kept as invalid)."""
    # ---- R6 reported length is the wire length, also for payloads that are kept as "invalid"
    for base in ("ASAM::CMP::Payload", "TECMP::Payload"):
        ctors = [f for f in fb.fns(base + "::Payload") if len(f.params) == 3 and f.params[1]["t"].get("k") == "ptr"]
        for ctor3 in ctors:
            sizep = ctor3.params[2]["decl"]
            bufq, bufn = None, None
            for fld in fb.record(base)["fields"]:
                if fld["t"]["s"].startswith("std::vector<unsigned char"):
                    bufq, bufn = fld["qname"], fld["name"]
            sized_by_init = False
            for i in ctor3.raw.get("inits", []) or []:
                if i.get("field") == bufq and isinstance(i.get("e"), dict):
                    a = (i["e"].get("args") or [])
                    sized_by_init = bool(a) and strip_all_casts(a[0]).get("decl") == sizep
                    if not sized_by_init:
                        # the member is built from a vector value (`cond ? vector(data, data + size) : vector(size)`): every alternative has `size` bytes
                        vs = facts.vector_value_sizes(ctor3, i["e"])
                        sized_by_init = bool(vs) and all(strip_all_casts(facts.expand(ctor3, v)).get("decl") == sizep for v in vs)
                elif i.get("delegating") and isinstance(i.get("e"), dict):
                    g = fb.resolve_call(i["e"])
                    dargs = facts.effective_call(i["e"]).get("args", []) if g is not None else []
                    for j in (g.raw.get("inits", []) if g is not None else []) or []:
                        if j.get("field") == bufq and isinstance(j.get("e"), dict) and (j["e"].get("args") or []):
                            src0 = strip_all_casts(j["e"]["args"][0])
                            gpd = [q["decl"] for q in g.params]
                            if src0.get("decl") in gpd and gpd.index(src0["decl"]) < len(dargs):
                                sized_by_init = strip_all_casts(dargs[gpd.index(src0["decl"])]).get("decl") == sizep
            every = sized_by_init
            if not sized_by_init and ctor3.cfg_raw:
                sets = {c["id"] for fld2, kind, c, ln in facts.vector_sizing(ctor3, bufq) if kind == "set" and ln is not None and
                        strip_all_casts(facts.expand(ctor3, ln)).get("decl") == sizep}
                allp = paths.enumerate_paths(ctor3)
                every = bool(sets) and all(any(x["id"] in sets for x in q.calls()) for q in allp)
            # ... and those bytes are the caller's, unless there are none or the payload is kept as `invalid`: the copy is skipped for no other reason
            typep, datap = ctor3.params[0]["decl"], ctor3.params[1]["decl"]

            def excuse(a):
                """atom a (holding where the copy happens) is `size != 0` or `type != invalid`"""
                if a[0] == "truth":
                    x3 = strip_all_casts(a[3])
                    if x3.get("k") == "ref" and x3.get("dk") == "local" and (x3.get("t") or {}).get("k") == "bool" and len(facts.local_defs(ctor3).get(x3["decl"], [])) == 1:
                        # a named condition: judged by the atoms of its definition
                        sub = [b for b in facts.conjuncts(a[3], a[2], ctor3) if b[:3] != a[:3]]
                        return bool(sub) and all(excuse(b) for b in sub)
                    e3 = strip_all_casts(facts.expand(ctor3, a[3]))
                    if e3.get("k") == "call" and (e3.get("callee") or {}).get("nm") == "empty" and fb.is_payload_buffer(e3.get("obj", {})):
                        return a[2] is False  # the buffer was given `size` bytes: not empty <=> size != 0
                    if e3.get("k") == "call" and (e3.get("callee") or {}).get("nm") == "size" and fb.is_payload_buffer(e3.get("obj", {})):
                        return a[2] is True
                    return a[2] is True and e3.get("decl") == sizep
                if a[0] == "cmp":
                    for x, y, op in ((a[4], a[5], a[2]), (a[5], a[4], facts._flip_op(a[2]))):
                        xs = strip_all_casts(facts.expand(ctor3, x))
                        while xs.get("k") == "construct" and len(xs.get("args", [])) == 1:
                            xs = strip_all_casts(xs["args"][0])
                        if xs.get("decl") == sizep and const_value(strip_all_casts(y)) == 0 and op in ("!=", ">"):
                            return True
                        if xs.get("decl") == typep and op == "!=" and "invalid" in canon(y):
                            return True
                return False
            kept = None
            why_k = ""
            copies = [c for c in ctor3.calls() if facts.copy_args(c) and datap in reads(facts.copy_args(c)[1])] if ctor3.cfg_raw else []
            for c in copies:
                atoms = [a for a in MustFacts(ctor3).at(c)]
                badg = [a for a in atoms if not excuse(a)]
                kept = (kept is None or kept) and not badg
                if badg:
                    why_k = "the copy is made only under `%s`" % (badg[0][1][:60] + (" %s %s" % (badg[0][2], str(badg[0][3])[:30]) if badg[0][0] == "cmp" else ""))
            for i in ctor3.raw.get("inits", []) or []:
                if i.get("field") == bufq and isinstance(i.get("e"), dict) and datap in reads(i["e"]):
                    conds = [x for x in walk(i["e"]) if x.get("k") == "cond"]
                    if not conds:
                        kept = True if kept is None else kept  # unconditional range construction
                    for cn in conds:
                        copy_arm_a = datap in reads(cn["a"])
                        atoms = facts.conjuncts(cn["c"], copy_arm_a, ctor3)
                        atoms = [a for a in atoms if not (a[0] == "truth" and strip_all_casts(a[3]).get("k") == "bin")]
                        badg = [a for a in atoms if not excuse(a)]
                        kept = (kept is None or kept) and not badg and bool(atoms)
                        if badg:
                            why_k = "the bytes are taken only under `%s`" % badg[0][1][:70]
            res.check(bool(kept), rid, "%s(type,data,size):bytes-kept" % base.replace("ASAM::CMP::", ""), ctor3.loc,
                      "the caller's bytes are copied in unless there are none or the payload is kept as invalid",
                      "%s(type, data, size) does not keep the caller's bytes in every case it should (%s): a payload of a valid type reads back as zeros" %
                      (base, why_k or "no copy of the data found"))
            res.check(every, rid, "%s(type,data,size):length" % base.replace("ASAM::CMP::", ""), ctor3.loc,
                      "the payload buffer holds exactly `size` bytes on every path (also when the bytes are not kept)",
                      "%s(type, data, size) leaves the buffer shorter than `size` on some path: getLength() then differs from the wire length, and the "
                      "decoder's stride (payload length + 16) walks into the middle of the message" % base)


def rule_typed_ctor_keeps_size(fb, res, rid):
    """A typed payload built from (data, size) holds exactly those `size` bytes: its constructor hands (data, size) on unchanged — to its
    base, down to Payload(type, data, size) — and its body does not size the buffer again.  The validator judged the caller's (data, size);
    an object that stores fewer bytes (cut to the announced data, to the header for some flag) reports another length than the wire's, and
    its length fields, checked against the caller's size, now describe bytes it does not hold."""
    n = 0
    base = "ASAM::CMP::Payload"
    for cls in sorted(fb.derived_from(base)):
        short = cls.split("::")[-1]
        for ctor in fb.fns(cls + "::" + short):
            ps = ctor.params
            if not (len(ps) >= 2 and ps[-2]["t"].get("k") == "ptr" and ps[-1]["t"].get("k") == "int" and ps[-1]["t"].get("bits", 0) >= 32):
                continue
            datap, sizep = ps[-2]["decl"], ps[-1]["decl"]
            n += 1
            fwd = None
            for i in ctor.raw.get("inits", []) or []:
                e = i.get("e")
                if isinstance(e, dict) and e.get("k") in ("construct", "call") and (i.get("base") or i.get("delegating") or not i.get("field")):
                    a = facts.effective_call(e).get("args", [])
                    if len(a) >= 2:
                        fwd = (strip_all_casts(a[-2]).get("decl") == datap and strip_all_casts(a[-1]).get("decl") == sizep, canon(a[-1]))
            resized = [c for c in ctor.calls() if (c.get("callee") or {}).get("nm") in ("resize", "assign", "clear", "erase", "pop_back", "shrink_to_fit", "swap") and
                       fb.is_payload_buffer(c.get("obj", {}))] if ctor.body else []
            ok = fwd is not None and fwd[0] and not resized
            res.check(ok, rid, "%s(data,size):holds-size-bytes" % short, ctor.loc, "hands (data, size) on unchanged and does not size the buffer again",
                      "%s(data, size) %s: the object does not hold the `size` bytes its validator judged — getLength() differs from the wire length and "
                      "its length fields describe bytes it does not have" %
                      (cls, ("re-sizes its buffer (%s) after construction" % (resized[0].get("callee") or {}).get("nm")) if resized else
                       ("passes `%s` on as the size" % (fwd[1] if fwd else "nothing"))))
    if n < 7:
        raise Broken("typed payload constructors (data, size) not found (%d)" % n)
    return n


def run(ctx):
    fb = ctx.fb()
    res = Result("C04")
    spec = ctx.spec("plumbing.json")
    m = D.DecodeModel(fb)
    res.rule("C04-R1", "plumbing: each packet attribute stored while decoding depends on the matching getter of the current frame/message header and on "
                        "no other header getter (table /verif/spec/plumbing.json, sources matched by resolved callee)")
    res.rule("C04-R2", "stride: the message cursor and the remaining size move by the same value, which depends on the payload length and adds sizeof(MessageHeader)")
    res.rule("C04-R3", "invalid marking: in Packet::create every path on which a validator returned false constructs a Payload of type invalid, every path on "
                        "which validator X returned true constructs X; the CAN/CAN-FD and Ethernet validators test exactly the error bits of the protocol")
    res.rule("C04-R4", "truncation: packets are only constructed in the loop under isValidPacket evaluated on the current cursor and remaining size")
    res.rule("C04-R5", "positions: CmpHeader and MessageHeader getters read the wire positions of the layout oracle (G4 results of C12)")
    res.rule("C04-R6", "reported length = wire length: Payload(type, data, size) gives its buffer exactly `size` bytes on every path, also for payloads "
                        "kept as invalid (the decoder's stride is taken from the constructed packet's payload length)")
    res.not_decided += ["equality of every decoded field with the wire for every input; order beyond 'pushed in loop order'"]
    dec = m.decode
    D.rule_segtype_subject(res, "C04-R4", m)
    # ---- R1 unsegmented path
    up = [p for p in m.body_paths() if D.classify(p) == "unsegmented"]
    if not up:
        raise Broken("no unsegmented path")
    p = up[0]
    cons = D.constructions(fb, p)
    if len(cons) == 0 and (any(True for _ in p.calls(D.SEG + "::addSegment")) or any(True for _ in p.calls(D.SEG + "::SegmentedPacket"))):
        res.bad("C04-R1", "unsegmented:delivered", dec.loc, "on the path where the message is known to be unsegmented no packet is built from it: it is "
                "handed to the reassembly code instead, and the frame's remaining messages are not returned")
    if len(cons) != 1:
        raise Broken("unsegmented path: expected one construction of a Packet from (type, ptr, size), found %d" % len(cons))
    con = cons[0]
    mk = [con.site]
    a0, a1, a2 = con.mk["args"]
    cursor = strip_all_casts(con.actual(a1)).get("decl")
    sizev = strip_all_casts(con.actual(a2)).get("decl")

    def from_frame(e):
        """getters of the frame header that e depends on, and whether it is rooted in this datagram"""
        g = getters_in(con.fn, e, CH)
        roots = depends(con.fn, e)[0]
        rooted = "p0:data" in roots if not con.bind else any("p0:data" in depends(dec, con.bind[d])[0] for d in roots if d in con.bind)
        return g, rooted
    g0, r0 = from_frame(a0)
    res.check(g0 == {CH + "::getMessageType"} and r0, "C04-R1", "decode:message-type", con.mk.get("loc"),
              "message type <- CmpHeader::getMessageType of this frame", "packet message type comes from %s" % sorted(g0))
    for row in spec["asam_unsegmented"]:
        cs = con.calls(p, row["setter"])
        gs, rooted = from_frame(cs[0]["args"][0]) if len(cs) == 1 else (set(), False)
        ok = len(cs) == 1 and gs == {row["source"]} and rooted and facts.flows_unchanged(con.fn, cs[0]["args"][0], row["source"])
        ls = facts.lossy_step(con.fn, cs[0]["args"][0], row["source"]) if ok else None
        if ls:
            res.bad("C04-R1", "decode:%s:value-kept" % row["setter"].split("::")[-1], cs[0].get("loc"), "%s: wire values outside that type's range are reported changed" % ls)
        res.check(ok, "C04-R1", "decode:%s" % row["setter"].split("::")[-1], cs[0].get("loc") if cs else dec.loc,
                  "%s <- %s" % (row["setter"].split("::")[-1], row["source"].split("::")[-1]),
                  "%s is fed from %s, expected exactly %s" % (row["setter"], sorted(gs) if cs else "nothing", row["source"]))
    # reassembled path
    cps0 = [q for q in m.body_paths() if D.classify(q) == "continuation-completes"]
    if not cps0:
        raise Broken("decode loop: no path on which a continuation segment completes a message")
    cp = cps0[0]
    for st in ("ASAM::CMP::Packet::setDeviceId", "ASAM::CMP::Packet::setStreamId"):
        want = CH + "::get" + st.split("::set")[-1]
        cs = list(cp.calls(st))
        ok = len(cs) == 1 and getters_in(dec, cs[0]["args"][0], CH) == {want}
        if not cs:
            # the id is set by a callee of this path that is handed it: `getPacket(deviceId, streamId)` sets it on the packet it builds
            for _, c0 in cp.elems():
                g0_ = fb.resolve_call(c0) if c0.get("k") == "call" else None
                if g0_ is None or g0_.body is None or not g0_.raw.get("inrepo"):
                    continue
                inner = list(g0_.calls(st))
                if len(inner) != 1:
                    continue
                a_in = strip_all_casts(facts.expand(g0_, inner[0]["args"][0]))
                pd_ = [q["decl"] for q in g0_.params]
                ec = facts.effective_call(c0)
                if a_in.get("k") == "ref" and a_in.get("decl") in pd_ and len(ec.get("args", [])) > pd_.index(a_in["decl"]) and \
                        all(any(x is inner[0] or x.get("id") == inner[0]["id"] for _, x in q.elems()) for q in paths.enumerate_paths(g0_) if q.end == "exit"):
                    actual = ec["args"][pd_.index(a_in["decl"])]
                    cs = [c0]
                    ok = getters_in(dec, actual, CH) == {want}
                    break
        res.check(ok, "C04-R1", "decode:reassembled:%s" % st.split("::")[-1], cs[0].get("loc") if cs else dec.loc, "%s <- %s" % (st.split("::")[-1], want.split("::")[-1]),
                  "reassembled packet: %s not fed from %s" % (st, want))
    # Packet(msgType, data, size)
    ctor = [f for f in fb.fns(PKT + "::Packet") if len(f.params) == 3]
    if len(ctor) != 1:
        raise Broken("Packet(msgType,data,size) not found")
    ctor = ctor[0]
    datap = ctor.params[1]["decl"]
    cr = list(ctor.calls(PKT + "::create"))
    smh = list(ctor.calls(PKT + "::setMessageHeader"))
    inplace = False
    if len(cr) == 1 and not smh and fb.fn_opt(PKT + "::setMessageHeader") is None:
        # the header reader written out in the constructor itself: the statements that copy the header fields stand where the call stood
        st = [x for x in ctor.calls(PKT + "::setTimestamp")]
        if len(st) == 1:
            hobj = [y.get("obj") for y in walk(st[0]["args"][0]) if y.get("k") == "call" and callee_name(y) == MH + "::getTimestamp" and "obj" in y]
            if len(hobj) == 1:
                inplace = True
                smh = [{"k": "call", "id": st[0]["id"], "loc": st[0].get("loc"), "args": [{"k": "ref", "dk": "param", "decl": ctor.params[0]["decl"], "t": ctor.params[0]["t"]}, hobj[0]]}]
    if len(cr) != 1 or len(smh) != 1:
        raise Broken("Packet constructor: expected one create() and one setMessageHeader()")
    c = cr[0]
    t_ok = getters_in(ctor, c["args"][0], MH) == {MH + "::getPayloadType"} and ctor.params[0]["decl"] in depends(ctor, c["args"][0])[0]
    res.check(t_ok, "C04-R1", "Packet():payload-type", c.get("loc"), "payload type <- {frame message type, MessageHeader::getPayloadType}",
              "payload type is built from %s" % sorted(getters_in(ctor, c["args"][0], MH)))
    pa = strip_all_casts(c["args"][1])
    p_ok = pa.get("k") == "bin" and pa.get("op") == "+" and strip_all_casts(pa["l"]).get("decl") == datap and \
        strip_all_casts(pa["r"]).get("k") == "sizeof" and strip_all_casts(pa["r"]).get("ofrec") == MH
    res.check(p_ok, "C04-R1", "Packet():payload-bytes", c.get("loc"), "payload bytes <- data + sizeof(MessageHeader)", "payload pointer is %s" % canon(pa))
    l_ok = getters_in(ctor, c["args"][2], MH) == {MH + "::getPayloadLength"}
    res.check(l_ok, "C04-R1", "Packet():payload-length", c.get("loc"), "payload length <- MessageHeader::getPayloadLength",
              "payload length is taken from %s" % sorted(getters_in(ctor, c["args"][2], MH)))
    # header views are at offset 0 of data
    # the header argument: the one whose type is MessageHeader (whatever its position)
    hargs = [a for a in smh[0].get("args", []) if "MessageHeader" in ((strip(a).get("t") or {}).get("s") or (strip_all_casts(a).get("t") or {}).get("s") or "")]
    if not hargs:
        raise Broken("Packet constructor: setMessageHeader is not given a MessageHeader")
    harg = hargs[0]
    hv = strip_all_casts(harg)
    while hv.get("k") in ("construct",) and hv.get("args"):
        hv = strip_all_casts(hv["args"][0])
    hd, _ = depends(ctor, harg)
    plus = any(x.get("k") == "bin" and x.get("op") in ("+", "-") for x in facts.walk(harg))
    at0 = datap in hd and not plus
    if not at0 and hv.get("k") == "ref" and hv.get("dk") == "local" and (hv.get("t") or {}).get("rec") == MH:
        # a local MessageHeader filled by one raw copy of sizeof(MessageHeader) bytes from offset 0 of the message
        from rules.c02 import prov
        cps = [facts.copy_args(x) for x in ctor.calls() if facts.copy_args(x)]
        cps = [ca for ca in cps if strip_all_casts(ca[0]).get("k") == "un" and strip_all_casts(strip_all_casts(ca[0])["e"]).get("decl") == hv["decl"]]
        if len(cps) == 1:
            ps = prov(ctor, cps[0][1])
            at0 = ps.kind == "param" and ps.base == datap and ps.off == 0 and const_value(cps[0][2]) == fb.record(MH)["size"] and \
                not any(d == hv["decl"] and kind != "addr" for d, kind, _ in facts.writes_of(ctor))
    res.check(at0, "C04-R1", "Packet():header-view", smh[0].get("loc"), "message header taken from offset 0 of the message", "message header is not read at the start of the message")
    # setMessageHeader rows
    f = ctor if inplace else fb.fn(PKT + "::setMessageHeader")
    en = {e["name"]: e["value"] for e in fb.enum(CH + "::MessageType")["enumerators"]}
    from cmpverif import tables
    sel = [prm["decl"] for prm in f.params if (prm["t"].get("s") or "").replace("const ", "").strip().endswith("MessageType")]
    if len(sel) != 1:
        # the id field of a message header is chosen by the *frame's* message type (the constructor's argument); a choice made from
        # the packet's own state (e.g. the payload's type, which is 0 for a payload kept as invalid) loses the id of such packets
        res.bad("C04-R1", "setMessageHeader:selector", f.loc,
                "Packet::setMessageHeader does not receive the frame's message type as a parameter: which id field it copies is decided by "
                "something else (%s) — for a message whose payload is marked invalid the interface / vendor id of the wire is not reported" %
                sorted(callee_name(c) for c in f.calls() if "MessageType" in (callee_name(c) or ""))[:3])
        sel = [None]
    elif not inplace:
        # and the argument bound to it in the constructor is the constructor's own message-type parameter
        ca = facts.effective_call(smh[0]).get("args", [])
        pidx = [prm["decl"] for prm in f.params].index(sel[0])
        bound = strip_all_casts(ca[pidx]) if pidx < len(ca) else {}
        res.check(bound.get("decl") == ctor.params[0]["decl"], "C04-R1", "Packet():message-type-arg", smh[0].get("loc"),
                  "setMessageHeader receives the constructor's frame message type", "setMessageHeader is not given the frame's message type")
    setters = {row["setter"] for row in spec["message_header"]}
    other = max(en.values()) + 1

    def executed(v):
        try:
            return tables.trace(f, lambda n: v if n.get("k") == "ref" and n.get("decl") == sel[0] else None,
                                lambda c: callee_name(c) in setters)
        except tables.Unsupported as ex:
            raise Broken("Packet::setMessageHeader is not a table over the message type: %s" % ex)
    if sel[0] is None:
        per_type = None
    else:
        per_type = {nm: executed(v) for nm, v in en.items()}
    if per_type is not None:
        per_type["<other>"] = executed(other)
    for row in (spec["message_header"] if per_type is not None else []):
        tag = row["setter"].split("::")[-1]
        if "message_types" not in row:
            cs = list(f.calls(row["setter"]))
            ok = len(cs) == 1 and getters_in(f, cs[0]["args"][0], MH) == {row["source"]} and facts.flows_unchanged(f, cs[0]["args"][0], row["source"])
            ls = facts.lossy_step(f, cs[0]["args"][0], row["source"]) if ok else None
            if ls:
                res.bad("C04-R1", "setMessageHeader:%s:value-kept" % tag, cs[0].get("loc"), "%s: wire values outside that type's range are reported changed" % ls)
            on_all = all(any(callee_name(x) == row["setter"] for x in ex) for ex in per_type.values())
            res.check(ok and on_all, "C04-R1", "setMessageHeader:%s" % tag, cs[0].get("loc") if cs else f.loc, "%s <- %s for every message type" % (tag, row["source"].split("::")[-1]),
                      "%s is not fed from exactly %s for every message type" % (tag, row["source"]))
        else:
            for nm in en:
                cs = [x for x in per_type[nm] if callee_name(x) == row["setter"]]
                if nm in row["message_types"]:
                    ok = len(cs) == 1 and getters_in(f, cs[0]["args"][0], MH) == {row["source"]} and facts.flows_unchanged(f, cs[0]["args"][0], row["source"])
                    ls = facts.lossy_step(f, cs[0]["args"][0], row["source"]) if ok else None
                    if ls:
                        res.bad("C04-R1", "setMessageHeader:%s:%s:value-kept" % (nm, tag), cs[0].get("loc"), "%s: wire values outside that type's range are reported changed" % ls)
                    res.check(ok, "C04-R1", "setMessageHeader:%s:%s" % (nm, tag), cs[0].get("loc") if cs else f.loc, "%s message: %s <- %s" % (nm, tag, row["source"].split("::")[-1]),
                              "%s message: %s is not fed from %s" % (nm, tag, row["source"]))
                else:
                    res.check(not cs, "C04-R1", "setMessageHeader:%s:no-%s" % (nm, tag), f.loc, "%s message does not set %s" % (nm, tag),
                              "%s message sets %s although its header has no such field" % (nm, tag))
    # ---- R2 stride
    moved = {}
    for x in walk(m.loop_stmt.get("body", {})):
        if x.get("k") == "cassign" and x.get("op") in ("+", "-"):
            moved.setdefault(lvalue_root(x["l"]), []).append((x["op"], x))
    mc, ms = moved.get(cursor, []), moved.get(sizev, [])
    ok = len(mc) == 1 and len(ms) == 1 and mc[0][0] == "+" and ms[0][0] == "-" and \
        canon(strip_all_casts(mc[0][1]["r"])) == canon(strip_all_casts(ms[0][1]["r"]))
    res.check(ok, "C04-R2", "stride:same-value", mc[0][1].get("loc") if mc else dec.loc, "cursor += v and remaining -= v with the same v",
              "message cursor and remaining size do not move by the same value: %s / %s" % ([canon(x[1]) for x in mc], [canon(x[1]) for x in ms]))
    if mc:
        def syms(x):
            if x.get("k") == "call" and callee_name(x) in (PKT + "::getPayloadLength", MH + "::getPayloadLength"):
                return "len"
            return None
        form = D._linear(dec, mc[0][1]["r"], syms)
        hdr = fb.record(MH)["size"]
        ok = form is not None and form.get("len") == 1 and form.get(1) == hdr and set(form) <= {"len", 1}
        res.check(ok, "C04-R2", "stride:value", mc[0][1].get("loc"), "stride = payload length + %d (sizeof(MessageHeader)), as a linear form" % hdr,
                  "stride is %s as a linear form over the payload length; the wire stride is payload length + %d" % (form, hdr))
    # ---- R4 truncation guard on the current cursor
    mf = MustFacts(dec)
    for c2 in [mk[0]] + [x for q in m.body_paths() for x in q.calls(D.SEG + "::SegmentedPacket", D.SEG + "::addSegment")]:
        at = dec.node(c2["_site"]) if c2.get("_site") is not None else c2  # an element of a spliced helper runs at the helper's call site
        fs = mf.at(at)
        want = "ASAM::CMP::Packet::isValidPacket(%s, %s)" % (cursor, sizev)
        ok = any(a[0] == "truth" and a[2] is True and a[1] == want for a in fs)
        if c2.get("_site") is not None:
            # inside the helper the message is the helper's (pointer, size) parameters, bound to the cursor pair at the call
            a2 = facts.effective_call(c2).get("args", [])
            ok = ok and len(a2) >= 2 and strip_all_casts(a2[0]).get("decl") == cursor and strip_all_casts(a2[1]).get("decl") == sizev
        res.check(ok, "C04-R4", "guard:%s" % (callee_name(c2) or "").split("::")[-1][:30], c2.get("loc"), "dominated by isValidPacket(cursor, remaining) on the current values",
                  "a message is consumed without isValidPacket having been evaluated on the current cursor and remaining size")
    # the validator itself is right (shared with C03-R4): a message is "complete" exactly when header and declared payload lie inside the remaining bytes
    from rules import c03
    c03res = c03.run(ctx)
    for o in c03res.obligations:
        if o["rule"] == "C03-R4" and o["key"].startswith("isValidPacket:"):
            res.check(o["ok"], "C04-R4", "complete-message:" + o["key"], o["loc"], o["detail"], o["detail"])
    c03.rule_message_validator_exact(fb, res, "C04-R4", "complete-message:isValidPacket:")
    # "a payload whose inner structure is inconsistent with its length is marked invalid": what each payload validator guarantees covers the
    # header and the inner lengths its class reports (C03-R1, R2a, R2b) — a validator that accepts less misparses instead of marking invalid
    for o in c03res.obligations:
        if o["rule"] in ("C03-R1", "C03-R2a", "C03-R2b"):
            res.check(o["ok"], "C04-R3", "consistent-with-length:" + o["key"], o["loc"], o["detail"], o["detail"])
    # the loop continues as long as a complete (possibly empty) message can remain
    leaf = dec.cfg.branch_leaf(m.loop_block)
    a = facts.atom_of(leaf, True)
    hdr = fb.record(MH)["size"]
    okc = False
    if a[0] == "cmp":
        for x, y, o in ((a[1], a[5], a[2]), (a[3], a[4], facts._flip_op(a[2]))):
            c = const_value(y)
            if x == sizev and c is not None:
                okc = (o == ">" and c < hdr) or (o == ">=" and c <= hdr) or (o == "!=" and c == 0)
    res.check(okc, "C04-R4", "loop:continues-while-a-message-fits", leaf.get("loc"), "loop condition holds whenever >= %d bytes remain" % hdr,
              "the message loop stops (`%s`) although a complete message of %d bytes (empty payload) may remain: it is silently skipped" % (canon(leaf), hdr))
    # ---- R3 invalid marking + dispatch
    cre = fb.fn(PKT + "::create")
    nrows = 0
    def is_mk(e):
        return any(x.get("k") == "call" and (callee_name(x) or "").startswith("std::make_unique") for x in walk(e))
    for q in paths.return_rows(fb, cre, is_mk):
        r = q.ret
        v = [x for x in walk(r["e"]) if x.get("k") == "call" and (callee_name(x) or "").startswith("std::make_unique")]
        if len(v) != 1:
            raise Broken("Packet::create: return without make_unique (%s)" % r.get("loc"))
        cls = (v[0].get("callee") or {}).get("targs", ["?"])[0]
        vals = [(callee_name(a[3]).rsplit("::", 1)[0], a[2]) for a in q.atoms if a[0] == "truth" and a[3].get("k") == "call" and (callee_name(a[3]) or "").endswith("::isValidPayload")]
        sw = [a for a in q.atoms if a[0] == "switch"]
        case = sw[0][2] if sw else None
        nrows += 1
        if vals and vals[-1][1] is False:
            a0 = v[0]["args"][0] if v[0].get("args") else None
            inv = a0 is not None and any(const_value(x) == 0 for x in walk(a0))
            res.check(cls == "ASAM::CMP::Payload" and inv, "C04-R3", "create:case-%s:rejected" % case, r.get("loc"), "validator false -> Payload marked invalid",
                      "payload type case %s: a payload rejected by its validator is returned as %s (not marked invalid)" % (case, cls))
        elif vals and vals[-1][1] is True:
            vcls = vals[-1][0]
            same = vcls == cls or cls in fb.derived_from(vcls) or vcls in fb.bases_of(cls)
            res.check(same, "C04-R3", "create:case-%s:accepted" % case, r.get("loc"), "validated by %s, constructed as %s" % (vcls.split("::")[-1], cls.split("::")[-1]),
                      "payload type case %s is validated by %s::isValidPayload but constructed as %s" % (case, vcls, cls))
        else:
            # no validator was asked on this row: only a type that has none may leave this way (the switch's default), or a payload marked invalid
            a0 = v[0]["args"][0] if v[0].get("args") else None
            inv = a0 is not None and any(const_value(x) == 0 and "invalid" in canon(x) for x in walk(a0))
            res.check(case == "default" or inv, "C04-R3", "create:unvalidated@%s" % (r.get("loc") or "").split(":", 1)[-1], r.get("loc"),
                      "returned without a validator only for types that have none (default case) or marked invalid",
                      "Packet::create returns a payload (`%s`) on a path on which no validator was asked and which is not the switch's default: a message "
                      "of a known payload type is delivered as a valid payload of that type whatever its bytes are (an empty CAN message reads as valid)" %
                      canon(v[0])[:80])
    # error bits
    interp = accessors.HeaderInterp(fb, None)
    for cls, eb in spec["error_bits"].items():
        if cls.endswith("CanPayloadBase"):
            hrec = cls + "::Header"
            he = fb.fn(hrec + "::hasError")
            r = fb.record(hrec)
            try:
                _, ret = interp.run(he, r["size"], {})
            except g4.Unsupported as e:
                raise Broken("hasError outside the G4 vocabulary: %s" % e)
            got = {a[1] for a in g4.atoms(ret.bits[0])}
            pos = accessors.wire_pos(0, 2)
            want = {pos(b) for b in eb["flags"]} | set(range(12 * 8, 14 * 8))
            res.check(got == want and ret.bits[0][0] == "or", "C04-R3", "error-bits:CAN", he.loc, "hasError() = OR of flag bits 0..9 and the error position",
                      "hasError() tests wire bits %s, protocol error bits are %s" % (sorted(got ^ want)[:8], "flags 0..9 + error position"))
            val = fb.fn(cls + "::isValidPayload")
            uses = all(any(a[0] == "truth" and a[2] is False and a[3].get("k") == "call" and callee_name(a[3]) == hrec + "::hasError" for a in atoms)
                       for atoms in implied_atoms(val))
            res.check(uses, "C04-R3", "error-bits:CAN:validator", val.loc, "validator requires !hasError()", "CAN validator does not reject frames with bus-error flags")
        else:
            val = fb.fn(cls + "::isValidPayload")
            mask = sum(1 << b for b in eb["flags"])
            hrec = cls + "::Header"
            he = fb.fn_opt(hrec + "::hasError")
            via_method = he is not None and all(any(a[0] == "truth" and a[2] is False and a[3].get("k") == "call" and callee_name(a[3]) == hrec + "::hasError"
                                                    for a in atoms) for atoms in implied_atoms(val))
            if via_method:
                r = fb.record(hrec)
                try:
                    _, ret = interp.run(he, r["size"], {})
                except g4.Unsupported as e:
                    raise Broken("hasError outside the G4 vocabulary: %s" % e)
                got = {a[1] for a in g4.atoms(ret.bits[0])}
                pos = accessors.wire_pos(0, 2)
                want = {pos(b) for b in eb["flags"]}
                res.check(got == want, "C04-R3", "error-bits:Ethernet", he.loc, "hasError() = OR of exactly the error flag bits %s" % eb["flags"],
                          "Ethernet hasError() tests wire bits %s of the flags field, the protocol's error bits are %s" %
                          (sorted((b % 8) + 8 * (1 - b // 8) for b in got), eb["flags"]))
            else:
                def tests_mask(atoms):
                    for a in atoms:
                        if a[0] == "cmp" and a[2] == "==" and const_value(a[5]) == 0:
                            x = strip_all_casts(a[4])
                            if x.get("k") == "bin" and x.get("op") == "&" and const_value(x["r"]) == mask and (callee_name(strip_all_casts(x["l"])) or "").endswith("::getFlags"):
                                return True
                    return False
                ok = all(tests_mask(atoms) for atoms in implied_atoms(val))
                res.check(ok, "C04-R3", "error-bits:Ethernet", val.loc, "validator requires (getFlags() & 0x%X) == 0" % mask, "Ethernet validator does not test exactly the error bits 0x%X" % mask)
    # closed world of invalidity: what a payload validator may hold against a payload.  Frozen from the property: inner lengths that do not fit
    # (every kind), bus-error flags (CAN, CAN-FD, Ethernet only), an undefined sample type (analog), an undefined interface status (interface
    # status).  A validator that looks at any other header field turns well-formed payloads into invalid ones.
    ALLOWED = {"CanPayload": {"hasError", "getDataLength"}, "CanFdPayload": {"hasError", "getDataLength"}, "LinPayload": {"getDataLength"},
               "EthernetPayload": {"getFlags", "hasError", "getDataLength"}, "AnalogPayload": {"getSampleDt"}, "CaptureModulePayload": set(),
               "InterfacePayload": {"getInterfaceStatus"}}
    from cmpverif.accessors import header_view_record
    from rules.decoder_rules import _linear as _lin4
    NS = "ASAM::CMP::"
    for cls in c03.CLASSES:
        val = c03.find_method(fb, NS + cls, "isValidPayload")
        hsz = fb.record(header_view_record(fb, NS + cls))["size"]
        sizep = val.params[1]["decl"]
        badv = None
        for atoms in implied_atoms(val):
            for a in atoms:
                if a[0] == "truth" and len(atoms) > 1:
                    # a named condition (`const bool dataFits = ...; return dataFits && errorFree;`): the atoms of its definition are in the
                    # list as well and are the ones to judge
                    a3 = strip_all_casts(a[3])
                    if a3.get("k") == "ref" and a3.get("dk") == "local" and (a3.get("t") or {}).get("k") == "bool" and \
                            len(facts.local_defs(val).get(a3["decl"], [])) == 1 and \
                            len(facts.conjuncts(a[3], a[2], val)) > 1:
                        continue
                nodes = [a[4], a[5]] if a[0] == "cmp" else [a[3]]
                used = set()
                for nd in nodes:
                    ex = facts.expand(val, nd)
                    used |= {c.split("::")[-1] for c in called_names(ex) if "::Header::" in c}
                    for x in walk(ex):
                        if x.get("k") == "subscript" and c03.raw_byte_getter(val, x):
                            used.add(c03.raw_byte_getter(val, x).split("::")[-1])
                extra = used - ALLOWED[cls]
                # the payload size takes part in validity only as a bound: `size >= K`, or `length field (+ K) <= size (- K)`; anything else
                # (a modulus, a mask, an exact size) makes payloads of some lengths invalid although their header and lengths fit
                size_in = any(x.get("k") == "ref" and x.get("decl") == sizep for nd in nodes for x in walk(facts.expand(val, nd)))
                if size_in and not extra:
                    def sy2(z):
                        if z.get("k") == "ref" and z.get("decl") == sizep:
                            return "n"
                        if z.get("k") == "call" and "::Header::get" in (callee_name(z) or ""):
                            return "L:" + callee_name(z).split("::")[-1]
                        if z.get("k") == "subscript" and c03.raw_byte_getter(val, z):
                            return "L:" + c03.raw_byte_getter(val, z).split("::")[-1]
                        return None
                    lin_ok = False
                    if a[0] == "cmp" and a[2] in (">=", ">", "<", "<="):
                        l2, r2 = _lin4(val, a[4], sy2), _lin4(val, a[5], sy2)
                        if l2 is not None and r2 is not None:
                            d2 = dict(l2)
                            for k2, v2 in r2.items():
                                d2[k2] = d2.get(k2, 0) - v2
                            op2 = a[2]
                            if d2.get("n", 0) < 0:
                                d2 = {k2: -v2 for k2, v2 in d2.items()}
                                op2 = {"<": ">", "<=": ">=", ">": "<", ">=": "<="}[op2]
                            others = {k2: v2 for k2, v2 in d2.items() if k2 not in ("n", 1) and v2}
                            lin_ok = d2.get("n") == 1 and op2 in (">", ">=") and all(str(k2).startswith("L:") and v2 == -1 for k2, v2 in others.items())
                    if not lin_ok:
                        badv = badv or "the payload size enters the decision through `%s`, which is not a lower bound on it: payloads of some sizes are turned " \
                            "invalid although their header and announced lengths fit" % ((a[1][:70] + " " + a[2] + " " + str(a[3])[:30]) if a[0] == "cmp" else a[1][:90])
                if extra:
                    badv = badv or "it accepts a payload only under `%s`, which looks at %s" % ((a[1][:70] + " " + a[2] + " " + a[3][:30]) if a[0] == "cmp" else a[1][:90], sorted(extra))
                elif not used and a[0] == "cmp" and a[2] in (">=", ">", "<", "<="):
                    def sy(z):
                        return "n" if z.get("k") == "ref" and z.get("decl") == sizep else None
                    l, r = _lin4(val, a[4], sy), _lin4(val, a[5], sy)
                    if l is not None and r is not None:
                        d = dict(l)
                        for k2, v2 in r.items():
                            d[k2] = d.get(k2, 0) - v2
                        op = a[2]
                        if d.get("n", 0) < 0:
                            d = {k2: -v2 for k2, v2 in d.items()}
                            op = {"<": ">", "<=": ">=", ">": "<", ">=": "<="}[op]
                        if d.get("n") == 1 and set(d) <= {"n", 1} and op in (">", ">="):
                            need = -d.get(1, 0) + (1 if op == ">" else 0)
                            if need > hsz:
                                badv = badv or "it requires %d bytes although the %s header has %d: a payload that is just its header (no data) is turned invalid" % (need, cls, hsz)
        res.check(badv is None, "C04-R3", "invalid-only-for-protocol-reasons:%s" % cls, val.loc, "the validator looks at nothing but the size, %s" % (sorted(ALLOWED[cls]) or "no header field"),
                  "%s::isValidPayload marks payloads invalid for a reason the protocol does not give: %s" % (cls, badv))
    # ... and an enumerated header field is held against a payload only when its value is none of the enumerators the API defines: every
    # defined value (interface status `disabled`, sample type `aInt32`, ...) is accepted
    for cls, getter in (("AnalogPayload", "getSampleDt"), ("InterfacePayload", "getInterfaceStatus")):
        val = c03.find_method(fb, NS + cls, "isValidPayload")
        gq = [c for c in val.calls() if (callee_name(c) or "").endswith("::Header::" + getter)]
        if not gq:
            continue  # the validator does not look at the field at all: nothing is rejected for it
        en_name = (gq[0].get("t") or {}).get("enum")
        if not en_name:
            raise Broken("%s::%s does not return an enumeration" % (cls, getter))
        en = fb.enum(en_name)

        def ev(e, v, depth=0):
            """value of expression e when the getter yields v; None = unknown"""
            e = strip_all_casts(facts.expand(val, e))
            cv = const_value(e)
            if cv is not None:
                return cv
            k = e.get("k")
            if k == "call" and (callee_name(e) or "").endswith("::Header::" + getter):
                return v
            if k == "call" and e.get("op") in ("==", "!=", "<", "<=", ">", ">=") and len(([e["obj"]] if "obj" in e else []) + e.get("args", [])) == 2:
                ops = ([e["obj"]] if "obj" in e else []) + e.get("args", [])
                e = {"k": "bin", "op": e["op"], "l": ops[0], "r": ops[1]}
                k = "bin"
            if k == "un" and e.get("op") == "!":
                x = ev(e["e"], v, depth + 1)
                return None if x is None else int(not x)
            if k == "bin" and depth < 8:
                a, b = ev(e["l"], v, depth + 1), ev(e["r"], v, depth + 1)
                op = e["op"]
                if op == "&&":
                    return 0 if (a == 0 or b == 0) else (1 if (a is not None and b is not None) else None)
                if op == "||":
                    return 1 if (a not in (None, 0) or b not in (None, 0)) else (0 if (a == 0 and b == 0) else None)
                if a is None or b is None:
                    return None
                return {"==": int(a == b), "!=": int(a != b), "<": int(a < b), "<=": int(a <= b), ">": int(a > b), ">=": int(a >= b)}.get(op)
            return None
        mfv = MustFacts(val)
        rejected = []
        for enr in en["enumerators"]:
            v = enr["value"]
            accepted = False
            for r in val.returns():
                e = r.get("e")
                if const_value(e) == 0:
                    continue
                okr = ev(e, v) != 0
                for a in mfv.at(r):
                    if a[0] == "cmp":
                        x = ev({"k": "bin", "op": a[2], "l": a[4], "r": a[5]}, v)
                    else:
                        x = ev(a[3], v)
                        x = None if x is None else int(bool(x) == a[2])
                    if x == 0:
                        okr = False
                if okr:
                    accepted = True
            if not accepted:
                rejected.append(enr["name"])
        res.check(not rejected, "C04-R3", "defined-values-accepted:%s:%s" % (cls, getter), val.loc, "every enumerator of %s is accepted" % en_name.split("::")[-1],
                  "%s::isValidPayload rejects payloads whose %s is %s, a value the API defines: well-formed messages are marked invalid" %
                  (cls, getter[3:], ", ".join(rejected)))
    rule_reported_length(fb, res)
    rule_typed_ctor_keeps_size(fb, res, "C04-R6")
    # ---- R5 positions
    obs, ast = accessors.analyse(fb, ctx.spec("layout.json"), scope=lambda cls, stem: cls in (CH, MH))
    for o in obs:
        if o.cls in (CH, MH) and o.tag == "position" and "::get" in o.key:
            res.check(o.ok, "C04-R5", o.key, o.loc, o.detail)
    accessors.require_supported(ast)
    res.floor("C04-R1", 18)
    res.floor("C04-R2", 2)
    res.floor("C04-R3", 17)
    res.floor("C04-R4", 3)
    res.floor("C04-R5", 10)
    return res
