"""C20 — Outputs never contain or depend on uninitialised memory (definite-initialisation rules)."""
import os
import subprocess
from concurrent.futures import ThreadPoolExecutor

from cmpverif import build, facts, paths
from cmpverif.build import Broken
from cmpverif.facts import callee_name, canon, const_value, depends, strip, strip_all_casts, walk
from cmpverif.report import Result
from rules import encoder_rules as E
from rules import c13

LEVEL = "other"
SCALAR = ("int", "enum", "bool", "float", "ptr")


def construction_sites(fb, rec):
    """Places where an object of record `rec` is created with members left indeterminate: variables, temporaries,
    members, new.  A site that initialises every member (aggregate initialisation with one initialiser per field,
    value-initialisation `T{}` / `T()`, a copy of another object, the result of a function) does not count."""
    nfields = len(fb.records[rec]["fields"]) if rec in fb.records else 0

    def full(init):
        """the initialiser defines every member"""
        if not isinstance(init, dict):
            return False
        x = facts.strip_all_casts(init)
        if x.get("k") == "initlist":
            return len(x.get("inits", [])) >= nfields or not x.get("inits")  # all fields named, or {} (value-initialisation zeroes the rest)
        if x.get("k") == "construct":
            if x.get("copy") or x.get("move") or x.get("listinit"):
                return True
            if len(x.get("args", [])) == 1:
                return full(x["args"][0])
            return False
        if x.get("k") == "call":
            return True  # built by the callee (its own construction site is judged there)
        return False
    out = []
    for f in fb.all_functions():
        covered = set()
        for n in f.nodes():
            if n.get("k") == "decl":
                for v in n.get("vars", []):
                    t = v.get("t") or {}
                    if t.get("rec") == rec and not t.get("ref") and t.get("k") == "rec":
                        if full(v.get("init")):
                            covered.update(y.get("id") for y in facts.walk(v["init"]))
                        else:
                            out.append((f, n.get("loc")))
            elif n.get("k") == "return" and isinstance(n.get("e"), dict) and full(n["e"]) and \
                    ((facts.strip_all_casts(n["e"]).get("t") or {}).get("rec") == rec or facts.strip_all_casts(n["e"]).get("rec") == rec):
                covered.update(y.get("id") for y in facts.walk(n["e"]))
        for n in f.nodes():
            if n.get("id") in covered:
                continue
            if n.get("k") == "construct" and n.get("rec") == rec:
                if n.get("copy") or n.get("move") or n.get("listinit") or n.get("args"):
                    continue
                out.append((f, n.get("loc")))
            elif n.get("k") == "initlist" and n.get("rec") == rec and not (len(n.get("inits", [])) >= nfields or not n.get("inits")):
                out.append((f, n.get("loc")))
            elif n.get("k") == "new" and rec.split("::")[-1] in (n.get("alloct") or "") and rec in (n.get("alloct") or ""):
                out.append((f, n.get("loc")))
    for r in fb.records.values():
        if r["union"]:
            continue  # an alternative of a union: covered by the union rule (initialised alternative spans the union)
        for fld in r["fields"]:
            if (fld["t"].get("rec") == rec) and fld["t"].get("k") == "rec" and not isinstance(fld.get("init"), dict):
                out.append((None, fld["loc"]))
    return out


def rule_raw_outputs(fb, res, rid):
    """A function that hands out raw header bytes through an untyped output pointer (`void* dest`) must produce
    every byte: the only use of the pointer is as destination of whole-object copies out of local objects
    (judged by C20-R2: no padding, all members initialised).  Viewing `dest` as a record and calling setters on
    it leaves the bytes no setter touches — reserved bytes, fields of other message kinds — as the caller's buffer had them."""
    n = 0
    for f in sorted(fb.all_functions(), key=lambda f: f.name):
        if not f.body:
            continue
        for prm in f.params:
            t = prm["t"]
            if t.get("k") != "ptr" or t.get("pconst") or (t.get("pointee") or "") != "void":
                continue
            n += 1
            bad = []
            for x in f.nodes():
                if x.get("k") == "ref" and x.get("decl") == prm["decl"]:
                    par = f.parent(x)
                    while par is not None and par.get("k") == "cast" and not (par.get("t") or {}).get("prec"):
                        par = f.parent(par)
                    ok = False
                    if par is not None and par.get("k") == "call" and facts.copy_args(par) is not None:
                        dst, src, ln = facts.copy_args(par)
                        srcn = strip_all_casts(src)
                        so = strip_all_casts(srcn["e"]) if srcn.get("k") == "un" and srcn.get("op") == "&" else {}
                        # a local object, or an object the caller hands in by reference (a `writeHeader(dest, header)` helper): whole objects
                        # of a record type, whose bytes C20-R1/R2 judge by type
                        whole = so.get("dk") == "local" or (so.get("dk") == "param" and (so.get("t") or {}).get("k") == "rec")
                        ok = any(y.get("id") == x.get("id") for y in facts.walk(dst)) and whole and const_value(ln) is not None
                    elif par is not None and par.get("k") == "call":
                        # handed on to a function that takes it as an untyped output pointer again: judged there by this same rule
                        g = fb.resolve_call(par)
                        args = facts.effective_call(par).get("args", [])
                        idx = [i for i, a in enumerate(args) if any(y.get("id") == x.get("id") for y in facts.walk(a))]
                        if g is not None and g.body and len(idx) == 1 and idx[0] < len(g.params):
                            gt = g.params[idx[0]]["t"]
                            ok = gt.get("k") == "ptr" and not gt.get("pconst") and (gt.get("pointee") or "") == "void" and \
                                strip_all_casts(args[idx[0]]).get("id") == x.get("id")
                    if not ok:
                        bad.append(x)
            res.check(not bad, rid, "raw-output:%s:%s" % (f.name.split("::")[-1], prm.get("name")), (bad[0] if bad else f.raw).get("loc"),
                      "`%s` only receives whole-object copies of local objects" % prm.get("name"),
                      "%s writes through `%s` other than by copying a complete local object into it: bytes that no setter writes (reserved bytes, "
                      "the id field of other message kinds) keep what the caller's buffer held" % (f.name, prm.get("name")))
    return n


def run(ctx):
    fb = ctx.fb()
    res = Result("C20")
    res.rule("C20-R1", "every scalar member of every record has an in-class initialiser or is initialised by every user-provided constructor; a "
                        "record with members that have neither must have no construction site (it may only be viewed over zero-filled vector bytes); "
                        "the initialised alternative of a union covers the union's whole size")
    res.rule("C20-R2", "serialised locals are fully defined: an object whose bytes are copied out (memcpy(dest, &obj, sizeof obj)) has a type without padding that satisfies R1")
    res.rule("C20-R3", "byte buffers are born zeroed: every vector<uint8_t> gets its size through the sizing constructor, resize or copy/move/assign; "
                        "no reserve-then-write, no raw new[]/malloc/alloca; local arrays whose bytes reach an output are initialised")
    res.rule("C20-R4", "locals are assigned before use: clang's CFG-based -Werror=uninitialized family is silent on all library units; an "
                        "uninitialised local whose address is passed out is written by the callee on every path")
    res.rule("C20-R5", "padding and gaps are explicit: frames are padded with explicit zeros (C07-R1) and builders write every byte they advance over (C13-R3)")
    res.rule("C20-R6", "no foreign memory: bytes reach a decoded packet only through in-bounds reads — the message-level bounds of C03-R4 and the "
                        "view / pair / construction / copy obligations of C02 (R1, R1p, R2, R3) over all decode-reachable code; the data views of an accepted payload "
                        "stay inside its own bytes (C03-R2); on the build side setData copies "
                        "exactly the caller's (data, length) pair (C13-R1)")
    res.assumptions += ["memory the caller passes in is defined", "std::vector(n) and resize(n) value-initialise their elements (libstdc++)"]
    res.not_decided += ["anything about memory the caller passes in"]

    # ---- R1
    n1 = 0
    for name, r in sorted(fb.records.items()):
        if r.get("anon") or "(lambda)" in name:
            continue
        flds = [f for f in r["fields"] if f["t"].get("k") in SCALAR]
        if not flds:
            continue
        ctors = [f for f in fb.fns(name + "::" + name.split("::")[-1])]
        user_ctor_inits = []
        for c in ctors:
            if c.raw.get("templated"):
                continue
            user_ctor_inits.append({i.get("name") for i in c.raw.get("inits", []) if i.get("field")})
        if r["union"]:
            inits = [f for f in r["fields"] if isinstance(f.get("init"), dict)]
            cover = max([f.get("size_bits", 0) for f in inits] or [0])
            n1 += 1
            res.check(cover == r["size"] * 8, "C20-R1", "union:" + name, r["loc"], "initialised alternative covers all %d bytes" % r["size"],
                      "the initialised alternative of union %s covers %d of %d bits: the rest is indeterminate when serialised" % (name, cover, r["size"] * 8))
            continue
        missing = []
        for f in flds:
            if isinstance(f.get("init"), dict):
                continue
            if user_ctor_inits and all(f["name"] in s for s in user_ctor_inits):
                continue
            missing.append(f["name"])
        n1 += 1
        if not missing:
            res.ok("C20-R1", "record:" + name, r["loc"], "all %d scalar members initialised" % len(flds))
        else:
            sites = construction_sites(fb, name)
            res.check(not sites, "C20-R1", "record:" + name, r["loc"],
                      "members %s have no initialiser, and the type is never constructed (only viewed over zero-filled payload bytes)" % missing,
                      "members %s of %s have no initialiser and objects of the type are created at %s" % (missing, name, [s[1] for s in sites][:3]))

    # ---- R2 serialised locals
    n2 = 0
    for f in fb.all_functions():
        for c in f.calls():
            if callee_name(c) in ("memcpy", "std::memcpy", "memmove") and len(c.get("args", [])) == 3:
                src = strip_all_casts(c["args"][1])
                if src.get("k") == "un" and src.get("op") == "&":
                    obj = strip_all_casts(src["e"])
                    t = obj.get("t") or {}
                    if obj.get("k") == "ref" and (obj.get("dk") == "local" or (obj.get("dk") == "param" and t.get("k") == "rec")):
                        n2 += 1
                        ln = const_value(c["args"][2])
                        if t.get("k") == "rec":
                            r = fb.records.get(t.get("rec"))
                            if r is None:
                                res.bad("C20-R2", "%s:%s" % (f.name.split("::")[-1], obj["decl"]), c.get("loc"), "serialised object of unknown type %s" % t.get("s"))
                                continue
                            import cmpverif.accessors as A
                            cov = A.record_covered_bytes(fb, r["name"])
                            holes = [b for b in range(r["size"]) if b not in cov]
                            r1 = [o for o in res.obligations if o["key"] == "record:" + r["name"]]
                            ok = not holes and ln == r["size"] and all(o["ok"] for o in r1)
                            res.check(ok, "C20-R2", "%s:%s" % (f.name.split("::")[-1], obj["decl"].split(":")[-1]), c.get("loc"),
                                      "%d bytes of %s copied out: no padding, all members initialised" % (r["size"], r["name"]),
                                      "object of type %s is serialised with memcpy but has padding bytes %s / uninitialised members / length %s != sizeof" % (r["name"], holes[:4], ln))
                        else:
                            # scalar local: must have an initialiser
                            defs = facts.local_defs(f).get(obj["decl"], [])
                            res.check(bool(defs), "C20-R2", "%s:%s" % (f.name.split("::")[-1], obj["decl"].split(":")[-1]), c.get("loc"),
                                      "scalar local is initialised before its bytes are copied out", "bytes of an uninitialised local are copied out")

    nraw = rule_raw_outputs(fb, res, "C20-R2")
    if nraw < 2:
        raise Broken("raw header output functions (void* dest) not found")
    # ---- R3 vectors and raw allocation
    n3 = 0
    for f in fb.all_functions():
        for n in f.nodes():
            k = n.get("k")
            if k == "call":
                nm = callee_name(n) or ""
                if nm == "std::vector::reserve":
                    t = (strip_all_casts(n.get("obj", {})).get("t") or {}).get("s", "")
                    if "unsigned char" in t:
                        res.bad("C20-R3", "%s:reserve" % f.name.split("::")[-1], n.get("loc"), "byte vector sized with reserve(): bytes written past size() are uninitialised storage")
                if nm in ("malloc", "alloca", "realloc", "std::malloc", "aligned_alloc", "operator new[]"):
                    res.bad("C20-R3", "%s:%s" % (f.name.split("::")[-1], nm), n.get("loc"), "raw allocation %s: contents are indeterminate" % nm)
                if nm == "std::vector::resize" and "unsigned char" in ((strip_all_casts(n.get("obj", {})).get("t") or {}).get("s", "")):
                    n3 += 1
                    a = n.get("args", [])
                    okz = len(a) == 1 or const_value(a[1]) == 0
                    res.check(okz, "C20-R3", "%s:resize@%s" % (f.name.split("::")[-1], canon(n.get("obj"))[:40]), n.get("loc"), "resize zero-fills new bytes",
                              "byte vector grown with a non-zero fill value")
            elif k == "new":
                if n.get("array"):
                    res.bad("C20-R3", "%s:new[]" % f.name.split("::")[-1], n.get("loc"), "raw new[]: contents are indeterminate")
            elif k == "decl":
                for v in n.get("vars", []):
                    t = v.get("t") or {}
                    if t.get("k") == "array" and not v.get("static"):
                        n3 += 1
                        res.check(isinstance(v.get("init"), dict), "C20-R3", "%s:array:%s" % (f.name.split("::")[-1], v.get("name")), n.get("loc"),
                                  "local array is initialised", "local array %s has no initialiser" % v.get("name"))
                    if t.get("k") in SCALAR and not isinstance(v.get("init"), dict) and not v.get("static"):
                        # uninitialised scalar local: its address must be handed to a callee that writes it on every path
                        n3 += 1
                        ok = False
                        why = "never passed to a callee that initialises it"
                        for c in f.calls():
                            for i, a in enumerate(c.get("args", [])):
                                a0 = strip_all_casts(a)
                                if a0.get("k") == "un" and a0.get("op") == "&" and strip_all_casts(a0["e"]).get("decl") == v.get("decl"):
                                    g = fb.resolve_call(c)
                                    if g is not None and i < len(g.params):
                                        pd = g.params[i]["decl"]
                                        # callee writes *param before any return on every path
                                        allp = True
                                        for p in paths.enumerate_paths(g):
                                            wrote = False
                                            for _, x in p.elems():
                                                if x.get("k") == "assign":
                                                    l = strip_all_casts(x["l"])
                                                    if l.get("k") == "un" and l.get("op") == "*" and strip_all_casts(l["e"]).get("decl") == pd:
                                                        wrote = True
                                            if not wrote:
                                                allp = False
                                        ok = allp
                                        why = "%s writes *%s on every path" % (g.name.split("::")[-1], pd.split(":")[-1])
                        # or assigned on every path before use: left to clang's analysis (R4)
                        assigned = bool(facts.local_defs(f).get(v.get("decl")))
                        res.check(ok or assigned, "C20-R4", "%s:local:%s" % (f.name.split("::")[-1], v.get("name")), n.get("loc"),
                                  why if ok else "assigned later (definite assignment checked by clang, R4)", "uninitialised local %s: %s" % (v.get("name"), why))

    # ---- R4 clang's CFG-based analysis over all units
    units = fb.meta.get("units", [])
    flags = [x for x in fb.meta.get("flags", [])]

    def one(u):
        cmd = ["clang++"] + flags + ["-fsyntax-only", "-w", "-Werror=uninitialized", "-Werror=sometimes-uninitialized",
                                     "-Werror=conditional-uninitialized", "-Werror=uninitialized-const-reference", u]
        r = subprocess.run(cmd, stdout=subprocess.PIPE, stderr=subprocess.STDOUT, text=True)
        return u, r.returncode, r.stdout
    with ThreadPoolExecutor(max_workers=16) as ex:
        outs = list(ex.map(one, units))
    for u, rc, out in outs:
        first = next((l for l in out.splitlines() if "error:" in l), "")
        if rc != 0 and "uninitialized" not in out:
            raise Broken("clang++ -fsyntax-only failed on %s for another reason: %s" % (u, first or out[-300:]))
        res.check(rc == 0, "C20-R4", "clang-uninit:" + os.path.basename(u), os.path.basename(u), "no use of an uninitialised local on any path (clang -Werror=uninitialized family)",
                  "clang reports: %s" % first.strip()[:300])

    # ---- R5 cross references
    m = E.EncoderModel(fb)
    sub = Result("C20")
    E.rule_frames_zeroed_trimmed(sub, "C20-R5", m)
    for o in sub.obligations:
        res.check(o["ok"], "C20-R5", "frames:" + o["key"], o["loc"], o["detail"])
    sub13 = c13.run(ctx)
    for o in sub13.obligations:
        if o["rule"] == "C13-R3":
            res.check(o["ok"], "C20-R5", "builders:" + o["key"], o["loc"], o["detail"])
        elif o["rule"] == "C13-R1" and (o["key"].endswith("setData:forward") or o["key"].startswith("setData<")):
            # the builders read exactly the (data, length) pair the caller handed in: a length rounded up or recomputed on the way to the
            # copy reads memory behind the caller's buffer into the payload
            res.check(o["ok"], "C20-R6", "builders:" + o["key"], o["loc"], o["detail"])
    # ---- R6 copies out of caller-supplied buffers are bounded (C03-R4: message level)
    from rules import c03
    sub03 = c03.run(ctx)
    for o in sub03.obligations:
        if o["rule"] == "C03-R4":
            res.check(o["ok"], "C20-R6", "input-bounds:" + o["key"], o["loc"], o["detail"])
        elif o["rule"] in ("C03-R2a", "C03-R2b", "C03-R2c"):
            # the (pointer, length) views a packet hands out lie inside the payload's own bytes: a view that reaches beyond them shows the
            # reader whatever happens to sit behind the vector — foreign heap memory in a decoded packet's data
            res.check(o["ok"], "C20-R6", "views:" + o["key"], o["loc"], o["detail"])
    from rules import c02
    sub02 = c02.run(ctx)
    for o in sub02.obligations:
        if o["rule"] in ("C02-R1", "C02-R1p", "C02-R2", "C02-R3"):
            res.check(o["ok"], "C20-R6", "decode-bounds:" + o["key"], o["loc"], o["detail"])
    # ---- R7 the source of a builder's copy is still there when it is read: a caller may hand a payload its own bytes back
    # (`p.setData(p.getData(), n)` with n <= the current length — resize() to a smaller or equal size never reallocates), so between the entry
    # of a function that copies from a pointer parameter into the payload buffer and that copy, the buffer is not given new storage for any
    # reason but growth: no shrink_to_fit, no swap with / move-assignment from another vector
    res.rule("C20-R7", "builders read their source before the buffer can move for a reason other than growth: no shrink_to_fit / swap / whole-vector "
                        "assignment of the payload buffer in front of a raw copy from a pointer parameter")
    n7 = 0
    from cmpverif.facts import reads, walk
    for f in sorted(fb.all_functions(), key=lambda z: (z.name, z.key)):
        if f.body is None or not f.rec or not f.cfg_raw or not f.raw.get("inrepo"):
            continue
        ptrp = {q["decl"] for q in f.params if q["t"].get("k") == "ptr"}
        if not ptrp:
            continue
        copies = [c for c in f.calls() if facts.copy_args(c) and ptrp & reads(facts.copy_args(c)[1]) and
                  any(fb.is_payload_buffer(x.get("obj", {})) for x in walk(facts.copy_args(c)[0]) if x.get("k") == "call" and (x.get("callee") or {}).get("nm") == "data")]
        if not copies:
            continue
        n7 += 1
        cfg = f.cfg
        bad7 = None
        for x in f.calls():
            nm = (x.get("callee") or {}).get("nm")
            if nm in ("shrink_to_fit", "swap", "operator=") and fb.is_payload_buffer(x.get("obj", {})):
                for c in copies:
                    bx, bc = cfg.block_for(x), cfg.block_for(c)
                    before = (bx == bc and cfg.pos_of.get(x["id"], 0) < cfg.pos_of.get(c["id"], 0)) or (bx != bc and not cfg.dominates(bc, bx))
                    if before:
                        bad7 = (x, nm)
        key7 = "source-read-in-place:%s" % f.name.replace("ASAM::CMP::", "")
        if key7 in {o["key"] for o in res.obligations if o["rule"] == "C20-R7"}:
            continue
        res.check(bad7 is None, "C20-R7", key7, (bad7[0].get("loc") if bad7 else f.loc),
                  "the payload buffer keeps its storage (growth aside) until the caller's bytes have been copied",
                  "%s gives the payload buffer new storage (%s) before it copies from its pointer parameter: a caller that hands the payload its own bytes "
                  "back (setData(getData(), n)) has them read from the released block — whatever the allocator left there ends up in the payload and in "
                  "every frame encoded from it" % (f.name, bad7[1] if bad7 else ""))
    res.floor("C20-R7", 3, n7)
    res.floor("C20-R6", 60)
    res.floor("C20-R1", 25, n1)
    res.floor("C20-R2", 4, n2)
    res.floor("C20-R3", 10, n3)
    res.floor("C20-R4", 25)
    res.floor("C20-R5", 12)
    return res
