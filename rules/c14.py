"""C14 — Packets and payloads behave as values."""
from cmpverif import facts, paths
from cmpverif.build import Broken
from cmpverif.facts import callee_name, called_names, lvalue_root, canon, const_value, depends, strip, strip_all_casts, walk, reads
from cmpverif.report import Result

LEVEL = "other"
PKT = "ASAM::CMP::Packet"
PAY = "ASAM::CMP::Payload"
TPAY = "TECMP::Payload"


def member_of_param(n, pdecl):
    """field qname when n is `<param>.field`"""
    n = strip_all_casts(n)
    if n.get("k") == "member" and n.get("dk") == "field":
        b = strip_all_casts(n["base"])
        if b.get("k") == "ref" and b.get("decl") == pdecl:
            return n["field"]
        if b.get("k") == "un" and b.get("op") == "*" and strip_all_casts(b["e"]).get("k") == "this" and pdecl == "this":
            return n["field"]
        if b.get("k") == "this" and pdecl == "this":
            return n["field"]
    return None


def run(ctx):
    fb = ctx.fb()
    res = Result("C14")
    res.rule("C14-R1", "copy/swap cover every member: Packet's copy constructor initialises and swap(Packet&,Packet&) swaps every data member; "
                        "move construction/assignment are implemented by that swap; Payload classes use defaulted copy/move; derived payload classes add no data members")
    res.rule("C14-R2", "deep copy: the payload is owned through unique_ptr and the copy constructor allocates a new Payload from the source's; no "
                        "member of Packet/Payload is a pointer, reference or view")
    res.rule("C14-R3", "equality covers every member: operator==(Packet,Packet) reads every scalar member of both operands through the same getter "
                        "and compares payloads; operator==(Payload,Payload) reads type, length and bytes")
    res.rule("C14-R4", "reflexivity: in an operator==, a branch taken when the two operands' addresses/data pointers are equal never leads to `return false`")
    res.rule("C14-R5", "inequality is negation: each operator!= is `!operator==` on the same operands")
    res.rule("C14-R6", "assignment is unconditional: copy assignment may skip the copy only on address identity, never on operator==")
    res.not_decided += ["agreement of == with field-by-field comparison beyond member coverage; symmetry as a semantic fact"]
    rec = fb.record(PKT)
    fields = [f["qname"] for f in rec["fields"]]
    payload_field = [f for f in rec["fields"] if "unique_ptr" in f["t"]["s"]]
    if len(payload_field) != 1:
        res.bad("C14-R2", "Packet:payload-owner", rec["loc"], "Packet does not own its payload through exactly one unique_ptr member")
        return res
    pf = payload_field[0]["qname"]
    res.ok("C14-R2", "Packet:payload-owner", payload_field[0]["loc"], "payload owned through %s (not copyable: copies must clone)" % payload_field[0]["t"]["s"])

    # ---- R1 copy constructor
    cc = [f for f in fb.fns(PKT + "::Packet") if len(f.params) == 1 and "const" in f.params[0]["t"]["s"] and f.params[0]["t"].get("ref")]
    if len(cc) != 1:
        raise Broken("Packet copy constructor not found")
    cc = cc[0]
    inited = {i.get("field") for i in cc.raw.get("inits", []) if i.get("field") and i.get("written")}
    for d, kind, n in facts.writes_of(cc):
        if d.startswith(PKT + "::"):
            inited.add(d)
    # each initialiser takes the same member of the source
    wrong = []
    for i in cc.raw.get("inits", []):
        if i.get("field") and i.get("written"):
            src = member_of_param(i["e"], "p0:" + cc.params[0]["name"])
            if i["field"] == pf and src is None:
                # the owning pointer cannot be copied; a clone expression in the initialiser is judged by C14-R2 (clone) below;
                # here: it reads no other member of the source
                others = {member_of_param(x, "p0:" + cc.params[0]["name"]) for x in walk(i["e"]) if x.get("k") == "member"} - {None, pf}
                if others:
                    wrong.append("%s <- %s" % (i["field"].split("::")[-1], canon(i["e"])))
                continue
            if src != i["field"]:
                wrong.append("%s <- %s" % (i["field"].split("::")[-1], canon(i["e"])))
    missing = [f for f in fields if f not in inited]
    res.check(not missing and not wrong, "C14-R1", "Packet(const Packet&):members", cc.loc,
              "all %d members initialised from the same member of the source" % len(fields),
              "copy constructor misses %s / initialises from another member: %s" % ([m.split("::")[-1] for m in missing], wrong))
    mk = [c for c in cc.calls() if (callee_name(c) or "").startswith("std::make_unique")]
    okdeep = any(pf in depends(cc, c)[0] and any(x.get("k") == "ref" and x.get("dk") == "param" for x in walk(facts.expand(cc, c))) for c in mk)
    res.check(okdeep, "C14-R2", "Packet(const Packet&):clone", cc.loc, "payload cloned with make_unique from the source's payload",
              "copy constructor does not allocate a new payload from the source's payload (shallow copy)")
    # ... and so does every other place that gives the packet a payload from a Payload object (setPayload): the stored object is a copy made by
    # Payload's copy constructor — not a rebuild from (type, bytes, length), which is the decoder's constructor and treats some types specially
    for wf in fb.all_functions():
        if wf.rec != PKT or not wf.body or wf is cc:
            continue
        for d, kind, n in facts.writes_of(wf):
            if d != pf or not isinstance(n, dict):
                continue
            mks = [x for x in walk(n) if x.get("k") == "call" and (callee_name(x) or "").startswith("std::make_unique")]
            for mk in mks:
                args = mk.get("args", [])
                from_payload_param = any(p0["t"].get("rec") in (PAY,) or (p0["t"].get("rec") or "") in fb.derived_from(PAY)
                                         for p0 in wf.params if p0["decl"] in facts.reads(mk))
                if not from_payload_param:
                    continue
                okc = len(args) == 1 and ((strip_all_casts(args[0]).get("t") or {}).get("rec") == PAY or
                                          (strip_all_casts(args[0]).get("t") or {}).get("rec") in fb.derived_from(PAY))
                res.check(okc, "C14-R2", "%s:stores-a-copy" % wf.name.replace("ASAM::CMP::", ""), mk.get("loc"),
                          "the payload handed in is stored as a copy made by Payload's copy constructor",
                          "%s rebuilds the payload it is given from its parts (`%s`) instead of copying it: where that constructor treats a type "
                          "specially (bytes not kept for `invalid`), the stored payload differs from the one handed in" % (wf.name, canon(mk)[:80]))
    # ---- swap
    sw = fb.fn("ASAM::CMP::swap", 2)
    swapped = set()
    for c in sw.calls():
        if (callee_name(c) or "").endswith("swap") and len(c.get("args", [])) == 2:
            a = member_of_param(c["args"][0], sw.params[0]["decl"])
            b = member_of_param(c["args"][1], sw.params[1]["decl"])
            if a and a == b:
                swapped.add(a)
    if not swapped:
        # one tuple of references per operand, built by the same lambda (so both list the same members), then one tuple swap
        lam_of = {}
        for d, es in facts.local_defs(sw).items():
            for e in es:
                for x in walk(e):
                    if x.get("k") == "lambda":
                        lam_of[d] = x
        views = {}  # local -> (lambda decl, operand index)
        for d, es in facts.local_defs(sw).items():
            if len(es) != 1:
                continue
            for x in walk(es[0]):
                if x.get("k") == "call" and (x.get("callee") or {}).get("nm") == "operator()" and "obj" in x and x.get("args"):
                    o = strip_all_casts(x["obj"])
                    a0 = strip_all_casts(x["args"][0])
                    if o.get("decl") in lam_of and a0.get("decl") in (sw.params[0]["decl"], sw.params[1]["decl"]):
                        views[d] = (o["decl"], 0 if a0["decl"] == sw.params[0]["decl"] else 1)
        for c in sw.calls():
            nmc = (c.get("callee") or {}).get("nm")
            ops = ([c["obj"]] if "obj" in c else []) + c.get("args", [])
            if nmc == "swap" and len(ops) == 2:
                d0, d1 = strip_all_casts(ops[0]).get("decl"), strip_all_casts(ops[1]).get("decl")
                if d0 in views and d1 in views and views[d0][0] == views[d1][0] and {views[d0][1], views[d1][1]} == {0, 1}:
                    lam = lam_of[views[d0][0]]
                    prm = lam.get("params", [{}])[0].get("decl")
                    ties = [x for x in walk(lam.get("body", {})) if x.get("k") == "call" and callee_name(x) == "std::tie"]
                    if len(ties) == 1:
                        for a in ties[0].get("args", []):
                            fld = member_of_param(a, prm)
                            if fld:
                                swapped.add(fld)
    # ... on every path: the only excuse for leaving early is that both operands are the same object
    swap_calls = [c for c in sw.calls() if ((c.get("callee") or {}).get("nm") or "").endswith("swap") or (callee_name(c) or "").endswith("swap")]
    if sw.cfg_raw and swap_calls:
        from cmpverif import paths as _paths
        npaths = 0
        early = None
        for p in _paths.enumerate_paths(sw):
            if p.end != "exit":
                continue
            npaths += 1
            done = {x.get("id") for _, x in p.elems()}
            if all(c.get("id") in done for c in swap_calls):
                continue

            def addr_of(x, decl):
                x = strip_all_casts(x)
                if x.get("k") == "un" and x.get("op") == "&":
                    return strip_all_casts(x["e"]).get("decl") == decl
                if x.get("k") == "call" and (callee_name(x) or "") in ("std::addressof", "std::__addressof") and x.get("args"):
                    return strip_all_casts(x["args"][0]).get("decl") == decl
                return False
            same = any(a[0] == "cmp" and a[2] == "==" and ((addr_of(a[4], sw.params[0]["decl"]) and addr_of(a[5], sw.params[1]["decl"])) or
                                                           (addr_of(a[5], sw.params[0]["decl"]) and addr_of(a[4], sw.params[1]["decl"]))) for a in p.atoms)
            if not same:
                early = p.atoms[-1] if p.atoms else ("?", "unconditionally", "", "")
        res.check(early is None, "C14-R1", "swap(Packet&,Packet&):every-path", sw.loc, "the members are exchanged on every path (%d), or the operands are the same object" % npaths,
                  "swap(Packet&, Packet&) returns without exchanging the members when `%s %s %s`: two different packets can meet that condition, and move / "
                  "assignment then leave the target as it was" % ((early[1][:60], early[2], early[3][:60]) if early and early[0] == "cmp" else
                                                                  ((early[1][:60], "is", early[2]) if early else ("", "", ""))))
    missing = [f for f in fields if f not in swapped]
    res.check(not missing, "C14-R1", "swap(Packet&,Packet&):members", sw.loc, "all %d members swapped pairwise" % len(fields),
              "swap(Packet&, Packet&) does not swap %s: moves and assignments lose that member" % [m.split("::")[-1] for m in missing])
    # move ctor / move assign / copy assign use swap
    mc = [f for f in fb.fns(PKT + "::Packet") if len(f.params) == 1 and f.params[0]["t"]["s"].endswith("&&")]
    asg = fb.fns(PKT + "::operator=")
    if len(mc) != 1 or len(asg) != 2:
        raise Broken("Packet move constructor / assignment operators not found")
    mv_asg = [a2 for a2 in asg if a2.params[0]["t"]["s"].endswith("&&")]
    for f, what in [(mc[0], "move constructor")] + [(a, "move assignment" if a.params[0]["t"]["s"].endswith("&&") else "copy assignment") for a in asg]:
        uses = any(fb.resolve_call(c) is sw for c in f.calls())
        how = "%s is implemented by swap(Packet&, Packet&)" % what
        if not uses and what == "move constructor":
            # member-wise move: every member initialised from the same member of the source through std::move / std::exchange
            took = set()
            for i in f.raw.get("inits", []) or []:
                if not (i.get("field") and i.get("written") and isinstance(i.get("e"), dict)):
                    continue
                for x in walk(i["e"]):
                    if x.get("k") == "call" and callee_name(x) in ("std::exchange", "std::move") and x.get("args"):
                        if member_of_param(x["args"][0], f.params[0]["decl"]) == i["field"]:
                            took.add(i["field"])
                    elif member_of_param(x, f.params[0]["decl"]) == i["field"] and x.get("k") == "member" and \
                            (x.get("t") or {}).get("k") in ("int", "enum", "bool", "float"):
                        took.add(i["field"])  # a scalar is copied
            if set(fields) <= took:
                uses = True
                how = "move constructor takes every member from the same member of the source (std::move / std::exchange)"
        if not uses and what == "copy assignment":
            # *this = Packet(other): a temporary built by the copy constructor, taken over by the move assignment (which swaps)
            mv = [a2 for a2 in asg if a2.params[0]["t"]["s"].endswith("&&")]
            for c in f.calls():
                if mv and fb.resolve_call(c) is mv[0] and c.get("args"):
                    tmp = [x for x in walk(c["args"][0]) if x.get("k") == "construct" and fb.resolve_call(x) is cc]
                    src_ok = any(strip_all_casts(x["args"][0]).get("decl") == f.params[0]["decl"] for x in tmp if x.get("args"))
                    on_this = strip_all_casts(c.get("obj", {})).get("k") in ("this", "un")
                    if tmp and src_ok and on_this and any(fb.resolve_call(y) is sw for y in mv[0].calls()):
                        uses = True
                        how = "copy assignment move-assigns a temporary copy of its argument (copy constructor, then swap in the move assignment)"
        res.check(uses, "C14-R1", "Packet:%s:via-swap" % what.replace(" ", "-"), f.loc, how,
                  "%s does not go through swap(Packet&, Packet&)" % what)
        if what == "copy assignment" and f.cfg_raw:
            # per path: unless the two operands are the same object, every member of *this receives the source's — through a swap with a
            # copy of the source, or member by member (the payload through a deep copy of the source's payload)
            od = f.params[0]["decl"]
            worst = None
            npaths = 0
            for q in paths.enumerate_paths(f):
                if q.end != "exit":
                    continue
                same_obj = False
                for a in q.atoms:
                    if a[0] == "cmp" and a[2] == "==":
                        sides = [strip_all_casts(a[4]), strip_all_casts(a[5])]
                        if any(x.get("k") == "this" for x in sides) and any(x.get("k") == "un" and x.get("op") == "&" and
                                                                            strip_all_casts(x["e"]).get("decl") == od for x in sides):
                            same_obj = True
                if same_obj:
                    continue
                npaths += 1
                covered = set()
                for _, x in q.elems():
                    if x.get("k") == "call" and fb.resolve_call(x) is sw:
                        covered |= set(fields)  # (what the swapped temporary holds is the copy constructor's business: R1 above)
                    if x.get("k") == "call" and mv_asg and fb.resolve_call(x) is mv_asg[0]:
                        covered |= set(fields)
                    if x.get("k") == "assign":
                        lf, rf = member_of_param(x["l"], "this"), member_of_param(x["r"], od)
                        if lf is not None and lf == rf:
                            covered.add(lf)
                    if x.get("k") == "call" and (x.get("callee") or {}).get("nm") == "operator=" and "obj" in x and x.get("args"):
                        lo, ro = strip_all_casts(x["obj"]), strip_all_casts(x["args"][0])
                        lf, rf = member_of_param(lo, "this"), member_of_param(ro, od)
                        if lf is not None and lf == rf and lf != pf:
                            covered.add(lf)
                        # *payload = *other.payload  (a deep copy into the existing object), or payload = make_unique<Payload>(*other.payload)
                        def deref_of(n, pd):
                            n = strip_all_casts(n)
                            if n.get("k") == "call" and (n.get("callee") or {}).get("nm") == "operator*" and "obj" in n:
                                return member_of_param(n["obj"], pd)
                            if n.get("k") == "un" and n.get("op") == "*":
                                return member_of_param(n["e"], pd)
                            return None
                        if deref_of(lo, "this") == pf and deref_of(ro, od) == pf:
                            covered.add(pf)
                        if lf == pf and any(deref_of(y, od) == pf for y in walk(x["args"][0])) and \
                                any((callee_name(y) or "").startswith("std::make_unique") for y in walk(x["args"][0]) if y.get("k") == "call"):
                            covered.add(pf)
                miss = [fl for fl in fields if fl not in covered]
                if miss and worst is None:
                    worst = (miss, q)
            res.check(worst is None, "C14-R1", "Packet::operator=(const Packet&):members", f.loc,
                      "every member is taken from the source on every path (%d) that is not a self-assignment" % npaths,
                      "copy assignment leaves %s of the target as they were on the path with %s: the result is not a copy of the source" %
                      (sorted(x.split("::")[-1] for x in worst[0]) if worst else "", "; ".join(("%s%s" % ("" if a[2] is True else "!", a[1][:50])) if a[0] == "truth"
                                                                                                   else "%s %s %s" % (a[1][:30], a[2], str(a[3])[:30]) for a in (worst[1].atoms if worst else []))[:200]))
        if what == "move assignment" and any(fb.resolve_call(c) is sw for c in f.calls()):
            # swap alone is safe when source and target are the same object; releasing or overwriting a member of *this
            # first is not (p = std::move(p) would destroy the only payload)
            direct = [(d, k) for d, k, n in facts.writes_of(f) if d.startswith(PKT + "::") and k != "addr"]
            res.check(not direct, "C14-R6", "Packet::operator=(Packet&&):self-move", f.loc, "move assignment is the member-wise swap and nothing else",
                      "move assignment modifies %s before swapping: when source and target are the same object that state is lost (payload destroyed, "
                      "packet no longer equal to its former value)" % sorted({"%s (%s)" % (d.split("::")[-1], k) for d, k in direct}))
    # payload classes
    for base in (PAY, TPAY):
        r = fb.record(base)
        sp = {m["nm"] + ("&&" if m.get("move_ctor") or m.get("move_assign") else ""): m for m in r["methods"]
              if m.get("copy_ctor") or m.get("move_ctor") or m.get("copy_assign") or m.get("move_assign")}
        bad = [k for k, m in sp.items() if not m.get("defaulted")]
        res.check(not bad, "C14-R1", "%s:special-members" % base, r["loc"], "copy/move members are defaulted (memberwise)",
                  "%s has user-provided copy/move members %s: member coverage must be re-checked" % (base, bad))
        for d in sorted(fb.derived_from(base)):
            dr = fb.record(d)
            res.check(not dr["fields"], "C14-R1", "%s:no-extra-members" % d, dr["loc"], "adds no data members (slicing copy through %s loses nothing)" % base.split("::")[-1],
                      "%s adds data members %s that the slicing copy in Packet's copy constructor loses" % (d, [x["name"] for x in dr["fields"]]))
            # ... and answers every question the way the base does: a copy is a base object (the copy constructor of Packet, setPayload and
            # `Payload b(a)` all construct the base class), so a virtual member overridden in a derived class answers differently for the copy
            ov = [m for m in dr["methods"] if m.get("virtual") and not (m.get("nm") or "").startswith("~") and not m.get("implicit")]
            res.check(not ov, "C14-R1", "%s:no-overrides" % d, (ov[0].get("loc") if ov else dr["loc"]),
                      "overrides no virtual member (a sliced copy answers every observer like the original)",
                      "%s overrides %s: copies of a packet are constructed as plain %s objects and lose the override — the copy answers %s differently "
                      "from the object it was copied from although type, bytes and operator== agree" %
                      (d, ", ".join(sorted({m["nm"] + "()" for m in ov})), base.split("::")[-1], ", ".join(sorted({m["nm"] + "()" for m in ov}))))
        for fld in r["fields"]:
            t = fld["t"]
            alias = t.get("k") == "ptr" or t.get("ref") or any(w in t["s"] for w in ("string_view", "span<", "shared_ptr", "__normal_iterator"))
            res.check(not alias, "C14-R2", fld["qname"], fld["loc"], "member %s holds a value (%s)" % (fld["name"], t["s"]),
                      "member %s (%s) aliases memory the object does not own" % (fld["qname"], t["s"]))
    for fld in rec["fields"]:
        t = fld["t"]
        alias = (t.get("k") == "ptr") or t.get("ref") or any(w in t["s"] for w in ("string_view", "span<", "shared_ptr"))
        res.check(not alias, "C14-R2", fld["qname"], fld["loc"], "member %s holds a value or owns its target (%s)" % (fld["name"], t["s"]),
                  "member %s (%s) aliases memory the packet does not own" % (fld["qname"], t["s"]))

    # ---- R3 equality coverage
    eq = [f for f in fb.fns("ASAM::CMP::operator==") if len(f.params) == 2 and PKT in f.params[0]["t"]["s"]]
    if len(eq) != 1:
        raise Broken("operator==(Packet,Packet) not found")
    eq = eq[0]
    # getter -> member map
    getter_of = {}
    for f in fb.all_functions():
        if f.rec == PKT and f.raw.get("const") and not f.params:
            rets = [n for n in f.nodes() if n.get("k") == "return"]
            if len(rets) == 1 and rets[0].get("e"):
                m = member_of_param(rets[0]["e"], "this")
                if m:
                    getter_of[f.name] = m
    used = {0: set(), 1: set()}
    # which operand(s) a declaration stands for: the two parameters, and parameters of local lambdas by the arguments they are called with
    stands = {eq.params[0]["decl"]: {0}, eq.params[1]["decl"]: {1}}
    lam_of = {}
    for d, es in facts.local_defs(eq).items():
        for e in es:
            for x in walk(e):
                if x.get("k") == "lambda":
                    lam_of[d] = x
    for c in eq.calls():
        if (c.get("callee") or {}).get("nm") == "operator()" and "obj" in c:
            o = strip_all_casts(c["obj"])
            lam = lam_of.get(o.get("decl"))
            if lam is not None:
                for prm, a in zip(lam.get("params", []), c.get("args", [])):
                    a = strip_all_casts(a)
                    if a.get("k") == "ref" and a.get("decl") in stands:
                        stands.setdefault(prm["decl"], set()).update(stands[a["decl"]])
    for c in eq.nodes():
        if c.get("k") == "call" and callee_name(c) in getter_of and "obj" in c:
            o = strip_all_casts(c["obj"])
            for idx in stands.get(o.get("decl"), ()):
                used[idx].add(getter_of[callee_name(c)])
        elif c.get("k") == "member" and c.get("dk") == "field" and c.get("field") in fields:
            b = strip_all_casts(c.get("base", {}))
            for idx in stands.get(b.get("decl"), ()):
                used[idx].add(c["field"])
    scalars = [f for f in fields if f != pf]
    for f in scalars:
        res.check(f in used[0] and f in used[1], "C14-R3", "operator==(Packet):%s" % f.split("::")[-1], eq.loc, "compared on both operands",
                  "operator==(Packet,Packet) does not compare member %s" % f.split("::")[-1])
    cn = called_names(eq.body)
    res.check(PKT + "::getPayload" in cn and PKT + "::getPayloadLength" in cn, "C14-R3", "operator==(Packet):payload", eq.loc,
              "payload length and payload compared", "operator==(Packet,Packet) does not compare payloads")
    peqs = [f for f in fb.all_functions() if f.name.endswith("::operator==") and len(f.params) == 2 and f.params[0]["t"]["s"].endswith("Payload &")]
    if len(peqs) != 2:
        raise Broken("expected two Payload equality operators, found %d" % len(peqs))
    for f in peqs:
        cn = called_names(f.body)
        # (the comparison may be split over file-local predicates called in sequence: what they call counts)
        for g2 in fb.reachable_from([f]).values():
            if g2.key != f.key and g2.body is not None and ("(anon-ns)" in g2.name or (g2.rec is None and g2.raw.get("static"))):
                cn = cn | called_names(g2.body)
        cls = f.params[0]["t"]["s"].replace("const ", "").replace(" &", "")
        okk = all((cls + "::" + g) in cn for g in ("getType", "getLength", "getRawPayload"))
        res.check(okk, "C14-R3", "operator==(%s):coverage" % cls, f.loc, "type, length and bytes compared", "operator==(%s) does not read type, length and bytes" % cls)
        # ... over all of them: a byte loop starts at index 0, runs while the index is below the length and steps by +1 (an index that steps
        # the other way leaves after the first byte: payloads that differ behind byte 0 compare equal)
        for g3 in [f] + [h for h in fb.reachable_from([f]).values() if h.key != f.key and h.body is not None and ("(anon-ns)" in h.name or (h.rec is None and h.raw.get("static")))]:
            for lp in [x for x in g3.nodes() if x.get("k") == "for"]:
                cond = lp.get("cond")
                if not isinstance(cond, dict) or not any((cls + "::getLength") == callee_name(y) for y in walk(facts.expand(g3, cond)) if y.get("k") == "call"):
                    continue
                c0 = strip(cond)
                ivar = strip_all_casts(c0.get("l") or {}).get("decl") if c0.get("k") == "bin" and c0.get("op") in ("<", "!=") else None
                inc = strip_all_casts(lp.get("inc") or {})
                step_ok = (inc.get("k") == "un" and inc.get("op") in ("pre++", "post++") and strip_all_casts(inc["e"]).get("decl") == ivar) or \
                    (inc.get("k") == "cassign" and inc.get("op") == "+" and const_value(inc.get("r")) == 1 and strip_all_casts(inc["l"]).get("decl") == ivar)
                init = lp.get("init") or {}
                init_ok = init.get("k") == "decl" and any(v.get("decl") == ivar and const_value(v.get("init")) == 0 for v in init.get("vars", []))
                body_writes = any(lvalue_root(y.get("l") or y.get("e") or {}) == ivar for y in walk(lp.get("body") or {})
                                  if y.get("k") in ("assign", "cassign") or (y.get("k") == "un" and y.get("op") in ("pre++", "post++", "pre--", "post--")))
                # decided only for the forms that can be read: an upward loop (`<` / `!=` bound) whose step goes the other way or is wider than 1,
                # or that starts behind index 0; a loop of another shape (counting down from the length, iterators) is not judged here
                down = (inc.get("k") == "un" and inc.get("op") in ("pre--", "post--")) or (inc.get("k") == "cassign" and inc.get("op") == "-")
                wide = inc.get("k") == "cassign" and inc.get("op") == "+" and (const_value(inc.get("r")) or 1) > 1
                late = init.get("k") == "decl" and any(v.get("decl") == ivar and (const_value(v.get("init")) or 0) > 0 for v in init.get("vars", []))
                if ivar is None or not (step_ok and init_ok and not body_writes or down or wide or late):
                    continue
                res.check(ivar is not None and step_ok and init_ok and not body_writes, "C14-R3", "operator==(%s):every-byte" % cls, lp.get("loc") or g3.loc,
                          "the byte loop visits every index 0 .. length-1",
                          "the byte loop of operator==(%s) does not visit every index from 0 to length-1 (`%s`; `%s`): payloads that differ in a byte it skips "
                          "compare equal" % (cls, canon(cond)[:50], canon(lp.get("inc"))[:30] if lp.get("inc") else "no step"))
        # ... read faithfully: the three getters the comparison goes through hand out the member itself on every path (a getType() that folds
        # several stored types into one makes payloads equal that differ in what their other accessors report)
        for g, want in (("getType", "member"), ("getLength", "size"), ("getRawPayload", "data")):
            gf = [h for h in fb.fns(cls + "::" + g) if not h.params and h.body]
            if len(gf) != 1:
                raise Broken("%s::%s not found" % (cls, g))
            gf = gf[0]
            faithful = bool(gf.returns())
            for r in gf.returns():
                v = r.get("e")
                for _ in range(4):
                    v = strip_all_casts(v) if isinstance(v, dict) else {}
                    if v.get("k") == "construct" and len(v.get("args", [])) == 1:
                        v = v["args"][0]
                    else:
                        break
                v = strip_all_casts(facts.expand(gf, v)) if isinstance(v, dict) and v else {}
                if want == "member":
                    ok1 = v.get("k") == "member" and v.get("dk") == "field" and strip_all_casts(v.get("base", {})).get("k") in ("this", "un") and \
                        "PayloadType" in ((v.get("t") or {}).get("s") or "")
                else:
                    ok1 = v.get("k") == "call" and (v.get("callee") or {}).get("nm") == want and fb.is_payload_buffer(v.get("obj", {}))
                faithful = faithful and ok1
            res.check(faithful, "C14-R3", "operator==(%s):%s-faithful" % (cls, g), gf.loc, "%s() hands out the stored %s on every path" % (g, want),
                      "%s::%s() does not simply hand out the stored value: equality, which compares through it, then calls payloads equal whose stored "
                      "values differ (while other accessors still tell them apart)" % (cls, g))

    # ---- R4 reflexivity
    scope4 = {PKT, PAY, TPAY, "ASAM::CMP::PayloadType", "TECMP::PayloadType"} | set(fb.derived_from(PAY)) | set(fb.derived_from(TPAY))
    eqs = [f for f in fb.all_functions() if f.name.endswith("operator==") and len(f.params) + (1 if f.rec else 0) == 2 and f.cfg_raw and f.params and
           ((f.params[0]["t"].get("rec") in scope4) or (f.rec in scope4))]
    n4 = 0
    for f in eqs:
        bad = None
        for p in paths.enumerate_paths(f):
            r = p.returns()
            if r is None:
                continue
            for a in p.atoms:
                if a[0] == "cmp" and a[2] == "==":
                    tl = (strip(a[4]).get("t") or {})
                    tr = (strip(a[5]).get("t") or {})
                    if tl.get("k") == "ptr" and tr.get("k") == "ptr" and not strip(a[5]).get("null") and not strip(a[4]).get("null"):
                        n4 += 1
                        if const_value(p.value_of(r["e"], before=r["id"])) == 0:
                            # is `return false` a consequence of the pointer equality (no later mismatch test on the path)?
                            later = p.atoms[p.atoms.index(a) + 1:]
                            if not later:
                                bad = (a, r)
        res.check(bad is None, "C14-R4", "%s(%s):identity" % (f.name.split("::")[-1], f.params[0]["t"]["s"].replace("const ", "").replace(" &", "")), f.loc,
                  "no branch on pointer identity returns false",
                  "when `%s` holds the operator returns false: x == x is false for every object" % (canon(bad[0][4]) + " == " + canon(bad[0][5]) if bad else ""))

    # ---- R3, second half: what the comparisons decide.  Per path through an operator==: a comparison of the same getter / member of both
    # operands is an equality literal; a path that has seen a mismatch returns false and nothing else, a constant `false` is only returned
    # after a mismatch, and a returned expression is itself a positive equality of the two operands' parts.
    for f in eqs:
        if len(f.params) != 2:
            continue
        pa, pb = f.params[0]["decl"], f.params[1]["decl"]
        X = {"k": "ref", "dk": "param", "decl": "X", "name": "X", "id": -7}

        def side(e, pd, other):
            e2 = facts.expand(f, e)
            rd = reads(e2)
            if pd not in rd or other in rd:
                return None
            return canon(strip_all_casts(facts.substitute(e2, {pd: X})))

        def literal(op, L, R):
            if (strip(facts.expand(f, L)).get("t") or {}).get("k") == "ptr" and op == "!=":
                return None  # two different addresses say nothing about the values behind them
            for l, r in ((L, R), (R, L)):
                cl, cr = side(l, pa, pb), side(r, pb, pa)
                if cl is not None and cl == cr:
                    return (cl, op == "==")
            return None

        def expr_literal(e):
            e = strip(e)
            if e.get("k") == "bin" and e.get("op") in ("==", "!="):
                return literal(e["op"], e["l"], e["r"])
            if e.get("k") == "call" and e.get("op") in ("==", "!="):
                ops = ([e["obj"]] if "obj" in e else []) + e.get("args", [])
                if len(ops) == 2:
                    return literal(e["op"], ops[0], ops[1])
            if e.get("k") == "un" and e.get("op") == "!":
                li = expr_literal(e["e"])
                return (li[0], not li[1]) if li else None
            return None
        tag = "%s(%s)" % (f.name.split("::")[-1], f.params[0]["t"]["s"].replace("const ", "").replace(" &", ""))
        bad = None
        nlit = 0
        for p in paths.enumerate_paths(f):
            r = p.returns()
            if r is None or p.end != "exit" or r.get("e") is None:
                continue
            # (a bool local that holds the outcome of a comparison — `const bool same = a.x == b.x; if (!same) return false;`, or the result of
            # an inlined helper — stands for that comparison)
            patoms = list(p.atoms)
            for a in p.atoms:
                if a[0] == "truth" and isinstance(a[3], dict):
                    x0 = strip_all_casts(a[3])
                    if x0.get("k") == "ref" and x0.get("dk") == "local":
                        d0 = p.value_of(x0, before=None)
                        if isinstance(d0, dict) and d0 is not x0:
                            patoms += [c for c in facts.conjuncts(d0, a[2], f) if c[0] == "cmp"]
                        patoms += [c for c in facts.conjuncts(a[3], a[2], f)[1:] if c[0] == "cmp"]
            lits = [literal(a[2], a[4], a[5]) for a in patoms if a[0] == "cmp" and a[2] in ("==", "!=")]
            lits = [x for x in lits if x is not None]
            nlit += len(lits)
            mism = [x for x in lits if not x[1]]
            v = p.value_of(r["e"], before=r["id"])
            cv = const_value(v)
            li0 = expr_literal(v) if cv is None else None
            if mism and cv is None and li0 is not None and li0[1] and li0[0] in {x[0] for x in mism}:
                pass  # returns `a.f == b.f` where that very comparison is known to fail on this path: false
            elif mism and cv != 0:
                bad = bad or "a path on which `%s` differs between the operands does not return false (returns `%s`)" % (mism[0][0][:60], canon(v)[:60])
            elif cv == 0 and p.atoms and p.atoms[-1][0] == "cmp" and p.atoms[-1][2] in ("==", "!=") and \
                    (literal(p.atoms[-1][2], p.atoms[-1][4], p.atoms[-1][5]) or (None, False))[1]:
                # the branch that leads to this `return false` was taken because the two operands AGREE
                bad = bad or "`return false` is decided by `%s` being equal in both operands" % literal(p.atoms[-1][2], p.atoms[-1][4], p.atoms[-1][5])[0][:60]
            elif cv == 0 and not mism and lits and not any(a[0] == "truth" for a in p.atoms if a[0] == "truth" and a[2] is False and "isValid" in a[1]):
                # every comparison on this path found the operands to agree, and yet the answer is `different`
                bad = bad or "a path on which every compared part agrees (%s) returns false" % ", ".join(sorted({x[0][:30] for x in lits}))[:120]
            elif cv is None:
                li = expr_literal(v)
                if li is not None and not li[1]:
                    bad = bad or "the operator returns the *in*equality of `%s`" % li[0][:60]
        # Packet: a path that can answer "equal" has compared the payloads, unless it has established that there is none to compare
        if f.params[0]["t"].get("rec") == PKT:
            for p in paths.enumerate_paths(f):
                r = p.returns()
                if r is None or p.end != "exit" or r.get("e") is None:
                    continue
                v = p.value_of(r["e"], before=r["id"])
                cv = const_value(v)
                lits = [literal(a[2], a[4], a[5]) for a in p.atoms if a[0] == "cmp" and a[2] in ("==", "!=")]
                lits = [x for x in lits if x is not None]
                if cv == 0 or any(not x[1] for x in lits):
                    continue  # answers "different"
                rl = expr_literal(v) if cv is None else None
                compared = any("getPayload()" in x[0] for x in lits) or (rl is not None and "getPayload()" in rl[0]) or \
                    any(x.get("k") == "call" and (callee_name(x) or "").endswith("operator==") and "Payload" in (callee_name(x) or "") for x in walk(facts.expand(f, v)))
                empty = False
                for a in p.atoms:
                    if a[0] == "cmp" and "getPayloadLength" in (canon(facts.expand(f, a[4])) + canon(facts.expand(f, a[5]))) and literal(a[2], a[4], a[5]) is None:
                        for x, y, op in ((a[4], a[5], a[2]), (a[5], a[4], facts._flip_op(a[2]))):
                            if const_value(y) == 0 and op in ("<=", "=="):
                                empty = True
                            if const_value(y) == 1 and op == "<":
                                empty = True
                    if a[0] == "truth" and a[2] is False and "getPayloadLength" in canon(facts.expand(f, a[3])) and "&&" not in canon(facts.expand(f, a[3])):
                        empty = True
                if not compared and not empty:
                    bad = bad or "a path that can answer `equal` (returns `%s`) has neither compared the payloads nor found the payload length to be 0; its last " \
                        "condition is `%s`" % (canon(v)[:50], (p.atoms[-1][1][:60] + (" " + str(p.atoms[-1][2]))) if p.atoms else "none")
        if nlit:
            res.check(bad is None, "C14-R3", "%s:decides-by-mismatch" % tag, f.loc, "false exactly on the paths that found a difference; returned expressions are positive equalities",
                      "%s: %s" % (f.name, bad))

    # ---- R5 inequality
    # the value types of the property: Packet, Payload and what derives from them (helper iterators etc. are not in scope)
    scope = {PKT, PAY, TPAY, "ASAM::CMP::PayloadType", "TECMP::PayloadType"} | set(fb.derived_from(PAY)) | set(fb.derived_from(TPAY))
    neqs = [f for f in fb.all_functions() if f.name.endswith("operator!=") and f.body and f.params and
            ((f.params[0]["t"].get("rec") in scope) or (f.rec in scope))]
    for f in neqs:
        rets = [n for n in f.nodes() if n.get("k") == "return"]
        ok = False
        if len(rets) == 1:
            e = strip(rets[0]["e"])
            if e.get("k") == "un" and e.get("op") == "!":
                c = strip(e["e"])
                if c.get("k") == "call" and (callee_name(c) or "").endswith("operator=="):
                    ops = ([c["obj"]] if "obj" in c else []) + c.get("args", [])
                    def unwrap(o):
                        o = strip_all_casts(o)
                        while o.get("k") == "construct" and (o.get("copy") or o.get("move")) and len(o.get("args", [])) == 1:
                            o = strip_all_casts(o["args"][0])
                        return o
                    ok = [unwrap(o).get("decl") for o in ops] == [p["decl"] for p in f.params]
        if not ok and len(rets) == 1:
            # written out: the sibling operator== returns `A == B` (one comparison) and this one returns `A != B` over the same operand expressions
            eqs = [g for g in fb.all_functions() if g.name == f.name.replace("operator!=", "operator==") and g.body and
                   [q["t"]["s"] for q in g.params] == [q["t"]["s"] for q in f.params]]
            if len(eqs) == 1:
                grets = [n for n in eqs[0].nodes() if n.get("k") == "return"]
                if len(grets) == 1:
                    def sides(fn, e, op):
                        e = strip(facts.expand(fn, e))
                        if e.get("k") == "bin" and e.get("op") == op:
                            l, r = e["l"], e["r"]
                        elif e.get("k") == "call" and e.get("op") == op and len(([e["obj"]] if "obj" in e else []) + e.get("args", [])) == 2:
                            l, r = ([e["obj"]] if "obj" in e else []) + e.get("args", [])
                        else:
                            return None
                        # operands named by position so the two functions' parameter names do not matter
                        m0 = {q["decl"]: {"k": "ref", "dk": "param", "decl": "P%d" % i, "id": -1 - i} for i, q in enumerate(fn.params)}
                        return {canon(strip_all_casts(facts.substitute(l, m0))), canon(strip_all_casts(facts.substitute(r, m0)))}
                    a, b = sides(eqs[0], grets[0]["e"], "=="), sides(f, rets[0]["e"], "!=")
                    ok = a is not None and a == b
        res.check(ok, "C14-R5", "%s(%s)" % (f.name.split("::")[-1], f.params[0]["t"]["s"].replace("const ", "").replace(" &", "")), f.loc,
                  "`!operator==(lhs, rhs)`", "operator!= is not the negation of operator== on the same operands")

    # ---- R6 assignment guard
    for a in asg:
        if a.params[0]["t"]["s"].endswith("&&"):
            continue
        cfg = a.cfg
        for bid in cfg.blocks:
            if cfg.is_cond_branch(bid):
                leaf = cfg.branch_leaf(bid)
                uses_eq = any((callee_name(x) or "").endswith("operator==") or (callee_name(x) or "").endswith("operator!=") for x in walk(leaf)
                              if x.get("k") == "call")
                is_addr = any(x.get("k") == "this" for x in walk(leaf)) and any(x.get("k") == "un" and x.get("op") == "&" for x in walk(leaf)) and not uses_eq
                # (a branch that merely chooses between two complete ways of copying is judged by C14-R1 `members`: every path covers every member)
                res.check(not uses_eq, "C14-R6", "Packet::operator=(const Packet&):guard", leaf.get("loc"),
                          "no branch of the assignment is decided by operator==", "copy assignment is guarded by `%s`: the target keeps its old state whenever the "
                          "(coarser) equality holds, e.g. empty payloads of different types" % canon(leaf))
        if not any(cfg.is_cond_branch(b) for b in cfg.blocks):
            res.ok("C14-R6", "Packet::operator=(const Packet&):guard", a.loc, "assignment is unconditional")
    res.floor("C14-R1", 18)
    res.floor("C14-R3", 10)
    res.floor("C14-R4", 3)
    res.floor("C14-R5", 3)
    res.floor("C14-R6", 1)
    return res
