"""C10 — Encoder output does not depend on earlier encode calls (state-reset analysis)."""
from cmpverif.report import Result
from rules import encoder_rules as E

LEVEL = "proof"


def run(ctx):
    fb = ctx.fb()
    res = Result("C10")
    m = E.EncoderModel(fb)
    res.rule("C10-R1", "every data member of Encoder is classified from its write sites: configuration (written only by public setters or "
                        "from the DataContext argument), counter (the offset the property allows) or scratch (everything else)")
    res.rule("C10-R2", "for each encode overload, along every path from its entry through init/putPacket/helpers, each scratch member (and "
                        "min/max) is (re)defined — assigned or cleared — before it is first read; read-modify-write does not count as a definition")
    res.rule("C10-R3", "no function-local or namespace-scope mutable static exists in the encoder")
    res.rule("C10-R4", "the one member that survives a call — the sequence counter — enters the output only as `previous + 1 modulo 2^16` per opened frame "
                        "(C09-R1's writer discipline and C09-R2's stamping): the outputs of two histories then differ by one constant offset in every "
                        "frame and in nothing else; any other arithmetic on it (skipping a value, saturating, restarting) makes the difference depend "
                        "on where the counter stood")
    res.assumptions += ["the encoder's code is deterministic given its members and arguments (no statics: checked; no I/O)"]
    res.not_decided += ["none: output can depend on history only through state that survives a call"]
    E.rule_state_reset(res, "C10-R1", "C10-R2", m)
    st = [s for s in fb.statics.values() if s["name"].startswith(E.ENC) and
          (not (s.get("const") or s.get("constexpr")) or (s.get("has_init") and not s.get("constant_init")))]
    bad = []
    for f in m.methods:
        for n in f.nodes():
            if n.get("k") in ("ref", "member") and n.get("dk") in ("global", "staticlocal", "staticmember") and not n.get("vconst"):
                bad.append("%s at %s" % (n.get("decl"), n.get("loc")))
    res.check(not st and not bad, "C10-R3", "encoder:statics", m.rec["loc"], "%d encoder methods reference no mutable static" % len(m.methods),
              "encoder uses mutable static state: %s" % (bad + [s["name"] for s in st])[:4])
    E.rule_counter_writers(res, "C10-R4", m, reported=False)
    E.rule_frame_stamped(res, "C10-R4", m)
    res.floor("C10-R4", 4)
    res.floor("C10-R1", 9)
    res.floor("C10-R2", 15)
    return res
