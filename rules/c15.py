"""C15 — TECMP messages convert to equivalent ASAM CMP packets (routing, dispatch tables, plumbing, layout)."""
from cmpverif import accessors, facts, paths
from cmpverif.build import Broken
from cmpverif.facts import MustFacts, callee_name, called_names, canon, const_value, depends, lvalue_root, reads, strip, strip_all_casts, walk
from cmpverif.report import Result

LEVEL = "other"
TD = "TECMP::Decoder::"
TC = "TECMP::Converter::"
TH = "TECMP::CmpHeader"


def produces_table(fb, fn, produce, getter, values):
    """{enumerator value or 'default': produces?}: for each value of the selector (the header getter
    `getter`, read directly, through a local or through a helper predicate) some path of fn that is
    consistent with that value produces.  'default' stands for a value outside the enumeration."""
    from cmpverif import tables
    ps = paths.enumerate_paths(fn)

    def selector(n):
        return n.get("k") == "call" and callee_name(n) == getter
    if not any(selector(x) for x in fn.nodes()):
        raise Broken("%s does not read %s" % (fn.name, getter))
    # calls through function pointers (a dispatch table) hide which producer runs for which value
    indirect = [x for x in fn.nodes() if x.get("k") == "call" and not (x.get("callee") or {}).get("name") and x.get("op") is None]
    if indirect:
        raise Broken("%s dispatches through %d indirect call(s): the per-value table cannot be read off its paths — re-derive C15-R2" % (fn.name, len(indirect)))
    t = {}
    other = max(values) + 1
    while other in values:
        other += 1
    for v in list(values) + ["default"]:
        vv = other if v == "default" else v
        t[v] = any(produce(p) for p in ps if tables.path_consistent(p, selector, vv, fb))
    return t


def run(ctx):
    fb = ctx.fb()
    res = Result("C15")
    spec = ctx.spec("plumbing.json")
    res.rule("C15-R1", "routing: in Decoder::decode the TECMP decoder is called exactly under 'first input byte == 0', before any use of the capture-module "
                        "path, and its result is returned unchanged")
    res.rule("C15-R2", "dispatch tables agree and are exhaustive: HandlePayload and Converter::ConvertPacket switch over every TECMP message type and produce "
                        "for the same set (cmStatus, busStatus, data); GetDataPayload and ConvertDataPayload likewise over the data types (can, canFd, lin); "
                        "no default branch produces")
    res.rule("C15-R3", "conversion plumbing (/verif/spec/plumbing.json): each converted attribute depends on the listed TECMP getter and on no other TECMP getter")
    res.rule("C15-R4", "TECMP wire layout: C12's position/size rules over TECMP::CmpHeader and the four TECMP payload headers")
    res.rule("C15-R5", "one packet per bus-status entry: the entry loop pushes one payload per iteration and advances by the 12-byte entry size from offset 12")
    res.rule("C15-R6", "complete frames only: GetHeader hands out the parsed header only under size >= sizeof(TECMP header) + announced payload length "
                        "(a live comparison, as a linear form); every other path yields an invalid header, hence no packet")
    res.rule("C15-R7", "the converters of the supported kinds (CAN, CAN-FD, LIN, capture-module status, bus status) return a packet on every path: "
                        "unsupported or malformed input is rejected before conversion, never inside it")
    res.rule("C15-R8", "conversion is a function of the frame's bytes: no function reachable from TECMP::Decoder::Decode references a mutable static or "
                        "thread-local object (a stream or buffer kept between calls carries text of an earlier frame into the next packet)")
    res.not_decided += ["value equality of converted fields for every TECMP frame",
                        "R6 (malformed input yields no packet, not a crash) is C02's bounds/null obligations restricted to tecmp_*.cpp and is reported by C02"]
    # ---- R1
    dec = fb.fn("ASAM::CMP::Decoder::decode")
    calls = list(dec.calls(TD + "Decode"))
    ok = False
    if len(calls) == 1:
        c = calls[0]
        fs = MustFacts(dec).at(c)
        g = None
        for a in fs:
            if a[0] == "cmp" and a[2] == "==" and (const_value(a[5]) == 0 or const_value(a[4]) == 0):
                x = strip_all_casts(a[4] if const_value(a[5]) == 0 else a[5])
                if x.get("k") == "un" and x.get("op") == "*":
                    tgt = strip_all_casts(x["e"])
                    defs = facts.local_defs(dec).get(tgt.get("decl"), [])
                    if tgt.get("decl") == "p0:data" or (len(defs) == 1 and strip_all_casts(defs[0]).get("decl") == "p0:data"):
                        g = a
        par = dec.parent(c)
        while par is not None and par.get("k") in ("cast", "construct"):
            par = dec.parent(par)
        unchanged = par is not None and par.get("k") == "return"
        args_ok = [strip_all_casts(a).get("decl") for a in c.get("args", [])] == ["p0:data", "p1:size"]
        ok = g is not None and unchanged and args_ok
    res.check(ok, "C15-R1", "decode:tecmp-routing", calls[0].get("loc") if calls else dec.loc, "TECMP::Decoder::Decode(data, size) returned unchanged under byte 0 == 0",
              "TECMP routing: not exactly `if (first byte == 0) return TECMP::Decoder::Decode(data, size)`")
    # the capture-module loop requires byte 0 != 0 (shared with C17)
    from rules import decoder_rules as D
    m = D.DecodeModel(fb)
    nz = any(a[0] == "cmp" and a[2] == "!=" and (const_value(a[5]) == 0 or const_value(a[4]) == 0) for a in MustFacts(dec).at_block_entry(m.loop_block))
    res.check(nz, "C15-R1", "decode:cm-path-excludes-tecmp", dec.loc, "the capture-module message loop is only reached when byte 0 != 0", "TECMP frames can reach the capture-module path")

    # ---- R2
    hp = fb.fn(TD + "HandlePayload")
    cpk = fb.fn(TC + "ConvertPacket")
    mt = {e["name"]: e["value"] for e in fb.enum(TH + "::MessageType")["enumerators"]}

    def hp_prod(p):
        # a payload can reach the returned vector: something is pushed, or the returned value is not an empty vector
        if any(callee_name(x) in ("std::vector::push_back", "std::vector::emplace_back") for x in p.calls()):
            return True
        v = paths.returned_value(p)
        return v is not None and not paths.is_null_value(v)

    def cp_prod(p):
        v = paths.returned_value(p)
        return v is not None and not paths.is_null_value(v)
    t1 = produces_table(fb, hp, hp_prod, TH + "::getMessageType", sorted(mt.values()))
    t2 = produces_table(fb, cpk, cp_prod, TH + "::getMessageType", sorted(mt.values()))
    want = {"cmStatus", "busStatus", "data"}
    for name, val in sorted(mt.items()):
        a = t1.get(val, t1.get("default"))
        b = t2.get(val, t2.get("default"))
        has_rows = val in t1 and val in t2
        res.check(has_rows and a == b == (name in want), "C15-R2", "message-type:%s" % name, hp.loc,
                  "%s: both tables have a row, both %s" % (name, "produce" if name in want else "produce nothing"),
                  "message type %s: HandlePayload %s, ConvertPacket %s, rows present: %s; supported kinds are %s" %
                  (name, "produces" if a else "produces nothing", "produces" if b else "produces nothing", has_rows, sorted(want)))
    for t, fn in ((t1, hp), (t2, cpk)):
        res.check(not t.get("default", False), "C15-R2", "no-producing-default:%s" % fn.name.split("::")[-1], fn.loc, "no default branch produces a packet",
                  "%s has a default branch that produces: unknown message types yield packets" % fn.name)
    gd = fb.fn(TD + "GetDataPayload")
    cd = fb.fn(TC + "ConvertDataPayload")
    dt = {e["name"]: e["value"] for e in fb.enum(TH + "::DataType")["enumerators"]}

    gd_prod = cp_prod
    t3 = produces_table(fb, gd, gd_prod, TH + "::getDataType", sorted(dt.values()))
    t4 = produces_table(fb, cd, gd_prod, TH + "::getDataType", sorted(dt.values()))
    wantd = {"can", "canFd", "lin"}
    for name, val in sorted(dt.items()):
        a = t3.get(val, t3.get("default"))
        b = t4.get(val, t4.get("default"))
        has_rows = val in t3 and val in t4
        res.check(has_rows and a == b == (name in wantd), "C15-R2", "data-type:%s" % name, gd.loc,
                  "%s: both tables have a row, both %s" % (name, "produce" if name in wantd else "produce nothing"),
                  "data type %s: GetDataPayload %s, ConvertDataPayload %s, rows present: %s" % (name, "produces" if a else "produces nothing", "produces" if b else "produces nothing", has_rows))

    # ---- R3 plumbing
    gh = fb.fn(TC + "GetPackageFromTecmpHeader")
    by_helper = set()  # (converter, setter) rows of the payload table that the header helper satisfies through a parameter
    for row in spec["tecmp_header"]:
        cs = list(gh.calls(row["setter"]))
        ok = len(cs) == 1 and {c for c in depends(gh, cs[0]["args"][0])[1] if c.startswith(TH + "::get")} == {row["source"]} and \
            facts.flows_unchanged(gh, cs[0]["args"][0], row["source"])
        handed = False
        if not ok and len(cs) == 1 and len(gh.params) > 1:
            # the value is handed in: each converter passes what the table lists for it — the header's field, or the payload's own where
            # the payload table overrides the attribute for that converter
            ax = strip_all_casts(facts.expand(gh, cs[0]["args"][0]))
            pd_ = [q["decl"] for q in gh.params]
            if ax.get("k") == "ref" and ax.get("dk") == "param" and ax.get("decl") in pd_[1:]:
                i_ = pd_.index(ax["decl"])
                sites = [(h, facts.effective_call(c)) for h in fb.all_functions() if h.body is not None for c in h.calls() if fb.resolve_call(c) is gh]
                good = bool(sites)
                for h, c in sites:
                    over = [r2 for r2 in spec["tecmp_payload"].get(h.name, []) if r2["setter"] == row["setter"]]
                    src = over[0]["source"] if over else row["source"]
                    a_ = c["args"][i_] if len(c.get("args", [])) > i_ else None
                    got_ = {x for x in depends(h, a_)[1] if x.startswith("TECMP::") and "::get" in x and not x.endswith("::get")} if a_ is not None else set()
                    if got_ == {src} and facts.flows_unchanged(h, a_, src) and not list(h.calls(row["setter"])):
                        if over:
                            by_helper.add((h.name, row["setter"]))
                    else:
                        good = False
                ok = handed = good
        ls = facts.lossy_step(gh, cs[0]["args"][0], row["source"]) if ok and not handed else None
        if ls:
            res.bad("C15-R3", "header:%s:value-kept" % row["setter"].split("::")[-1], cs[0].get("loc"), "%s: values outside that type's range arrive changed" % ls)
        res.check(ok, "C15-R3", "header:%s" % row["setter"].split("::")[-1], cs[0].get("loc") if cs else gh.loc, "%s <- %s" % (row["setter"].split("::")[-1], row["source"]),
                  "%s is not fed from exactly %s" % (row["setter"], row["source"]))
    for fname in spec["tecmp_payload"]:
        fb.fn(fname)  # every anchor of the plumbing table must exist before any row is judged (else: exit 2, not half a verdict)
    for fname, rows in spec["tecmp_payload"].items():
        f = fb.fn(fname)
        for row in rows:
            cs = list(f.calls(row["setter"]))
            arg = row.get("arg", 0)
            ok = False
            got = None
            for c in cs:
                _, calls = depends(f, c["args"][arg])
                got = {x for x in calls if x.startswith("TECMP::") and "::get" in x and not x.endswith("::get")}
                if f.cfg_raw:
                    c = dict(c, args=[facts.reduce_min(f, a0, MustFacts(f).at(c)) for a0 in c["args"]])  # a clamp that cannot bind is its operand
                if got == {row["source"]} and facts.flows_unchanged(f, c["args"][arg], row["source"]):
                    ok = True
                    lossy = facts.lossy_step(f, c["args"][arg], row["source"])
                    if lossy and not row.get("narrows"):
                        res.bad("C15-R3", "%s:%s[%d]:value-kept" % (fname.split("::")[-1], row["setter"].split("::")[-1], arg), c.get("loc"),
                                "%s: %s — values outside that type's range arrive changed (a serial number >= 2^31 turns negative, a long length is cut)" % (fname, lossy))
            if not cs and (fname, row["setter"]) in by_helper:
                ok = True  # set once, by the header helper, from the source this row lists
            res.check(ok, "C15-R3", "%s:%s[%d]" % (fname.split("::")[-1], row["setter"].split("::")[-1], arg), cs[0].get("loc") if cs else f.loc,
                      "%s arg %d <- %s" % (row["setter"].split("::")[-1], arg, row["source"].split("::")[-1]),
                      "%s: argument %d of %s comes from %s, expected exactly %s" % (fname, arg, row["setter"], sorted(got or []), row["source"]))
    for fname, srcs in spec["tecmp_versions"].items():
        f = fb.fn(fname)
        got = [callee_name(c) for c in f.calls() if (callee_name(c) or "").startswith("TECMP::CaptureModulePayload::Header::get")]
        res.check(got == srcs, "C15-R3", "version-string:%s" % fname.split("::")[-1], f.loc, "built from %s in that order" % [s.split("::get")[-1] for s in srcs],
                  "%s is built from %s, expected %s" % (fname, got, srcs))

    # closed world of packet attributes: the conversion sets a packet's header attributes where the table says and nowhere else — a second
    # setter call further down (the device id taken from a status payload's own copy, a timestamp 'corrected') overrides the listed source
    allowed = {(TC + "GetPackageFromTecmpHeader", row["setter"]) for row in spec["tecmp_header"]}
    for fname, rows in spec["tecmp_payload"].items():
        for row in rows:
            if row["setter"].startswith("ASAM::CMP::Packet::"):
                allowed.add((fname, row["setter"]))
    extra = []
    nset = 0
    for f2 in fb.all_functions():
        if not (f2.name.startswith(TC) or f2.name.startswith(TD)) or not f2.body:
            continue
        for c2 in f2.calls():
            nm = callee_name(c2) or ""
            if nm.startswith("ASAM::CMP::Packet::set") and nm != "ASAM::CMP::Packet::setPayload":
                nset += 1
                if (f2.name, nm) not in allowed:
                    extra.append((f2, c2, nm))
    res.check(not extra, "C15-R3", "packet-attributes:closed-world", (extra[0][1].get("loc") if extra else None) or gh.loc,
              "packet header attributes are set only where the conversion table lists a source (%d setter calls)" % nset,
              "%s calls %s(%s), which the conversion table does not list: it overrides the attribute taken from the TECMP header" %
              ((extra[0][0].name, extra[0][2].split("::")[-1], canon(extra[0][1]["args"][0])[:60]) if extra else ("", "", "")))

    # the TECMP payload object the converters read from holds the frame's own bytes at their full length (C04-R6, shared)
    from rules.c04 import rule_reported_length
    tmp = Result("C15")
    rule_reported_length(fb, tmp, "C15-R3")
    for o in tmp.obligations:
        if o["key"].startswith("TECMP::Payload"):
            res.check(o["ok"], "C15-R3", "payload-object:" + o["key"], o["loc"], o["detail"], o["detail"])

    # ---- R7 converters of supported kinds produce a packet on every path (rejecting is the decoder's job)
    for fname in sorted(spec["tecmp_payload"]):
        f = fb.fn(fname)
        bad = None
        for p in paths.enumerate_paths(f):
            r = p.returns()
            if r is None:
                continue
            e = strip_all_casts(r["e"])
            if e.get("null") or all(x.get("null") or x.get("k") in ("construct", "cast") for x in walk(r["e"])):
                bad = (r, p.atoms[-1] if p.atoms else None)
        res.check(bad is None, "C15-R7", "always-converts:%s" % fname.split("::")[-1], f.loc, "returns a packet on every path",
                  "%s returns no packet when `%s`: a well-formed message of a supported kind yields nothing" %
                  (fname, ("%s %s %s" % (bad[1][1], bad[1][2], bad[1][3]) if bad and bad[1] and bad[1][0] == "cmp" else (bad[1][1] if bad and bad[1] else ""))))
    # ... and the packet they return carries the payload they built: on every path that returns the packet itself (not another
    # converter's result), Packet::setPayload(<the local payload object>) runs on that packet after the last setter call on that object
    for fname in sorted(spec["tecmp_payload"]):
        f = fb.fn(fname)
        setters = {row["setter"] for row in spec["tecmp_payload"][fname]}
        bad = None
        npk = 0
        for p in paths.enumerate_paths(f):
            r = p.returns()
            if r is None or p.end != "exit" or r.get("e") is None:
                continue
            v = strip_all_casts(r["e"])
            while v.get("k") == "construct" and len(v.get("args", [])) == 1:
                v = strip_all_casts(v["args"][0])
            if v.get("k") == "call" and callee_name(v) in ("std::move",) and v.get("args"):
                v = strip_all_casts(v["args"][0])
            if v.get("k") != "ref":
                continue  # null (R7 above) or the result of the converter it delegates to
            npk += 1
            els = [x for _, x in p.elems()]
            sp = [i for i, x in enumerate(els) if x.get("k") == "call" and callee_name(x) == "ASAM::CMP::Packet::setPayload" and
                  v["decl"] in reads(x.get("obj", {})) | depends(f, x.get("obj", {}))[0]]
            if not sp:
                bad = bad or "the returned packet never receives the converted payload (no setPayload on it)"
                continue
            arg = strip_all_casts(els[sp[-1]]["args"][0]) if els[sp[-1]].get("args") else {}
            while arg.get("k") == "construct" and len(arg.get("args", [])) == 1:
                arg = strip_all_casts(arg["args"][0])
            obj = arg.get("decl")
            later = [x for x in els[sp[-1] + 1:] if x.get("k") == "call" and callee_name(x) in setters and strip_all_casts(x.get("obj", {})).get("decl") == obj]
            built = [x for x in els[:sp[-1]] if x.get("k") == "call" and callee_name(x) in setters and strip_all_casts(x.get("obj", {})).get("decl") == obj]
            own = [x for x in els if x.get("k") == "call" and callee_name(x) in setters and "obj" in x and (strip_all_casts(x["obj"]).get("t") or {}).get("k") == "rec"]
            if later:
                bad = bad or "%s is applied to the payload object after it was copied into the packet" % callee_name(later[0]).split("::")[-1]
            elif own and not built:
                bad = bad or "setPayload is given an object other than the one the converted fields were written to"
        if npk:
            res.check(bad is None, "C15-R7", "payload-attached:%s" % fname.split("::")[-1], f.loc, "the built payload is attached to the returned packet on every path (%d)" % npk,
                      "%s: %s" % (fname, bad))
    # ---- R4 layouts
    obs, ast = accessors.analyse(fb, ctx.spec("layout.json"), scope=lambda cls, stem: cls.startswith("TECMP::"))
    for o in obs:
        if o.cls.startswith("TECMP::") and o.tag in ("position", "size", "frame", "readback"):
            res.check(o.ok, "C15-R4", o.key, o.loc, o.detail)
    accessors.require_supported(ast)

    # ---- R5 entry loop
    gi = fb.fn(TD + "GetInterfacePayload")
    loops = paths.loop_header(gi)
    ok = False
    why = "no loop"
    if len(loops) == 1:
        lb, ls = loops[0]
        body = ls.get("body", {})
        pushes = [x for x in walk(body) if x.get("k") == "call" and callee_name(x) in ("std::vector::push_back", "std::vector::emplace_back")]
        sb = [x for x in walk(body) if x.get("k") == "call" and callee_name(x) == "TECMP::InterfacePayload::setBusData"]
        why = "pushes=%d setBusData=%d" % (len(pushes), len(sb))
        if len(pushes) == 1 and len(sb) == 1:
            from rules.c02 import ptr_linear
            from rules.decoder_rules import bound_fact
            lf = ptr_linear(gi, sb[0]["args"][0])
            L = const_value(sb[0]["args"][1])
            leaf = gi.cfg.branch_leaf(lb)
            bf = bound_fact(gi, facts.atom_of(leaf, True), gi.params[1]["decl"]) if leaf is not None else None
            why = "entry pointer %s, length %s, loop bound %s" % (lf, L, bf)
            if lf is not None and bf is not None and L is not None and lf[0] == gi.params[0]["decl"]:
                form = lf[1]
                vs = [k for k in form if k != 1 and form[k] != 0]
                if len(vs) == 1 and vs[0] == bf[2]:
                    v = vs[0]
                    c, a = form[v], form.get(1, 0)
                    # the loop variable: constant start, one constant step per iteration
                    inits = [const_value(dv["init"]) for x in gi.nodes() if x.get("k") == "decl" for dv in x.get("vars", [])
                             if dv.get("decl") == v and isinstance(dv.get("init"), dict)]
                    inits += [None for x in gi.nodes() if x.get("k") in ("assign", "cassign") and lvalue_root(x["l"]) == v and not any(x is y for y in walk(ls))]
                    steps = [x for x in walk(ls) if (x.get("k") == "cassign" and lvalue_root(x["l"]) == v) or
                             (x.get("k") == "un" and x.get("op") in ("pre++", "post++") and lvalue_root(x["e"]) == v)]
                    others = [x for x in walk(ls) if (x.get("k") == "assign" and lvalue_root(x["l"]) == v) or
                              (x.get("k") == "un" and x.get("op") in ("pre--", "post--") and lvalue_root(x["e"]) == v)]
                    d = None
                    if len(steps) == 1 and not others:
                        d = 1 if steps[0].get("k") == "un" else (const_value(steps[0]["r"]) if steps[0].get("op") == "+" else None)
                        # the step is executed once on every iteration: it post-dominates the body entry or is the for-increment
                    if len(inits) == 1 and inits[0] is not None and d:
                        start, stride = a + c * inits[0], c * d
                        exact = bf[1] == c and bf[0] == a + L  # loop runs exactly while the next entry fits
                        ok = start == 12 and stride == 12 and L == 12 and exact
                        why = "entries at %d + %d*k, %d bytes each, loop continues while %d + %d*%s <= size" % (start, stride, L, bf[0], bf[1], v.split(":")[-1])
    res.check(ok, "C15-R5", "bus-status:entry-loop", gi.loc, "one payload per 12-byte entry, starting at offset 12", "bus-status entry loop: " + why)
    # ---- R6 the frame is complete: the announced TECMP payload lies inside the buffer, measured behind the header
    gh0 = fb.fn(TD + "GetHeader")
    hsz = fb.record(TH)["size"]
    sizep = [q["decl"] for q in gh0.params if q["t"].get("k") == "int" and q["t"].get("bits") == 64]
    if len(sizep) != 1:
        raise Broken("TECMP::Decoder::GetHeader: cannot identify the size parameter")
    mfg = MustFacts(gh0)
    acc = []
    for r in gh0.returns():
        v = strip_all_casts(r.get("e") or {})
        while v.get("k") == "construct" and len(v.get("args", [])) == 1:
            v = strip_all_casts(v["args"][0])
        if v.get("k") == "ref" and v.get("dk") == "local":
            acc.append(r)  # the parsed header is handed out (the other returns hand out an empty / default header)
    if not acc:
        raise Broken("TECMP::Decoder::GetHeader: no return that hands out the parsed header")
    from rules.decoder_rules import _linear as _lin

    def symsh(x):
        if x.get("k") == "ref" and x.get("decl") == sizep[0]:
            return "n"
        if x.get("k") == "call" and callee_name(x) == TH + "::getPayloadLength":
            return "L"
        return None
    for r in acc:
        best = None
        for a in mfg.at(r):
            if a[0] != "cmp":
                continue
            l, rr = _lin(gh0, a[4], symsh), _lin(gh0, a[5], symsh)
            if l is None or rr is None:
                continue
            d = dict(l)
            for k2, v in rr.items():
                d[k2] = d.get(k2, 0) - v
            op = a[2]
            if op in ("<=", "<"):
                d = {k2: -v for k2, v in d.items()}
                op = {"<=": ">=", "<": ">"}[op]
            if op not in (">=", ">"):
                continue
            if op == ">":
                d[1] = d.get(1, 0) - 1
            if d.get("n") == 1 and d.get("L") == -1 and set(k2 for k2, v in d.items() if v) <= {"n", "L", 1}:
                best = max(best, -d.get(1, 0)) if best is not None else -d.get(1, 0)
        res.check(best is not None and best >= hsz, "C15-R6", "GetHeader:announced-length-inside@%s" % (r.get("loc") or "").split(":", 1)[-1], r.get("loc"),
                  "header handed out only under size >= %d + announced payload length" % hsz,
                  "GetHeader accepts a frame whose announced payload length is only bounded by size - %s (the TECMP header takes %d bytes): a frame cut "
                  "short by up to %d bytes still yields packets" % (best if best is not None else "nothing", hsz, hsz))
        # ... and under nothing stricter: a frame that ends exactly with its announced payload is complete
        res.check(best is None or best <= hsz, "C15-R6", "GetHeader:complete-frame-accepted@%s" % (r.get("loc") or "").split(":", 1)[-1], r.get("loc"),
                  "a frame of exactly %d + announced length bytes is accepted" % hsz,
                  "GetHeader demands size >= %s + announced payload length where the TECMP header takes %d bytes: a frame that ends exactly with its "
                  "payload yields no packet" % (best, hsz))
    # ---- R6b the dispatchers between GetHeader and the typed payload constructors decide by type: a condition on the size in one of them may
    # not demand more than the smallest payload that can be built behind it needs (each typed constructor judges its own size)
    from rules.decoder_rules import _linear as _lin2
    from cmpverif.accessors import header_view_record
    nsz = 0
    for f in sorted(fb.all_functions(), key=lambda z: z.name):
        if not f.name.startswith(TD) or f.body is None or f.name in (TD + "GetHeader", TD + "GetInterfacePayload", TD + "Decode"):
            continue
        szp = [q["decl"] for q in f.params if q["t"].get("k") == "int" and (q["t"].get("bits") or 0) == 64 and not q["t"].get("sg")]
        if not szp:
            continue
        nsz += 1
        built = set()
        for h in [f] + [fb.functions[k] for k in fb.reachable_from([f]) if k in fb.functions]:
            for x in (h.nodes() if h.body is not None else []):
                if x.get("k") == "construct" and (x.get("rec") or "").startswith("TECMP::") and (x.get("rec") or "").endswith("Payload") and len(x.get("args", [])) >= 2:
                    built.add(x["rec"])
        need = []
        for rec in sorted(built):
            try:
                need.append(fb.record(header_view_record(fb, rec))["size"])
            except Broken:
                pass
        least = min(need) if need else 0
        worst = None

        def size_reads(e, f=f):
            """size parameters the value of e is computed from in place (handing the size on to a callee is not a condition on it)"""
            out = set()
            st = [facts.expand(f, e)]
            while st:
                z = st.pop()
                if isinstance(z, list):
                    st.extend(z)
                    continue
                if not isinstance(z, dict):
                    continue
                if z.get("k") == "construct" or (z.get("k") == "call" and (fb.resolve_call(z) is not None or "obj" in z)):
                    if z.get("k") == "call" and "obj" in z:
                        st.append(z["obj"])
                    continue
                if z.get("k") == "ref" and z.get("decl") in szp:
                    out.add(z["decl"])
                for kk, v in z.items():
                    if kk not in facts.NONCHILD_KEYS and isinstance(v, (dict, list)):
                        st.append(v)
            return out
        for x in f.nodes():
            if x.get("k") not in ("if", "while", "for", "do", "cond"):
                continue
            cond = x.get("cond") if x.get("k") != "cond" else x.get("c")
            if not isinstance(cond, dict) or not size_reads(cond):
                continue
            for a in facts.conjuncts(cond, True, f) + facts.conjuncts(cond, False, f):
                if a[0] != "cmp" or not (size_reads(a[4]) | size_reads(a[5])):
                    continue

                def sy(z):
                    return "n" if z.get("k") == "ref" and z.get("decl") in szp else None
                l, rr = _lin2(f, a[4], sy), _lin2(f, a[5], sy)
                demanded = None
                if l is not None and rr is not None:
                    d = dict(l)
                    for k2, v in rr.items():
                        d[k2] = d.get(k2, 0) - v
                    if set(k2 for k2, v in d.items() if v) <= {"n", 1} and d.get("n") in (1, -1):
                        c0 = -d.get(1, 0) * d["n"]  # n  op'  c0
                        demanded = c0 + 1           # whichever side is taken, one of them needs at most c0 + 1 bytes to be on the large side
                if demanded is None or demanded > least + 1:
                    worst = worst or (cond, demanded)
        res.check(worst is None, "C15-R6", "dispatch-size:%s" % f.name.split("::")[-1], (worst[0].get("loc") if worst else f.loc),
                  "no condition on the size beyond what the smallest payload built behind it needs (%d bytes)" % least,
                  "%s decides on the size (`%s`) although the smallest payload it can build needs only %d bytes (%s): well-formed messages of "
                  "that kind which end at the end of the buffer yield no packet" %
                  (f.name, canon(worst[0])[:80] if worst else "", least, ", ".join(r.split("::")[-1] for r in sorted(built))))
    if nsz < 2:  # HandlePayload and GetDataPayload at least (the per-kind Get…Payload helpers may be folded into them)
        raise Broken("TECMP dispatchers taking (data, size) not found (%d)" % nsz)
    # ---- R4c a field shorter than the integer it is read into: the bytes the copy does not reach are zero (the value is the field's, not
    # the field's plus whatever the local started with)
    for f in fb.all_functions():
        if not (f.rec or "").startswith("TECMP::") or not f.cfg_raw:
            continue
        for c in f.calls():
            ca = facts.copy_args(c)
            if not ca:
                continue
            d0 = strip_all_casts(ca[0])
            while d0.get("k") == "cast":
                d0 = d0["e"]
            if not (d0.get("k") == "un" and d0.get("op") == "&"):
                continue
            tgt = strip_all_casts(d0["e"])
            tt = tgt.get("t") or {}
            nbytes = const_value(ca[2]) if ca[2] is not None else None
            if tgt.get("k") == "ref" and tgt.get("dk") == "local" and tt.get("k") == "int" and nbytes is not None and tt.get("bits") and nbytes * 8 < tt["bits"]:
                inits = [v.get("init") for n2 in f.nodes() if n2.get("k") == "decl" for v in n2.get("vars", []) if v.get("decl") == tgt["decl"]]
                zero = len(inits) == 1 and isinstance(inits[0], dict) and const_value(strip_all_casts(inits[0])) == 0 and \
                    not any(n2.get("k") in ("assign", "cassign") and lvalue_root(n2["l"]) == tgt["decl"] for n2 in f.nodes())
                res.check(zero, "C15-R4", "%s:partial-read-into-zero:%s" % (f.name, tgt.get("name")), c.get("loc"),
                          "%d of %d bytes are copied into `%s`, which starts as 0" % (nbytes, tt["bits"] // 8, tgt.get("name")),
                          "%s copies %d bytes of a field into the %d-byte `%s`, which does not start as 0: the bytes the copy does not reach become part of "
                          "the value" % (f.name, nbytes, tt["bits"] // 8, tgt.get("name")))
    # ---- R4b position of the trailing checksum: right behind the announced data bytes
    from rules.decoder_rules import _linear
    for cls, lengetter in (("TECMP::LinPayload", "getDataLength"), ("TECMP::CanPayload", "getDlc")):
        g = fb.fn(cls + "::getCrc", 0)
        hs = fb.record(cls + "::Header")["size"]

        def syms(x, lengetter=lengetter):
            if x.get("k") == "call" and (x.get("callee") or {}).get("nm") == lengetter:
                return "L"
            if x.get("k") == "call" and (x.get("callee") or {}).get("nm") == "data" and fb.is_payload_buffer(x.get("obj", {})):
                return "D"
            return None
        reads_at = []
        for x in g.nodes():
            if x.get("k") == "un" and x.get("op") == "*":
                reads_at.append((x, _linear(g, x["e"], syms)))
            elif x.get("k") == "call" and (x.get("callee") or {}).get("nm") in ("operator[]", "at") and fb.is_payload_buffer(x.get("obj", {})) and x.get("args"):
                f0 = _linear(g, x["args"][0], syms)
                reads_at.append((x, None if f0 is None else dict(f0, D=1)))
            elif x.get("k") == "call" and facts.copy_args(x) is not None:
                reads_at.append((x, _linear(g, facts.copy_args(x)[1], syms)))
            elif x.get("k") == "call" and (x.get("callee") or {}).get("nm") in ("back", "front") and fb.is_payload_buffer(x.get("obj", {})):
                reads_at.append((x, None))
        reads_at = [(x, f0) for x, f0 in reads_at if f0 is None or f0.get("D")]
        ok = bool(reads_at) and all(f0 is not None and f0.get("D") == 1 and f0.get("L") == 1 and f0.get(1, 0) == hs and set(k for k, v in f0.items() if v) <= {"D", "L", 1}
                                    for x, f0 in reads_at)
        res.check(ok, "C15-R4", "%s::getCrc:position" % cls, (reads_at[0][0] if reads_at else g.raw).get("loc"),
                  "checksum read at payload offset sizeof(Header) + %s()" % lengetter,
                  "%s::getCrc does not read the byte(s) at payload offset %d + %s(): the converted packet's checksum is not the wire field when anything "
                  "follows it in the buffer (read positions: %s)" % (cls, hs, lengetter, [f0 for _, f0 in reads_at]))
    # ---- R8 no state between conversions
    tdec = fb.fn(TD + "Decode")
    reach = fb.reachable_from([tdec])
    if len(reach) < 40:
        raise Broken("only %d functions reachable from TECMP::Decoder::Decode" % len(reach))
    bad = []
    for f in reach.values():
        for n in f.nodes():
            if n.get("k") in ("ref", "member") and n.get("dk") in ("global", "staticlocal", "staticmember") and not n.get("vconst"):
                bad.append((f, n))
            if n.get("k") == "decl" and any(v.get("static") and not v["t"].get("const") for v in n.get("vars", [])):
                bad.append((f, n))
    res.check(not bad, "C15-R8", "tecmp-reachable:statics", bad[0][1].get("loc") if bad else tdec.loc,
              "%d functions reachable from TECMP::Decoder::Decode reference no mutable static or thread-local object" % len(reach),
              "%s keeps state between conversions in a static/thread-local object (%s): a converted packet can contain data of an earlier frame" %
              (bad[0][0].name if bad else "", (bad[0][1].get("decl") or bad[0][1].get("name") or "local static") if bad else ""))
    res.floor("C15-R2", 15)
    res.floor("C15-R3", 20)
    res.floor("C15-R4", 100)
    return res
