"""C17 — Decoder keeps reassembly state only for messages still in progress."""
from cmpverif.report import Result
from rules import decoder_rules as D

LEVEL = "other"


def run(ctx):
    fb = ctx.fb()
    res = Result("C17")
    m = D.DecodeModel(fb)
    res.rule("C17-R1", "typestate of the current endpoint's entry per message-loop path: invalid message -> erase; unsegmented -> erase; "
                        "first segment -> entry := new SegmentedPacket; continuation rejected -> erase; continuation completes -> erase "
                        "(after delivery); continuation accepted and incomplete -> untouched (the one path that may leave an entry)")
    res.rule("C17-R1A", "every accepting path of addSegment records the accepted segment's type and advances the counter exactly once, so that the "
                         "last segment is seen (isAssembled) and the entry is released")
    res.rule("C17-R1L", "lemma: the default entry operator[] may insert can never be accepted (stored version 0, accept requires version "
                         "equality, the loop is only reached when input byte 0 — the version — is non-zero)")
    res.rule("C17-R2", "the reassembly buffer grows only by resize in the first-segment constructor and in addSegment (no reserve, no other writer)")
    res.rule("C17-R3", "nothing else persists: the table is Decoder's only data member; entries hold values only")
    res.assumptions += ["a frame that carries no message (8-byte header only) takes the zero-iteration path and does not touch the table: "
                        "'most recent frame' is read as 'most recent frame carrying a message'",
                        "the table is used only inside decode (checked: C18-R2)"]
    res.not_decided += ["allocator-level memory", "the pending-byte bound as arithmetic (only: growth happens where a copy of the same length follows)"]
    D.rule_segtype_subject(res, "C17-R1", m)
    D.rule_classifier_reads_type_only(res, "C17-R1", m)
    res.rule("C17-R4", "entries are opened and dropped by real messages only: the message loop steps by each message's wire length (stride = payload "
                        "length + 16 as a linear form, taken from a packet whose payload buffer holds exactly the wire bytes — shared with C04-R2/R6)")
    n = D.rule_loop_typestate(res, "C17-R1", m)
    D.rule_accept_guard(res, "C17-R1A", m)
    D.rule_segment_ends_walk(res, "C17-R1", m)
    D.rule_entry_classification(res, "C17-R1", m)
    D.rule_header_reads(res, "C17-R1", ctx, fb)  # entries are opened, continued and released by the segment types the wire carries  # every frame of an endpoint is walked: nothing but 'no frame header' / TECMP leaves early
    D.rule_assembled_by_state(res, "C17-R1", m)  # completion (and with it the release) is decided by the segment state alone
    D.rule_default_entry_rejected(res, "C17-R1L", m)
    D.rule_buffer_growth(res, "C17-R2", m)
    D.rule_table_only_state(res, "C17-R3", m)
    D.rule_keyed_access(res, "C17-R3", m)
    D.rule_key_equality(res, "C17-R3", m)  # erase(key) releases the entry only if the container's key relation finds it again
    # the walk over a frame steps by the wire length of each message (C04-R2 stride, C04-R6 constructed length): a wrong stride parses
    # payload bytes as message headers and opens / drops entries for messages that were never sent
    from rules import c04
    for o in c04.run(ctx).obligations:
        if o["rule"] in ("C04-R2", "C04-R6"):
            res.check(o["ok"], "C17-R4", o["key"], o["loc"], o["detail"], o["detail"])
    # "invalid message -> erase" presupposes that the message validator calls invalid what the protocol calls invalid — every accepting return
    # has established error flag clear and payload type != 0, and rejects for nothing else (C03-R4 / C04-R4, shared)
    from rules import c03
    c03.rule_message_validator_exact(fb, res, "C17-R1", "message-validator:")
    res.floor("C17-R4", 3)
    res.floor("C17-R1", 6, n)
    res.floor("C17-R1L", 3)
    res.floor("C17-R2", 2)
    return res
