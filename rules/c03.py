"""C03 — Payloads accepted by validation expose only in-bounds data.

Cross-check of sibling functions: what each typed payload class's validator
guarantees must cover what its accessors need; accessors that walk variable-length
structure must guard every raw access locally against the end of the object's buffer.
"""
from cmpverif import facts, paths
from cmpverif.build import Broken
from cmpverif.facts import (MustFacts, callee_name, called_names, canon, conjuncts, const_value, depends, reads, strip, strip_all_casts,
                            walk, local_defs)
from cmpverif.report import Result

LEVEL = "other"
NS = "ASAM::CMP::"
CLASSES = ["CanPayload", "CanFdPayload", "LinPayload", "EthernetPayload", "AnalogPayload", "CaptureModulePayload", "InterfacePayload"]
# view pairs (pointer getter, length getter), frozen after reading the public API
VIEWS = {
    "CanPayload": [("getData", "getDataLength")], "CanFdPayload": [("getData", "getDataLength")],
    "LinPayload": [("getData", "getDataLength")], "EthernetPayload": [("getData", "getDataLength")],
    "AnalogPayload": [("getData", "getSamplesCount")],
    "CaptureModulePayload": [("getVendorData", "getVendorDataLength")],
    "InterfacePayload": [("getStreamIds", "getStreamIdsCount"), ("getVendorData", "getVendorDataLength")],
}


# element widths a consumer of a counted view reads per element (from the protocol: analog samples are 16- or 32-bit)
VIEW_UNITS = {"AnalogPayload": ("getSampleDt", NS + "AnalogPayload::SampleDt", {"aInt16": 2, "aInt32": 4})}


from cmpverif.views import view_syms as _view_syms, pointer_rows  # noqa: E402


def rule_view_extent(fb, res, cls, key, ptrf, lenf, hsize, bound_minus=None, reader_arg=None):
    """C03-R2b, second half: the pointer of a view pair points where the bound on its length was established.
    bound_minus = m: length <= size - m (validator), pointer must be data() + k with k <= m;
    reader_arg = A: length comes from a bounded reader at A ((end - A) - 2 >= length), pointer must be A + j, 0 <= j <= 2;
    neither: the length getter computes (size - c) / w itself: k <= c and w >= the element width on that path."""
    from rules.decoder_rules import _linear
    rows = pointer_rows(fb, ptrf)
    if not rows:
        raise Broken("%s returns no pointer value the analysis can read" % ptrf.name)
    syms = _view_syms(fb)
    for p, v, form in rows:
        if form is None:
            raise Broken("%s: returned pointer `%s` is not a base plus a constant offset" % (ptrf.name, canon(v)[:80]))
        bases = sorted(k for k in form if k != 1 and form[k])
        k = form.get(1, 0)
        if reader_arg is not None:
            fa = _linear(lenf, reader_arg, syms)
            if fa is None:
                raise Broken("%s: the reader's pointer argument is not a base plus constant" % lenf.name)
            d = dict(form)
            for s2, c2 in fa.items():
                d[s2] = d.get(s2, 0) - c2
            nz = {s2: c2 for s2, c2 in d.items() if c2 and s2 != 1}
            j = d.get(1, 0)
            ok = not nz and 0 <= j <= 2
            res.check(ok, "C03-R2b", key + ":extent", v.get("loc") or ptrf.loc, "data pointer = the bounded reader's position + %d" % j,
                      "%s returns a pointer that is not the position its length was read and bounded at plus 2 (difference %s%+d): the %s() bytes "
                      "behind it are not covered by the reader's guard" % (ptrf.name.split("::")[-1], "+".join(sorted(nz)) or "", j, lenf.name.split("::")[-1]))
            continue
        if bases != ["D"] or form["D"] != 1:
            raise Broken("%s: returned pointer is not payload data() + constant (%s)" % (ptrf.name, bases))
        if bound_minus is not None:
            res.check(0 <= k <= bound_minus, "C03-R2b", key + ":extent", v.get("loc") or ptrf.loc,
                      "data pointer = data() + %d, length <= size - %d" % (k, bound_minus),
                      "%s returns data() + %d but the validator bounds the length only by size - %d: the last %d byte(s) of the view lie "
                      "behind the payload" % (ptrf.name.split("::")[-1], k, bound_minus, k - bound_minus))
            continue
        # the length getter derives the count from the payload size itself
        unit = VIEW_UNITS.get(cls)
        for lp in paths.enumerate_paths(lenf):
            if lp.end != "exit":
                continue
            lv = paths.returned_value(lp)
            if lv is None or const_value(lv) == 0:
                continue
            lv = strip_all_casts(facts.expand(lenf, lv)) if lv.get("k") == "ref" else lv
            w = 1
            num = lv

            def path_const(e):
                """constant value of e on this path (locals and ?: resolved by the path's decisions)"""
                for _ in range(6):
                    c0 = const_value(e)
                    if c0 is not None:
                        return c0
                    fw0 = _linear(lenf, e, syms)
                    if fw0 is not None and set(fw0) == {1}:
                        return fw0[1]
                    e2 = strip_all_casts(lp.value_of(e))
                    if e2 is e or e2.get("id") == strip_all_casts(e).get("id"):
                        return None
                    e = e2
                return None
            if lv.get("k") == "bin" and lv.get("op") in ("/", ">>"):
                d = path_const(lv["r"])
                if d is None and lv["op"] == "/":
                    # an element width looked up by a helper (`bytes / sampleSize(type)`): every width it can answer is a case of its own
                    dv = strip_all_casts(facts.expand(lenf, lv["r"]))
                    gdv = fb.resolve_call(dv) if dv.get("k") == "call" else None
                    widths = sorted({const_value(r0.get("e")) for r0 in gdv.returns()}) if gdv is not None and gdv.body is not None and gdv.returns() and \
                        all(const_value(r0.get("e")) is not None for r0 in gdv.returns()) else None
                    if widths is not None:
                        if 0 in widths:
                            res.bad("C03-R2b", key + ":extent:divisor", lv.get("loc") or lenf.loc,
                                    "%s() divides the payload's size by %s(..), which answers 0 for some values of the field it is given: for such a payload "
                                    "(accepted or not, the getter is public and the validator uses the same helper) the division traps" %
                                    (lenf.name.split("::")[-1], gdv.name.split("::")[-1]))
                            continue
                        d = min(widths)  # the smallest width gives the largest count
                if d is None or d < 0 or (lv["op"] == "/" and d == 0) or d > 63:
                    raise Broken("%s: divisor of the element count is not a constant" % lenf.name)
                w, num = (d if lv["op"] == "/" else (1 << d)), lv["l"]
            fn_ = _linear(lenf, num, syms)
            if fn_ is None or fn_.get("L") != 1 or any(c2 for s2, c2 in fn_.items() if s2 not in ("L", 1)):
                # locals that are constants on this path (an element width chosen by `?:`, a rounding term) stand for their value
                import copy as _copy
                num2 = _copy.deepcopy(num)
                for z in list(walk(num2)):
                    if z.get("k") == "ref" and z.get("dk") == "local":
                        cz = path_const(z)
                        if cz is not None:
                            t_ = z.get("t")
                            z.clear()
                            z.update({"k": "lit", "cv": cz, "t": t_})
                fn_ = _linear(lenf, num2, syms)
            if fn_ is None or fn_.get("L") != 1 or any(c2 for s2, c2 in fn_.items() if s2 not in ("L", 1)):
                raise Broken("%s: element count is not (payload size - constant) / width (`%s`)" % (lenf.name, canon(lv)[:80]))
            c = -fn_.get(1, 0)
            need = 1
            if unit:
                getter, ename, widths = unit
                vals = {e["value"]: widths.get(e["name"]) for e in fb.enum(ename)["enumerators"]}
                if None in vals.values():
                    raise Broken("%s: no element width known for an enumerator of %s" % (cls, ename))
                poss = set(vals)
                for a in lp.atoms:
                    if a[0] == "cmp" and a[2] in ("==", "!="):
                        for x, y in ((a[4], a[5]), (a[5], a[4])):
                            if getter in canon(x) and const_value(y) in vals:
                                poss = (poss & {const_value(y)}) if a[2] == "==" else (poss - {const_value(y)})
                    elif a[0] == "switch" and getter in a[1] and a[2] != "default":
                        poss &= {a[2]} if a[2] in vals else poss
                need = max([vals[x] for x in poss] or [1])
            res.check(k <= c and w >= need, "C03-R2b", key + ":extent:%s" % ("w%d" % w), lv.get("loc") or lenf.loc,
                      "count = (size - %d) / %d, data pointer = data() + %d, element width %d" % (c, w, k, need),
                      "%s() reports (size - %d) / %d elements of %d byte(s) at data() + %d: the view extends %s" %
                      (lenf.name.split("::")[-1], c, w, need, k, "behind the payload" if (k > c or w < need) else "?"))


def walk_depth(fb, f, depth=3):
    """Number of walker steps (calls of class helpers that take a position pointer and return the next position, bare or inside a
    struct) executed before the value is returned,
    the same on every path; through a callee whose result's data()/size() is returned.  None when paths disagree."""
    counts = set()
    for p in paths.enumerate_paths(f):
        if p.end != "exit":
            continue
        n = 0
        for _, c in p.elems():
            if c.get("k") == "call":
                g = fb.resolve_call(c)
                if g is not None and g.rec == f.rec and g.params and (g.params[0]["t"] or {}).get("k") == "ptr" and (g.raw.get("rett") or {}).get("k") in ("ptr", "rec"):
                    n += 1
                elif g is not None and g.rec == f.rec and g.key != f.key and depth > 0 and g.cfg_raw and not g.params and "string_view" in (g.raw.get("ret") or ""):
                    d = walk_depth(fb, g, depth - 1)
                    if d is None:
                        return None
                    n += d
        counts.add(n)
    return counts.pop() if len(counts) == 1 else None


def find_method(fb, cls, name, const=None):
    from cmpverif.accessors import find_method as fm
    return fm(fb, cls, name, None, const)


_LAYOUT = None


def raw_byte_getter(val, node):
    """`data[k]` in a validator(data, size), k constant: the name of the header getter that reads exactly that byte — a field the layout
    oracle places at byte k, one byte wide, all 8 bits (that the getter reads this position is C12-R1's result) — else None."""
    global _LAYOUT
    x = strip_all_casts(node)
    if x.get("k") != "subscript" or not val.params or strip_all_casts(x.get("base", {})).get("decl") != val.params[0]["decl"]:
        return None
    k = const_value(x.get("idx"))
    if k is None:
        return None
    if _LAYOUT is None:
        import json
        import os
        _LAYOUT = json.load(open(os.path.join(os.path.dirname(os.path.abspath(__file__)), "..", "spec", "layout.json")))
    for row in _LAYOUT["classes"]:
        if row["class"] == val.rec or row["class"] in getattr(val.fb, "bases_of", lambda r: [])(val.rec):
            for f in row["fields"]:
                if f["offset"] == k and f["bytes"] == 1 and f["lo"] == 0 and f["hi"] == 7:
                    hdr = [c for c in val.fb.records if c in (row["class"] + "::Header", row["class"].rsplit("::", 1)[0] + "::CanPayloadBase::Header")]
                    from cmpverif.accessors import header_view_record
                    try:
                        rec = header_view_record(val.fb, val.rec)
                    except Broken:
                        rec = None
                    return (rec + "::get" + f["stem"]) if rec else None
    return None


def validator_facts(fb, val):
    """(K, bounded) for a static validator(data,size): K = guaranteed minimum size;
    bounded = {header getter callee name: True} for getters compared `<= size - sizeof(Header)`."""
    sizep = val.params[1]["decl"]
    mf = MustFacts(val)
    per_ret = []
    for r in val.returns():
        e = r.get("e")
        if const_value(e) == 0:
            continue
        atoms = list(mf.at(r))
        if const_value(e) != 1:
            atoms += conjuncts(e, True, val)
        per_ret.append(atoms)
    if not per_ret:
        raise Broken("%s never returns true" % val.name)
    K = None
    bounded = None
    for atoms in per_ret:
        k = 0
        b = set()
        for a in atoms:
            if a[0] != "cmp":
                continue
            _, l, op, rr, ln, rn = a
            lv, rv = const_value(ln), const_value(rn)
            if l == sizep and rv is not None and op in (">=", ">"):
                k = max(k, rv + (1 if op == ">" else 0))
            if rr == sizep and lv is not None and op in ("<=", "<"):
                k = max(k, lv + (1 if op == "<" else 0))
            # K + getter <= size, evaluated without narrowing (a 16-bit sum wraps)
            for x, y, o in ((ln, rn, op), (rn, ln, facts._flip_op(op))):
                if o in ("<=", "<") and strip_all_casts(y).get("decl") == sizep:
                    from rules.decoder_rules import _linear
                    from rules.encoder_rules import narrowings

                    def syms(z):
                        if z.get("k") == "call" and "Header::get" in (callee_name(z) or ""):
                            return callee_name(z)
                        if z.get("k") == "subscript":
                            return raw_byte_getter(val, z)
                        return None
                    form = _linear(val, x, syms)
                    if form and len([k2 for k2 in form if k2 != 1]) == 1 and not narrowings(val, x, limit_bits=32):
                        g = [k2 for k2 in form if k2 != 1][0]
                        if form[g] == 1 and form.get(1, 0) >= 0:
                            b.add((g, form.get(1, 0) + (1 if o == "<" else 0)))
            # getter <= size - sizeof(Header)
            for x, y, o in ((ln, rn, op), (rn, ln, facts._flip_op(op))):
                if o in ("<=", "<"):
                    yy = strip_all_casts(facts.expand(val, y))
                    if yy.get("k") == "bin" and yy.get("op") == "-" and strip_all_casts(yy["l"]).get("decl") == sizep and const_value(yy["r"]) is not None:
                        for c in walk(x):
                            if c.get("k") == "call" and "Header::get" in (callee_name(c) or ""):
                                b.add((callee_name(c), const_value(yy["r"])))
                            elif c.get("k") == "subscript" and raw_byte_getter(val, c):
                                b.add((raw_byte_getter(val, c), const_value(yy["r"])))
        K = k if K is None else min(K, k)
        bounded = b if bounded is None else (bounded & b)
    return K, bounded


def rule_message_validator_exact(fb, res, rid, prefix="isValidPacket:"):
    """Completeness of the message-level validator: every condition a message must meet to be accepted is one of the protocol's —
    the header fits (size >= c, c <= 16), the declared payload fits (length + c <= size, c <= 16), the error-in-payload flag is clear,
    the payload type is not 0.  A stronger size bound, a condition on the length alone, or a test of any other field rejects complete
    messages (a header-only message at the end of a frame, a zero-length segment)."""
    from rules.decoder_rules import _linear
    ivp = fb.fn(NS + "Packet::isValidPacket")
    sizep = ivp.params[1]["decl"]
    mh = fb.record(NS + "MessageHeader")["size"]
    mf = MustFacts(ivp)
    LEN = NS + "MessageHeader::getPayloadLength"

    def syms(z):
        if z.get("k") == "ref" and z.get("decl") == sizep:
            return "n"
        if z.get("k") == "call" and callee_name(z) == LEN:
            return "L"
        return None
    nret = 0
    per_return = []
    ERRBIT = 0x40
    FLAGS = (NS + "MessageHeader::getCommonFlag", NS + "MessageHeader::getCommonFlags")

    def flag_test_exact(a):
        if a[0] == "truth":
            c = strip_all_casts(facts.expand(ivp, a[3]))
            if c.get("k") == "call" and callee_name(c) == FLAGS[0] and len(c.get("args", [])) == 1 and const_value(c["args"][0]) == ERRBIT:
                return a[2] is False
            if c.get("k") == "bin" and c.get("op") == "&":
                for x, y in ((c["l"], c["r"]), (c["r"], c["l"])):
                    if callee_name(strip_all_casts(x)) == FLAGS[1] and const_value(y) == ERRBIT:
                        return a[2] is False
            return False
        if a[0] == "cmp":
            for x, y, op in ((a[4], a[5], a[2]), (a[5], a[4], facts._flip_op(a[2]))):
                xs = strip_all_casts(facts.expand(ivp, x))
                cy = const_value(y)
                masked = xs.get("k") == "bin" and xs.get("op") == "&" and any(
                    callee_name(strip_all_casts(u)) == FLAGS[1] and const_value(v) == ERRBIT for u, v in ((xs["l"], xs["r"]), (xs["r"], xs["l"])))
                if masked and ((op == "==" and cy == 0) or (op == "!=" and cy == ERRBIT) or (op == "<" and cy in (1, ERRBIT)) or (op == "<=" and cy == 0)):
                    return True
                if xs.get("k") == "call" and callee_name(xs) == FLAGS[0] and len(xs.get("args", [])) == 1 and const_value(xs["args"][0]) == ERRBIT and \
                        ((op == "==" and cy == 0) or (op == "!=" and cy == 1)):
                    return True
        return False
    for r in ivp.returns():
        e = r.get("e")
        if const_value(e) == 0:
            continue
        atoms = list(mf.at(r))
        if const_value(e) != 1:
            atoms += conjuncts(e, True, ivp)
        nret += 1
        seen = set()
        have = {"flag": False, "type": False}
        per_return.append((r, have))
        for a in atoms:
            key = a[:4] if a[0] == "cmp" else a[:3]
            if key in seen:
                continue
            seen.add(key)
            nodes = [a[4], a[5]] if a[0] == "cmp" else [a[3]]
            getters = set()
            mentions_size = False
            for nd in nodes:
                ex = facts.expand(ivp, nd)
                getters |= {c for c in called_names(ex) if c.startswith(NS + "MessageHeader::get")}
                mentions_size = mentions_size or sizep in reads(ex)
            why = None
            if not getters and not mentions_size:
                continue  # says nothing about the message
            if getters <= {NS + "MessageHeader::getCommonFlag", NS + "MessageHeader::getCommonFlags"} and not mentions_size:
                # the error-in-payload flag and nothing else of the common flags: `!getCommonFlag(errorInPayload)` or `(getCommonFlags() & 0x40) == 0`
                # (the position of the bit behind the enumerator is C04-R5 / C12-R1f's).  A magnitude comparison of the whole byte, another
                # mask or another enumerator makes the reserved bit / the other flags a reason for rejection.
                if flag_test_exact(a):
                    have["flag"] = True
                    continue
                why = "tests the common flags for something else than `error-in-payload (0x%02X) is clear`" % ERRBIT
            elif getters == {NS + "MessageHeader::getPayloadType"} and not mentions_size:
                ok = a[0] == "cmp" and a[2] == "!=" and 0 in (const_value(a[4]), const_value(a[5])) or (a[0] == "truth" and a[2] is True)
                if ok:
                    have["type"] = True
                    continue
                why = "tests the payload type for something else than `!= 0`"
            elif getters <= {LEN} and a[0] == "cmp" and a[2] in ("<", "<=", ">", ">="):
                l, rr = _linear(ivp, a[4], syms), _linear(ivp, a[5], syms)
                if l is not None and rr is not None:
                    d = dict(l)
                    for k2, v2 in rr.items():
                        d[k2] = d.get(k2, 0) - v2
                    if a[2] in ("<", "<="):
                        d = {k2: -v2 for k2, v2 in d.items()}
                    c = -d.get(1, 0) + (1 if a[2] in ("<", ">") else 0)  # normalised: n*dn + L*dL >= c
                    dn, dl = d.get("n", 0), d.get("L", 0)
                    if dn == 1 and dl == 0:
                        if c <= mh:
                            continue
                        why = "requires size >= %d: a complete message needs only %d bytes plus its declared payload" % (c, mh)
                    elif dn == 1 and dl == -1:
                        if c <= mh:
                            continue
                        why = "requires payload length + %d <= size: a complete message needs only payload length + %d" % (c, mh)
                    else:
                        why = "a condition on %s other than `fits into the remaining bytes`" % ("the payload length" if dl else "the size")
                else:
                    why = "a size/length condition that is not linear"
            else:
                why = "tests %s" % (", ".join(sorted(g.split("::")[-1] for g in getters)) or "the size") + " in a way the protocol does not prescribe"
            res.bad(rid, prefix + "accepts-complete-messages:%s" % canon(a[4] if a[0] == "cmp" else a[3])[:50], (nodes[0].get("loc") or ivp.loc),
                    "isValidPacket accepts a message only under `%s %s %s`: %s — complete messages are rejected and, in the decoder, drop the rest of "
                    "the frame and the endpoint's pending reassembly" % (((a[1][:60], a[2], a[3][:40]) if a[0] == "cmp" else (a[1][:60], "is", a[2])) + (why,)))
    if nret == 0:
        raise Broken("isValidPacket never returns true")
    # ... and each of them is demanded wherever a message is accepted (size and length: C03-R4's min-size / length-bound): a message with the
    # error flag set, or with payload type 0, is not a message the decoder may build a packet from or append to a reassembly
    for what, txt in (("flag", "the error-in-payload flag is clear"), ("type", "the payload type is not 0")):
        missing = [r for r, have in per_return if not have[what]]
        res.check(not missing, rid, prefix + "rejects-invalid-messages:%s" % what, (missing[0].get("loc") if missing else ivp.loc),
                  "every accepting return has established that %s" % txt,
                  "isValidPacket accepts a message on a path that has not established that %s: such a message is decoded / appended to the endpoint's "
                  "open reassembly instead of ending it — the buffer is kept and a later last segment delivers a message that should have been dropped" % txt)
    res.ok(rid, prefix + "accepts-complete-messages", ivp.loc, "every acceptance condition is one of: header fits, declared payload fits, error flag clear, "
           "payload type != 0 (%d accepting return(s))" % nret)


def buffer_end_locals(fn):
    """locals defined as payloadData.data() + payloadData.size()"""
    out = set()
    for d, es in local_defs(fn).items():
        if len(es) == 1:
            e = strip_all_casts(es[0])
            if e.get("k") == "bin" and e.get("op") == "+":
                l, r = strip_all_casts(e["l"]), strip_all_casts(e["r"])
                if l.get("k") == "call" and (l.get("callee") or {}).get("nm") == "data" and r.get("k") == "call" and \
                        (r.get("callee") or {}).get("nm") == "size" and canon(l.get("obj")) == canon(r.get("obj")) and fn.fb.is_payload_buffer(l.get("obj")):
                    out.add(d)
    return out


def remaining_views(fn, ends, ptr_canon):
    """string_view locals V initialised as {(cast) ptr, end - ptr}: V.size() is the number of bytes from the
    position V.data() to the end of the payload, and only shrinks (remove_prefix / remove_suffix)."""
    out = set()
    for n in fn.nodes():
        if n.get("k") != "decl":
            continue
        for v in n.get("vars", []):
            init = v.get("init")
            if not isinstance(init, dict) or "basic_string_view" not in (v["t"].get("s") or ""):
                continue
            c = strip_all_casts(init)
            while c.get("k") == "construct" and len(c.get("args", [])) == 1:
                c = strip_all_casts(c["args"][0])
            if c.get("k") in ("construct", "initlist") and len(c.get("args", c.get("inits", []))) == 2:
                a0, a1 = (c.get("args") or c.get("inits"))
                l = strip_all_casts(a1)
                if canon(strip_all_casts(a0)) == ptr_canon and l.get("k") == "bin" and l.get("op") == "-" and \
                        strip_all_casts(l["l"]).get("decl") in ends and canon(strip_all_casts(l["r"])) == ptr_canon:
                    # other writers than shrinking would break the reading
                    others = [k for d, k, _ in facts.writes_of(fn) if d == v["decl"] and k not in ("call:remove_prefix", "call:remove_suffix")]
                    if not others:
                        out.add(v["decl"])
    return out


def remaining_accessor(fb, g):
    """g(ptr) is a 'bytes available behind ptr' accessor: every return is 0 or `end - ptr` with end = data() + size()
    of the payload buffer (so result >= k > 0 implies that k bytes lie between ptr and the end)."""
    if g is None or g.body is None or not g.params or g.params[0]["t"].get("k") != "ptr":
        return False
    ends = buffer_end_locals(g)
    pd = g.params[0]["decl"]
    rets = g.returns()
    if not rets or not ends or any(d == pd for d, _, _ in facts.writes_of(g)):
        return False
    seen_diff = False
    for r in rets:
        e = strip_all_casts(r.get("e") or {})
        if const_value(e) == 0:
            continue
        if e.get("k") == "bin" and e.get("op") == "-" and strip_all_casts(e["l"]).get("decl") in ends and strip_all_casts(e["r"]).get("decl") == pd:
            seen_diff = True
            continue
        return False
    return seen_diff


def remaining_accessor_locals(fn, ptr_canon):
    """single-definition locals initialised as <remaining accessor>(ptr) while ptr is not moved in fn"""
    fb = getattr(fn, "fb", None)
    out = set()
    if fb is None or any(d == ptr_canon for d, k, _ in facts.writes_of(fn) if k != "addr"):
        return out
    for d, es in local_defs(fn).items():
        if len(es) == 1:
            c = strip_all_casts(es[0])
            if c.get("k") == "call" and len(c.get("args", [])) == 1 and canon(strip_all_casts(c["args"][0])) == ptr_canon and \
                    remaining_accessor(fb, fb.resolve_call(c)):
                out.add(d)
    return out


def remaining_counters(fn, ends, ptr_canon, before_id=None):
    """Locals R kept equal to (end - ptr): initialised as `end - ptr` and decreased by k in the
    same block right after/before every `ptr += k` (no other writes to R or ptr)."""
    out = set()
    defs = local_defs(fn)
    cfg = fn.cfg
    for d, es in defs.items():
        init = None
        for e in es:
            x = strip_all_casts(e)
            if x.get("k") == "bin" and x.get("op") == "-" and strip_all_casts(x["l"]).get("decl") in ends and canon(strip_all_casts(x["r"])) == ptr_canon:
                init = e
        if init is None:
            continue
        ok = True
        pm = [x for x in fn.nodes() if x.get("k") in ("cassign", "assign") and strip_all_casts(x["l"]).get("decl") == ptr_canon] + \
             [x for x in fn.nodes() if x.get("k") == "un" and x.get("op") in ("pre++", "post++", "pre--", "post--") and strip_all_casts(x["e"]).get("decl") == ptr_canon]
        rm = [x for x in fn.nodes() if x.get("k") in ("cassign", "assign") and strip_all_casts(x["l"]).get("decl") == d]
        if before_id is not None:
            # updates that follow the access (in source order) do not matter for it
            pm = [x for x in pm if x["id"] < before_id]
            rm = [x for x in rm if x["id"] < before_id]
        if len(pm) != len(rm):
            continue
        for a, b in zip(sorted(pm, key=lambda n: n["id"]), sorted(rm, key=lambda n: n["id"])):
            if a.get("k") != "cassign" or b.get("k") != "cassign" or a.get("op") != "+" or b.get("op") != "-" or \
                    canon(strip_all_casts(a["r"])) != canon(strip_all_casts(b["r"])) or cfg.block_for(a) != cfg.block_for(b):
                ok = False
                break
            # nothing reads through the pointer between the two updates
            lo, hi = sorted((cfg.pos_of[a["id"]], cfg.pos_of[b["id"]]))
            blk = cfg.blocks[cfg.block_for(a)]
            for e in blk.get("el", [])[lo + 1:hi]:
                n = fn.node(e)
                if n is not None and n.get("k") in ("un", "construct", "call") and ptr_canon in reads(n) and n["id"] not in (a["id"], b["id"]) and \
                        not any(y["id"] in (a["id"], b["id"]) for y in walk(n)) and not any(n["id"] == y["id"] for z in (a, b) for y in walk(z)):
                    ok = False
        if ok:
            out.add(d)
    return out


def not_past_end(fn, use, ends, ptr_canon):
    """`static_cast<size_t>(end - ptr)` only counts the remaining bytes while ptr <= end; for a pointer behind the end the difference wraps
    to a huge value and every `>=` bound on it passes.  True when every path from the function's entry to `use` has established
    `end >= ptr` at some point (`end < ptr` excluded, `ptr <= end` tested); later forward moves of the pointer are each bounded by a
    remaining-bytes fact of their own (C03-R2c), which preserves it.  Comparisons of the signed difference itself need nothing."""
    cfg = fn.cfg
    ub = cfg.block_for(use)
    if ub is None:
        return False

    def establishes(a):
        if a[0] != "cmp":
            return False
        for x, y, op in ((a[4], a[5], a[2]), (a[5], a[4], facts._flip_op(a[2]))):
            xs, ys = strip_all_casts(x), strip_all_casts(y)
            if xs.get("decl") in ends and canon(ys) == ptr_canon and op in (">=", ">"):
                return True
            # a signed test of the difference: (end - ptr) >= k with k >= 0, not converted to unsigned
            if xs.get("k") == "bin" and xs.get("op") == "-" and strip_all_casts(xs["l"]).get("decl") in ends and canon(strip_all_casts(xs["r"])) == ptr_canon and \
                    op in (">=", ">") and (const_value(ys) or 0) >= 0 and const_value(ys) is not None:
                signed = not any(c.get("k") == "cast" and (c.get("t") or {}).get("k") == "int" and not (c.get("t") or {}).get("sg")
                                 for c in _cast_chain(x))
                if signed:
                    return True
        return False
    ps = paths.enumerate_paths(fn, None, (lambda b: b == ub) if ub != cfg.entry else None)
    ps = [p for p in ps if (p.end == "stop" and p.end_block == ub) or (ub in p.blocks)]
    if not ps:
        return False
    for p in ps:
        atoms = list(p.atoms)
        if ub in p.blocks:
            # atoms decided in blocks before the use's block only
            pass
        if not any(establishes(a) for a in atoms):
            return False
    return True


def _cast_chain(x):
    out = []
    while isinstance(x, dict) and x.get("k") == "cast":
        out.append(x)
        x = x["e"]
    return out


def remaining_fact(fs, ends, ptr_canon, need_const=None, need_canon=None, minus=0, fn=None, at_id=None):
    """A live fact `(end - ptr) [- minus] >= need` (also through a local kept equal to end - ptr)."""
    rc = remaining_counters(fn, ends, ptr_canon, at_id) if fn is not None else set()
    ra = remaining_accessor_locals(fn, ptr_canon) if fn is not None else set()
    for a in fs:
        if a[0] == "cmp" and ra:
            for x, y, op in ((a[4], a[5], a[2]), (a[5], a[4], facts._flip_op(a[2]))):
                if op not in (">=", ">"):
                    continue
                xx = strip_all_casts(x)
                m0 = 0
                if xx.get("k") == "bin" and xx.get("op") == "-" and const_value(xx["r"]) is not None:
                    m0 = const_value(xx["r"])
                    xx = strip_all_casts(xx["l"])
                if xx.get("k") == "ref" and xx.get("decl") in ra and m0 >= minus:
                    yv = const_value(y)
                    if need_const is not None and yv is not None and yv + (1 if op == ">" else 0) >= need_const and yv + (1 if op == ">" else 0) >= 1:
                        return a
                    if need_canon is not None and canon(strip_all_casts(y)) == need_canon:
                        return a
    rv = remaining_views(fn, ends, ptr_canon) if fn is not None and minus == 0 else set()
    for a in fs:
        if a[0] == "cmp" and rv:
            for x, y, op in ((a[4], a[5], a[2]), (a[5], a[4], facts._flip_op(a[2]))):
                xs = strip_all_casts(x)
                if op in (">=", ">") and xs.get("k") == "call" and (xs.get("callee") or {}).get("nm") in ("size", "length") and \
                        strip_all_casts(xs.get("obj", {})).get("decl") in rv:
                    # V.size() <= end - ptr at all times (V only shrinks), so a bound on V.size() bounds the bytes at ptr
                    yv = const_value(y)
                    if need_const is not None and yv is not None and yv + (1 if op == ">" else 0) >= need_const:
                        return a
    for a in fs:
        if a[0] == "cmp" and rc:
            for x, y, op in ((a[4], a[5], a[2]), (a[5], a[4], facts._flip_op(a[2]))):
                if op in (">=", ">") and strip_all_casts(x).get("decl") in rc and minus == 0:
                    yv = const_value(y)
                    if need_const is not None and yv is not None and yv + (1 if op == ">" else 0) >= need_const:
                        return a
                    if need_canon is not None and canon(strip_all_casts(y)) == need_canon:
                        return a
    for a in fs:
        if a[0] != "cmp":
            continue
        for x, y, op in ((a[4], a[5], a[2]), (a[5], a[4], facts._flip_op(a[2]))):
            if op not in (">=", ">"):
                continue
            xx = strip_all_casts(facts.expand(fn, x, keep=ends) if fn is not None else x)
            m = 0
            if xx.get("k") == "bin" and xx.get("op") == "-" and const_value(xx["r"]) is not None and strip_all_casts(xx["l"]).get("k") == "bin":
                m = const_value(xx["r"])
                xx = strip_all_casts(xx["l"])
            if xx.get("k") == "bin" and xx.get("op") == "-":
                e, p = strip_all_casts(xx["l"]), strip_all_casts(xx["r"])
                if e.get("decl") in ends and canon(p) == ptr_canon and m >= minus:
                    yv = const_value(y)
                    if need_const is not None and yv is not None and yv + (1 if op == ">" else 0) >= need_const:
                        return a
                    if need_canon is not None and canon(strip_all_casts(y)) == need_canon:
                        return a
    return None


def run(ctx):
    fb = ctx.fb()
    res = Result("C03")
    res.rule("C03-R1", "validator facts: from each T::isValidPayload the guaranteed minimum size K_T and the header length getters bounded by "
                        "`<= size - sizeof(Header)` are derived (must-facts at the true returns)")
    res.rule("C03-R2a", "fixed-offset header reads of every accessor need sizeof(T::Header) <= K_T")
    res.rule("C03-R2b", "view pairs (data pointer, length): the length getter's header field is bounded by the validator, or is derived from the "
                         "payload size, or is produced by a bounded reader (returns a length only under `(end - p) - 2 >= length`)")
    res.rule("C03-R2c", "walkers: in accessor-reachable code every dereference of a pointer at a data-dependent position and every view built from "
                         "it is dominated by a comparison of the remaining bytes (end - ptr), end = payloadData.data() + payloadData.size()")
    res.rule("C03-R3", "dispatch agreement: in Packet::create the class whose validator is called is the class constructed, for every payload type with a typed class")
    res.rule("C03-R4", "message level: Packet::isValidPacket guards its header read by size >= 16 and bounds payloadLength by size - 16; packets are "
                        "constructed from raw bytes only under it (decoder) or from a buffer whose header length the owner maintains (reassembly)")
    res.rule("C03-R5", "the size the validator saw is the size the object owns: Payload(type, data, size) gives its buffer exactly `size` bytes on every path "
                        "(C04-R6) — the validators bound inner lengths by the caller's size, the accessors by the object's")
    res.not_decided += ["meaningfulness of view contents; only extents are decided", "payloads built through the API (C13)"]

    from rules.c04 import rule_reported_length
    rule_reported_length(fb, res, "C03-R5")
    for cls in CLASSES:
        q = NS + cls
        val = find_method(fb, q, "isValidPayload")
        if val is None:
            raise Broken("%s has no isValidPayload" % q)
        from cmpverif.accessors import header_view_record
        hrec = header_view_record(fb, q)
        hsize = fb.record(hrec)["size"]
        K, bounded = validator_facts(fb, val)
        res.ok("C03-R1", "%s:validator" % cls, val.loc, "guarantees size >= %d; bounded length getters: %s" % (K, sorted(b[0].split("::")[-1] for b in bounded)))
        # the validator's own header reads are guarded
        mfv = MustFacts(val)
        sizep = val.params[1]["decl"]
        for c in val.calls():
            if "::Header::" in (callee_name(c) or "") and "obj" in c:
                fs = mfv.at(c)
                # inside a conjunction the earlier conjuncts are path facts as well
                ok = facts.fact_implies_ge(fs, sizep, hsize) is not None
                res.check(ok, "C03-R1", "%s:validator-read:%s" % (cls, (callee_name(c) or "").split("::")[-1]), c.get("loc"),
                          "header read guarded by size >= %d" % hsize, "the validator reads the header before it has checked size >= sizeof(Header)")
        res.check(K >= hsize, "C03-R2a", "%s:header-reads" % cls, val.loc, "K = %d >= sizeof(Header) = %d" % (K, hsize),
                  "%s::isValidPayload guarantees only %d bytes but the accessors read a %d-byte header" % (cls, K, hsize))
        # ---- views
        for pg, lg in VIEWS[cls]:
            lenf = find_method(fb, q, lg, const=True)
            ptrf = find_method(fb, q, pg, const=True)
            if lenf is None or ptrf is None:
                raise Broken("%s::%s/%s not found" % (cls, pg, lg))
            hg = [c for c in lenf.calls() if "::Header::get" in (callee_name(c) or "")]
            key = "%s:%s/%s" % (cls, pg, lg)
            if "ASAM::CMP::Payload::getLength" in called_names(lenf.body):
                res.ok("C03-R2b", key, lenf.loc, "length derives from the payload's own size")
                rule_view_extent(fb, res, cls, key, ptrf, lenf, hsize)
            elif hg:
                nm = callee_name(hg[0])
                okb = any(b[0] == nm and b[1] >= hsize for b in bounded)
                # ... and that field is all the getter ever reports: every value it can return is the bounded header field itself (or 0);
                # a fallback to another field, a decoded DLC, a default — none of them was compared with the payload size
                def leaves(e, depth=0):
                    e = strip_all_casts(facts.expand(lenf, e))
                    if e.get("k") == "cond" and depth < 4:
                        return leaves(e["a"], depth + 1) + leaves(e["b"], depth + 1)
                    return [e]
                other = []
                for r in lenf.returns():
                    if not isinstance(r.get("e"), dict):
                        continue
                    for v in leaves(r["e"]):
                        if const_value(v) == 0:
                            continue
                        if v.get("k") == "call" and callee_name(v) in [b[0] for b in bounded if b[1] >= hsize] and not v.get("args"):
                            continue
                        other.append(v)
                res.check(not other, "C03-R2b", key + ":only-the-bounded-field", (other[0].get("loc") if other else None) or lenf.loc,
                          "%s() returns the validated header field on every path" % lg,
                          "%s() can also return `%s`, a value %s::isValidPayload never compared with the payload size: the view %s()/%s() of a payload "
                          "accepted as valid can reach beyond its bytes" % (lg, canon(other[0])[:90] if other else "", cls, pg, lg))
                if okb:
                    rule_view_extent(fb, res, cls, key, ptrf, lenf, hsize, bound_minus=max(b[1] for b in bounded if b[0] == nm))
                res.check(okb, "C03-R2b", key, lenf.loc, "%s() is bounded by the validator (<= size - %d)" % (nm.split("::")[-1], hsize),
                          "the view %s()/%s() is %s() bytes long but %s::isValidPayload does not bound that field by the payload size: a "
                          "payload accepted as valid reports data beyond its own bytes" % (pg, lg, nm.split("::")[-1], cls))
            else:
                # bounded-reader pattern: length comes from a reader function; pointer getter is reader's pointer + 2
                rd = [c for c in lenf.calls() if fb.resolve_call(c) is not None and fb.resolve_call(c).rec == q and fb.resolve_call(c).params and
                      fb.resolve_call(c).params[0]["t"].get("k") == "ptr"]
                ok = False
                why = "length is not produced by a bounded reader"
                for c in rd:
                    g = fb.resolve_call(c)
                    br = bounded_reader(fb, g)
                    if br is True:
                        ok = True
                        rule_view_extent(fb, res, cls, key, ptrf, lenf, hsize, reader_arg=c["args"][0])
                    elif br:
                        why = br
                if not ok and cls == "CaptureModulePayload":
                    # the length is the size of a string_view produced by the walker; the walker's views are checked under R2c
                    # the reported length is the size() of a string_view; every such view handed out by the class's walker code is an R2c obligation
                    rets = lenf.returns()
                    ok = bool(rets) and all(isinstance(r.get("e"), dict) and any((callee_name(x) or "").startswith("std::basic_string_view") and
                                                                                 (x.get("callee") or {}).get("nm") in ("size", "length")
                                                                                 for x in walk(facts.expand(lenf, r["e"])) if x.get("k") == "call") for r in rets)
                    why = "length is the size of a view built by the walker (guards checked under C03-R2c)"
                    if ok:
                        dl, dp = walk_depth(fb, lenf), walk_depth(fb, ptrf)
                        if dl is None or dp is None or not dl:
                            own = [fl for fl in fb.record(q).get("fields", []) if not fb.is_payload_buffer({"k": "member", "field": fl["qname"], "dk": "field"})]
                            if own:
                                # the walk depends on state the class keeps beside the payload bytes (a cached position): what the reader
                                # answers is then a function of earlier calls, not of the bytes — after the bytes change it points elsewhere
                                res.bad("C03-R2b", key + ":position-from-state", own[0].get("loc") or lenf.loc,
                                        "%s()/%s(): the position of the field is taken from the data member `%s` kept beside the payload bytes on some paths: "
                                        "once the payload is rebuilt (setData) or edited the remembered position belongs to the old content — the view and its "
                                        "length describe other bytes than the field's" % (pg, lg, own[0]["name"]))
                                continue
                            raise Broken("%s/%s: walker steps before the return differ between paths" % (pg, lg))
                        res.check(dl == dp, "C03-R2b", key + ":extent", ptrf.loc, "pointer and length come from the same walker position (%d steps each)" % dl,
                                  "%s() returns the field after %d walker steps, %s() the length of the field after %d: pointer and length belong "
                                  "to different fields" % (pg, dp, lg, dl))
                res.check(ok, "C03-R2b", key, lenf.loc, "length produced by a bounded reader / guarded walker", "%s()/%s(): %s" % (pg, lg, why))
        # ---- walkers: raw accesses in accessor-reachable member functions of the class (excluding builders and validators)
        for f in fb.all_functions():
            if f.rec != q or f is val or not f.raw.get("const") and not f.raw.get("static"):
                continue
            if f.name.split("::")[-1] in ("getHeader",):
                continue
            check_walker(res, fb, f, cls, hsize, K)

    # ---- R2c (terminators): payload bytes are never read as a C string.  A std::string_view / std::string built from a pointer alone, or
    # strlen & co. on a pointer that is not a literal, reads until it meets a zero byte — nothing bounds that by the payload; the views the
    # classes hand out carry their length, and it must stay the one the bounded readers established
    CSTR = {"strlen", "std::strlen", "strcpy", "std::strcpy", "strcat", "std::strcat", "strcmp", "std::strcmp", "strchr", "std::strchr",
            "strrchr", "std::strrchr", "strstr", "std::strstr", "rawmemchr", "std::char_traits::length", "atoi", "std::atoi", "strtol", "std::strtol",
            "strtoul", "std::strtoul", "sscanf", "std::sscanf"}
    nterm = 0
    for f in fb.all_functions():
        if not (f.rec and (f.rec == NS + "Payload" or f.rec in fb.derived_from(NS + "Payload") or f.rec.startswith("TECMP::"))):
            continue
        for x in f.nodes():
            bad = None
            if x.get("k") == "construct" and (x.get("rec") or "").startswith(("std::basic_string_view", "std::basic_string")):
                a = [y for y in x.get("args", []) if not (strip_all_casts(y).get("k") == "construct" and (strip_all_casts(y).get("rec") or "").startswith("std::allocator"))]
                if len(a) == 1 and (strip_all_casts(a[0]).get("t") or {}).get("k") == "ptr" and strip_all_casts(a[0]).get("k") != "lit":
                    bad = "builds a %s from the pointer `%s` alone: its length is wherever the next zero byte happens to be" % (
                        (x.get("rec") or "").replace("std::basic_", "std::"), canon(a[0])[:60])
            elif x.get("k") == "call" and callee_name(x) in CSTR and x.get("args") and strip_all_casts(x["args"][0]).get("k") != "lit":
                bad = "calls %s on `%s`, which reads until a zero byte" % (callee_name(x), canon(x["args"][0])[:60])
            if bad:
                nterm += 1
                res.bad("C03-R2c", "%s:unterminated@%s" % (f.name.replace(NS, ""), (x.get("loc") or "").split(":", 1)[-1]), x.get("loc"),
                        "%s %s — a payload without a terminator in the right place (accepted by isValidPayload all the same) is read beyond its bytes" % (f.name, bad))
    if not nterm:
        res.ok("C03-R2c", "no-c-string-reads", "", "no payload class reads bytes as a zero-terminated string (views carry their bounded length)")

    # ---- R3 dispatch agreement
    cre = fb.fn(NS + "Packet::create")
    typed = {}
    for cls in CLASSES:
        ctor = [f for f in fb.fns(NS + cls + "::" + cls) if len(f.params) == 2]
        if len(ctor) != 1:
            raise Broken("%s(data,size) constructor not found" % cls)
        pt = None
        for i in ctor[0].raw.get("inits", []):
            for x in walk(i.get("e", {})):
                if x.get("k") == "ref" and x.get("dk") == "enumerator" and x["decl"].startswith(NS + "PayloadType::"):
                    pt = x["cv"]
        typed[cls] = pt
    seen_cases = {}
    def is_mk(e):
        return any(x.get("k") == "call" and (callee_name(x) or "").startswith("std::make_unique") for x in walk(e))
    for p in paths.return_rows(fb, cre, is_mk):
        sw = [a for a in p.atoms if a[0] == "switch"]
        r = p.ret
        if not sw:
            continue
        case = sw[0][2]
        vals = [(callee_name(a[3]).rsplit("::", 1)[0], a[2]) for a in p.atoms if a[0] == "truth" and a[3].get("k") == "call" and (callee_name(a[3]) or "").endswith("::isValidPayload")]
        mk = [x for x in walk(r["e"]) if x.get("k") == "call" and (callee_name(x) or "").startswith("std::make_unique")]
        if vals and vals[-1][1] is True and mk:
            built = (mk[0].get("callee") or {}).get("targs", ["?"])[0]
            seen_cases[case] = (vals[-1][0], built)
    # every way out of create for a payload type that has a typed class passes that class's validator: a row that is consistent
    # with `type == T` but carries no validator result (an early return in front of the dispatch) hands out an unvalidated payload
    from cmpverif import tables
    sel_cands = [a[4] for p in paths.return_rows(fb, cre, is_mk) for a in p.atoms if a[0] == "switch" and a[4] is not None]
    if sel_cands:
        selcanon = canon(strip_all_casts(sel_cands[0]))

        def selector(n):
            return canon(strip_all_casts(n)) == selcanon
        rows = paths.return_rows(fb, cre, is_mk)
        for cls in CLASSES:
            pt = typed[cls]
            if pt is None:
                continue
            unval = []
            for p in rows:
                pp = type("P", (), {"atoms": p.atoms, "value_of": lambda self, e, before=None: e})()
                if not tables.path_consistent(pp, selector, pt, fb):
                    continue
                vals = [a for a in p.atoms if a[0] == "truth" and a[3].get("k") == "call" and (callee_name(a[3]) or "").endswith("::isValidPayload")]
                mk = [x for x in walk(p.ret["e"]) if x.get("k") == "call" and (callee_name(x) or "").startswith("std::make_unique")]
                inv = any(const_value(x) == 0 for m0 in mk for a0 in m0.get("args", [])[:1] for x in walk(a0))
                if not vals and not inv:
                    unval.append(p.ret)
            res.check(not unval, "C03-R3", "create:%s:always-validated" % cls, (unval[0] if unval else cre.raw).get("loc"),
                      "every path for payload type 0x%04X passes %s::isValidPayload" % (pt, cls),
                      "Packet::create can return a payload of type 0x%04X (%s) without %s::isValidPayload having seen the bytes: its accessors then "
                      "read a buffer that was never checked to hold a header" % (pt, cls, cls))
    if not seen_cases:
        raise Broken("Packet::create: no (payload type -> validator, constructed class) row could be read off its paths; the dispatch is not a "
                     "switch / if-chain over the payload type (a table of function pointers?) — re-derive C03-R3")
    for cls in CLASSES:
        pt = typed[cls]
        row = seen_cases.get(pt)
        vq = NS + cls
        okr = row is not None and row[1] == vq and (row[0] == vq or row[0] in fb.bases_of(vq))
        res.check(okr, "C03-R3", "create:%s" % cls, cre.loc, "payload type 0x%04X: validated by %s, constructed as %s" % (pt or 0, (row or ("?", "?"))[0].split("::")[-1], cls),
                  "payload type 0x%04X (%s): validated by %s but constructed as %s" % (pt or 0, cls, row[0] if row else "nothing", row[1] if row else "nothing"))

    # ---- R4 message level
    ivp = fb.fn(NS + "Packet::isValidPacket")
    K, bounded = validator_facts(fb, ivp)
    mh = fb.record(NS + "MessageHeader")["size"]
    res.check(K >= mh, "C03-R4", "isValidPacket:min-size", ivp.loc, "guarantees size >= %d" % K, "isValidPacket guarantees only %d bytes" % K)
    mfv = MustFacts(ivp)
    for c in ivp.calls():
        if (callee_name(c) or "").startswith(NS + "MessageHeader::") and "obj" in c:
            ok = facts.fact_implies_ge(mfv.at(c), ivp.params[1]["decl"], mh) is not None
            res.check(ok, "C03-R4", "isValidPacket:read:%s" % callee_name(c).split("::")[-1], c.get("loc"), "header read guarded by size >= 16",
                      "isValidPacket reads the message header before checking size >= sizeof(MessageHeader)")
    okl = any(b[0] == NS + "MessageHeader::getPayloadLength" and b[1] == mh for b in bounded)
    res.check(okl, "C03-R4", "isValidPacket:length-bound", ivp.loc, "payloadLength <= size - 16", "isValidPacket does not bound the payload length by size - sizeof(MessageHeader)")
    # construction sites of Packet(msgType, data, size)
    from rules import decoder_rules as D
    m = D.DecodeModel(fb)
    n_sites = 0
    for f in fb.all_functions():
        for c in f.calls():
            if (callee_name(c) or "").startswith("std::make_shared") and (c.get("callee") or {}).get("targs", [""])[0] == NS + "Packet" and len(c.get("args", [])) == 3:
                n_sites += 1

                def guarded(fn, site, pa, sa, depth=0):
                    fs = MustFacts(fn).at(site)
                    want = "ASAM::CMP::Packet::isValidPacket(%s, %s)" % (canon(strip_all_casts(pa)), canon(strip_all_casts(sa)))
                    if any(a[0] == "truth" and a[2] is True and a[1] == want for a in fs):
                        return True
                    # (pointer, size) parameters passed on unchanged: the obligation moves to every call site
                    pd = [p["decl"] for p in fn.params]
                    x, y = strip_all_casts(pa), strip_all_casts(sa)
                    if depth < 2 and x.get("decl") in pd and y.get("decl") in pd and x.get("dk") == "param" and y.get("dk") == "param" and \
                            not any(d in (x["decl"], y["decl"]) for d, _, _ in facts.writes_of(fn)):
                        sites = [(cf, facts.effective_call(cn)) for cf in fb.all_functions() for cn in cf.nodes()
                                 if cn.get("k") == "call" and (fb.resolve_call(cn) is fn)]
                        return bool(sites) and all(len(cn.get("args", [])) > max(pd.index(x["decl"]), pd.index(y["decl"])) and
                                                   guarded(cf, cn, cn["args"][pd.index(x["decl"])], cn["args"][pd.index(y["decl"])], depth + 1) for cf, cn in sites)
                    return False
                ok = guarded(f, c, c["args"][1], c["args"][2])
                why = "guarded by isValidPacket on the same pointer and size"
                if not ok and f.name == D.SEG + "::getPacket":
                    # reassembly buffer: header length is maintained by the owner after every growth
                    spl = [x for x in m.addSegment.calls(NS + "MessageHeader::setPayloadLength")]
                    cfg = m.addSegment.cfg
                    rs = [x for _, kind, x, _ in facts.vector_sizing(m.addSegment, m.buffer)]
                    ok = len(spl) == 1 and len(rs) >= 1 and all(cfg.block_for(spl[0]) == cfg.block_for(r) and cfg.pos_of[spl[0]["id"]] > cfg.pos_of[r["id"]] for r in rs) and \
                        m.buffer in depends(m.addSegment, spl[0]["args"][0])[0] and setlen_is_size_minus_header(fb, m, spl[0]["args"][0])
                    why = "reassembly buffer: its header's payload length is rewritten to size() - 16 after every growth"
                res.check(ok, "C03-R4", "Packet-from-bytes:%s" % f.name.split("::")[-1], c.get("loc"), why,
                          "a Packet is constructed from raw bytes in %s without isValidPacket on the same pointer and size" % f.name)
    # what the validator judged is what the object holds: T(data, size) keeps exactly `size` bytes (C04-R6, shared) — otherwise the bound
    # `length field <= size - K` was established for a size the stored payload does not have
    from rules.c04 import rule_typed_ctor_keeps_size
    rule_typed_ctor_keeps_size(fb, res, "C03-R2b")
    # the views of the interface status payload start at the positions of their fields (C13-R7, shared): a position computed through a lossy
    # conversion or from the wrong word lies outside the bytes the bounded reader vouched for
    from rules import readers
    readers.interface_reader_positions(fb, res, "C03-R2b", prefix="position:")
    res.floor("C03-R1", 14)
    res.floor("C03-R2a", 7)
    res.floor("C03-R2b", 8)
    res.floor("C03-R3", 7)
    res.floor("C03-R4", 5)
    return res


def setlen_is_size_minus_header(fb, m, e):
    """The value given to setPayloadLength is buffer.size() - sizeof(MessageHeader), as a linear form
    (whatever constant or sizeof spells the 16; a conversion to the 16-bit field may sit anywhere)."""
    from rules.decoder_rules import _linear
    mh = fb.record(NS + "MessageHeader")["size"]

    def syms(x):
        if x.get("k") == "call" and (x.get("callee") or {}).get("nm") == "size" and strip_all_casts(x.get("obj", {})).get("field") == m.buffer:
            return "size"
        return None
    form = _linear(m.addSegment, e, syms)
    if form is not None and form.get("size") == 1 and form.get(1, 0) == -mh and set(form) <= {"size", 1}:
        return True
    # ... or the size the preceding growth gave the buffer, minus 16, spelled with the operands of that growth (`const size_t total =
    # old + n; resize(total); setPayloadLength(total - 16)`): the same linear form as the resize amount, the vector's size() read before it
    fn = m.addSegment
    sets = [(x, ln) for _, kind, x, ln in facts.vector_sizing(fn, m.buffer) if kind == "set" and ln is not None]
    if len(sets) != 1:
        return False
    grow, amount = sets[0]
    cfg = fn.cfg

    def syms2(x):
        if x.get("k") == "call" and (x.get("callee") or {}).get("nm") == "size" and strip_all_casts(x.get("obj", {})).get("field") == m.buffer:
            # only a size() taken before the growth (same block, earlier) is the old size
            if x.get("id") in cfg.pos_of and cfg.block_for(x) == cfg.block_for(grow) and cfg.pos_of[x["id"]] < cfg.pos_of[grow["id"]]:
                return "old"
            return "size"
        if x.get("k") in ("call", "ref", "member") and not (x.get("k") == "ref" and x.get("dk") == "local"):
            return "v:" + canon(x)
        return None
    fa, fe = _linear(fn, amount, syms2), _linear(fn, e, syms2)
    if fa is None or fe is None or "size" in fa or "size" in fe:
        return False
    d = dict(fa)
    for k2, v in fe.items():
        d[k2] = d.get(k2, 0) - v
    return {k2: v for k2, v in d.items() if v} == {1: mh}


def bounded_reader(fb, g):
    """True when g(ptr) returns either 0 or a length L read from ptr under the facts
    (end - ptr) >= 2 and (end - ptr) - 2 >= L; else a reason string."""
    ends = buffer_end_locals(g)
    if not g.params or g.params[0]["t"].get("k") != "ptr":
        return "reader takes no pointer"
    pdecl = g.params[0]["decl"]
    mf = MustFacts(g)
    derefs = [x for x in g.nodes() if x.get("k") == "un" and x.get("op") == "*"]
    if not derefs:
        return "reader does not read"
    for d in derefs:
        fs = mf.at(d)
        w = (strip_all_casts(d["e"]).get("t") or {}).get("psize") or ((d.get("t") or {}).get("bits", 8) // 8)
        w = (d.get("t") or {}).get("bits", 8) // 8
        if not remaining_fact(fs, ends, pdecl, need_const=w, fn=g):
            return "%s reads %d bytes at its pointer without a live `(end - ptr) >= %d` guard (end = payloadData.data() + payloadData.size())" % (g.name.split("::")[-1], w, w)
        if ends and not not_past_end(g, d, ends, pdecl):
            return "%s bounds its read by the unsigned distance `size_t(end - ptr)` without excluding `end < ptr` first: for a position behind the payload " \
                   "the distance wraps and the guard passes" % g.name.split("::")[-1]
    for r in g.returns():
        e = strip_all_casts(r["e"])
        if const_value(e) == 0:
            continue
        # value returned on this return: a ?: with 0 on one side counts as guarded by its condition
        cands = [e]
        if e.get("k") == "cond":
            cands = [strip_all_casts(x) for x in (e["a"], e["b"]) if const_value(x) != 0]
            conds = conjuncts(e["c"], const_value(e["b"]) != 0 and const_value(e["a"]) == 0 and False or (const_value(e["a"]) != 0))
            # polarity: value branch is 'a' when b == 0, else 'b'
            val_is_a = const_value(e["b"]) == 0
            conds = conjuncts(e["c"], val_is_a)
        else:
            conds = []
        fs = list(mf.at(r)) + conds
        for v in cands:
            if not remaining_fact(fs, ends, pdecl, need_canon=canon(v), minus=2, fn=g):
                return "%s returns the length read from the payload without the guard `(end - ptr) - 2 >= length`" % g.name.split("::")[-1]
    return True


def check_walker(res, fb, f, cls, hsize, K):
    """Raw accesses at data-dependent positions inside accessor f."""
    ends = buffer_end_locals(f)
    mf = None
    # shrinking a view by more than its size is undefined: remove_prefix(n) / remove_suffix(n) need size() >= n
    for c in f.calls():
        if (c.get("callee") or {}).get("nm") in ("remove_prefix", "remove_suffix") and "basic_string_view" in (callee_name(c) or "") and c.get("args"):
            o = strip_all_casts(c.get("obj", {}))
            if o.get("k") != "ref" or o.get("dk") != "local":
                continue
            if mf is None:
                mf = MustFacts(f)
            nv, ncan = const_value(c["args"][0]), canon(strip_all_casts(c["args"][0]))
            ok = False
            for a in mf.at(c):
                if a[0] != "cmp":
                    continue
                for x, y, op in ((a[4], a[5], a[2]), (a[5], a[4], facts._flip_op(a[2]))):
                    xs = strip_all_casts(x)
                    if op in (">=", ">") and xs.get("k") == "call" and (xs.get("callee") or {}).get("nm") in ("size", "length") and \
                            strip_all_casts(xs.get("obj", {})).get("decl") == o["decl"]:
                        yv = const_value(y)
                        if (nv is not None and yv is not None and yv + (1 if op == ">" else 0) >= nv) or canon(strip_all_casts(y)) == ncan:
                            ok = True
            res.check(ok, "C03-R2c", "%s::%s:shrink@%s" % (cls, f.name.split("::")[-1], (c.get("loc") or "").split(":", 1)[-1]), c.get("loc"),
                      "view shrunk by `%s` under size() >= that" % ncan[:40],
                      "%s::%s shrinks a view by `%s` without a live `size() >= %s`: undefined for short payloads" % (cls, f.name.split("::")[-1], ncan[:40], ncan[:40]))
    for x in f.nodes():
        kind = None
        if x.get("k") == "un" and x.get("op") == "*":
            p = strip_all_casts(x["e"])
            if p.get("k") == "this":
                continue
            pt = p.get("t") or {}
            kind = "deref"
            ptr = p
            width = (x.get("t") or {}).get("bits", 8) // 8
        elif x.get("k") == "construct" and (x.get("rec") or "").startswith("std::basic_string_view") and len(x.get("args", [])) == 2:
            kind = "view"
            ptr = strip_all_casts(x["args"][0])
            width = None
            lenexpr = strip_all_casts(x["args"][1])
        else:
            continue
        # constant position inside the guaranteed header?  (payloadData.data() + c)
        base = ptr
        if mf is None:
            mf = MustFacts(f)
        fs = mf.at(x)
        pc = canon(ptr)
        key = "%s::%s:%s@%s" % (cls, f.name.split("::")[-1], kind, pc[:30])
        if kind == "deref":
            ok = remaining_fact(fs, ends, pc, need_const=width, fn=f, at_id=x["id"])
            if ok is not None and ends and strip_all_casts(ptr).get("k") == "ref":
                res.check(not_past_end(f, x, ends, pc), "C03-R2c", key + ":not-past-end", x.get("loc"), "end >= ptr established before the unsigned distance is used",
                          "%s::%s bounds this read by `size_t(end - ptr)` without excluding `end < ptr` on every path: behind the payload the distance wraps "
                          "and the guard passes" % (cls, f.name.split("::")[-1]))
            res.check(ok is not None, "C03-R2c", key, x.get("loc"), "dereference of %d bytes guarded by (end - ptr) >= %d" % (width, width),
                      "%s::%s reads %d bytes at a position taken from the payload (`%s`) without comparing the remaining bytes with the end of the "
                      "payload: a payload accepted by isValidPayload (>= %d bytes) can make it read beyond its buffer" % (cls, f.name.split("::")[-1], width, pc, K))
        else:
            le = strip_all_casts(lenexpr)
            if le.get("k") == "bin" and le.get("op") == "-" and strip_all_casts(le["l"]).get("decl") in ends and canon(strip_all_casts(le["r"])) == pc:
                # a view of everything from ptr to the end: in bounds whenever end >= ptr
                ge = any(a[0] == "cmp" and ((a[2] in (">=",) and strip_all_casts(a[4]).get("decl") in ends and canon(strip_all_casts(a[5])) == pc) or
                                            (a[2] in ("<=",) and canon(strip_all_casts(a[4])) == pc and strip_all_casts(a[5]).get("decl") in ends)) for a in fs)
                res.check(ge, "C03-R2c", key, x.get("loc"), "view of all remaining bytes (end - ptr) under end >= ptr",
                          "%s::%s builds a view of `end - ptr` bytes without `end >= ptr` being established" % (cls, f.name.split("::")[-1]))
                continue
            ok = remaining_fact(fs, ends, pc, need_canon=canon(lenexpr), fn=f, at_id=x["id"])
            res.check(ok is not None, "C03-R2c", key, x.get("loc"), "view of `%s` bytes guarded by (end - ptr) >= %s" % (canon(lenexpr), canon(lenexpr)),
                      "%s::%s hands out a view of `%s` bytes at `%s` without comparing that length with the remaining bytes of the payload" %
                      (cls, f.name.split("::")[-1], canon(lenexpr), pc))
